"""C16 — correspondence + direct oracle for the RAOP packet loop and retransmission.

Real code driven (in-process, nothing re-implemented):
  StreamClient._stream_data / _send_packet / _send_number_of_packets, StreamContext (reset,
  rtptime, frame_size, packet_size), PacketFifo, AudioPacketHeader / RetransmitReqeust,
  AirPlayV1.send_audio_packet and AirPlayV2.send_audio_packet (plain and with a real
  Chacha20Cipher8byteNonce under a fixed key), ControlClient.datagram_received ->
  _retransmit_lost_packets.
Sequences of streams: the real RaopPlaybackManager (its one StreamContext and its teardown()),
per stream a new StreamClient/protocol as setup() builds them, the real send_audio()
(context.reset(), _stream_data, backlog.clear()) under the virtual-time loop; the property is
demanded of EVERY stream of the sequence and the context after every reset is compared with
the model's `Ctx.reset`.
Fakes (harness only): an AudioSource holding scripted bytes, capturing datagram transports,
an object with `session_id` standing in for the RTSP session (answering every request at once in sessions), `monotonic`/`monotonic_ns`
and `asyncio.sleep` in the stream_client namespace replaced by a scripted clock whose
random lag makes the loop take its compensation branch.

timing.ntp2parts / ntp2ts / ntp2ms on NTP values up to 2^64 and ntp_now under a patched
`time_ns` (the source of every stream's start timestamp) against `C16/Timing.lean`.

Model lines (Driver/C16.lean): `stream`, `ctrl`, `ctrlat`, `load`, `fifo`, `ntp`, `ntpnow`, `ctxnew`, `ctxstream`, `ctxreset`.
The compensation decisions fed to the model are the ones *observed* on the real run; for an
encrypted v2 run the datagrams in the model's backlog are the observed ones (`load`: the
cipher is a parameter of the model), payloads are compared after opening them.
"""
import asyncio
import random
import struct

PROPS_FILES = ["PyatvModel/Props/C16.lean", "PyatvModel/Props/C16Timing.lean"]

RULE = ("stream cases = (protocol variant v1|v2 plain|v2 encrypted) x channels{1,2} x sample size{1,2,3,4} x "
        "source length 0..3*352+351 frames (every remainder; plus byte lengths that are not whole frames) x start "
        "sequence number {0,1,65534,65535,random} x latency {as reset() sets it, 0..3 packets around the packet "
        "boundaries} x a random clock-lag script that makes _stream_data compensate with 0..3 extra packets; "
        "retransmit cases = requests (first,count) through ControlClient.datagram_received for every first over "
        "the whole backlog (+-3) of a >1000-packet run that crosses the 2^16 wrap, and mid-stream; PacketFifo "
        "cases = random set/get/in scripts incl. duplicate keys and limits 0..4; sessions = 2-3 consecutive streams of "
        "different lengths / formats / sample rates on ONE StreamContext owned by a real RaopPlaybackManager (new client per "
        "stream, real send_audio and teardown, reset() in between as the code does), with retransmit requests during "
        "earlier and later streams, also with the same start sequence number twice. non-trivial = the stream has a "
        "short last data packet, or wraps the sequence number, or compensated at least once, or a request that "
        "crosses the wrap / the backlog edge, or a fifo script with an eviction or a raise, or a session of >= 2 streams, or a read that came back short before the end of the source; sources with short reads at "
        "arbitrary points: a read-size schedule on the scripted source, the real BufferedIOBaseSource (buffering task with "
        "scripted executor turns and a late reader; and opened from an io.BytesIO WAV through real miniaudio) in front of "
        "the real _stream_data, oracle = every delivered frame exactly once and in order, zero padding allowed anywhere; plus one stream of more than 2^16 packets (a full circle of the sequence space; "
        "thorough: a second, all-silence one that is also run on the model); distinct = canonical case")
ASSUMPTIONS = [
    "AudioSource.readframes(n) returns the next bytes of the source in order: at most n*frame_size, possibly fewer at any point (the code zero-pads every short non-empty read to a packet), b'' when exhausted",
    "the stream is not stopped (stop()) and the audio transport is not closing while it runs",
    "timestamps stay below 2^32 (streams shorter than ~27 h); frame size > 0",
]
TRUSTED = [
    "harness/c16.py fakes: scripted AudioSource, capturing transports, scripted clock (monotonic/monotonic_ns/asyncio.sleep)",
    "cryptography's ChaCha20Poly1305 used by the harness to open v2 datagrams before comparing payloads",
]

FPP = 352
KEY = bytes(range(32))
MOD = 1 << 16


def digest(b):
    h = 0
    for x in b:
        h = (h * 257 + x + 1) % 4294967291
    return h


def hx(b):
    return b.hex() if b else "-"


# --------------------------------------------------------------------------- fakes

class Clock:
    """Scripted clock: sleeping advances it; every sleep/read may add a random lag."""

    def __init__(self, lagseed, lagp):
        self.now = 1000.0
        self.rnd = random.Random(lagseed)
        self.lagp = lagp

    def monotonic(self):
        return self.now

    def monotonic_ns(self):
        return int(round(self.now * 1e9))

    def lag(self):
        if self.lagp and self.rnd.random() < self.lagp:
            self.now += self.rnd.choice((0.004, 0.009, 0.013, 0.02, 0.03, 0.05))

    async def sleep(self, delay, *a, **k):
        if delay > 0:
            self.now += delay
        self.lag()
        await asyncio.sleep(0)


class AsyncioShim:
    def __init__(self, sleep):
        self.sleep = sleep

    def __getattr__(self, name):
        return getattr(asyncio, name)


class Transport:
    def __init__(self):
        self.out = []

    def sendto(self, data, addr=None):
        self.out.append(bytes(data))

    def is_closing(self):
        return False

    def close(self):
        pass

    def get_extra_info(self, *_a):
        return None


class Rtsp:
    def __init__(self, session_id):
        self.session_id = session_id
        self.connection = None


def make_source(data, frame_size, clock, schedule=None):
    try:
        from pyatv.protocols.raop.audio_source import AudioSource as Base
    except Exception:  # changed code: still drive the loop
        Base = object

    class ScriptedSource(Base):
        def __init__(self):
            self.pos = 0
            self.reads = []
            self.chunks = []
            self.schedule = list(schedule or [])

        async def close(self):
            pass

        async def readframes(self, nframes):
            clock.lag()
            want = nframes
            if self.schedule:                      # a read that comes back short before the end
                want = max(1, min(nframes, self.schedule.pop(0)))
            n = want * frame_size
            chunk = data[self.pos:self.pos + n]
            self.pos += len(chunk)
            self.reads.append(nframes)
            if chunk:
                self.chunks.append(chunk)
            return chunk

        async def get_metadata(self):
            return None

        @property
        def sample_rate(self):
            return 44100

        @property
        def channels(self):
            return 2

        @property
        def sample_size(self):
            return 2

        @property
        def duration(self):
            return 0

    return ScriptedSource()


class ExecLoop:
    """`BufferedIOBaseSource.loop`: run_in_executor runs the blocking read after a scripted
    number of event-loop turns, so that readframes() can run while a read is in flight."""

    def __init__(self, seed):
        self.rnd = random.Random(seed)

    def run_in_executor(self, _executor, fn, *args):
        turns = self.rnd.choice((0, 1, 1, 2, 3, 5))

        async def job():
            for _ in range(turns):
                await asyncio.sleep(0)
            return fn(*args)

        return asyncio.ensure_future(job())


class StallingReader:
    """The decoded PCM stream a BufferedIOBaseSource reads from (stands in for
    miniaudio.WavFileReadStream after its header was skipped): read(n) returns up to n bytes,
    now and then fewer (a producer that is late), always whole 16-bit frames."""

    def __init__(self, pcm, seed, align):
        self.pcm, self.pos, self.rnd, self.align = pcm, 0, random.Random(seed), align

    def read(self, n):
        if self.rnd.random() < 0.25:
            n = max(self.align, (self.rnd.randrange(1, n + 1) // self.align) * self.align)
        chunk = self.pcm[self.pos:self.pos + n]
        self.pos += len(chunk)
        return chunk


async def make_buffered_source(case, pcm, clock):
    """The real BufferedIOBaseSource (its buffering task, its readframes): over a scripted reader
    with scripted executor turns ("buffered"), or opened the way stream_file opens an
    io.BytesIO holding a WAV file — real miniaudio decoding, real executor threads ("buffered-open")."""
    from pyatv.protocols.raop.audio_source import BufferedIOBaseSource
    from pyatv.support.metadata import EMPTY_METADATA

    if case["source"] == "buffered-open":
        import io
        import wave
        buf = io.BytesIO()
        w = wave.open(buf, "wb")
        w.setnchannels(case["channels"])
        w.setsampwidth(case["bps"])
        w.setframerate(case.get("sample_rate", 44100))
        w.writeframes(pcm)
        w.close()
        buf.seek(0)
        src = await BufferedIOBaseSource.open(buf, case.get("sample_rate", 44100), case["channels"], case["bps"])
    else:
        reader = StallingReader(pcm, case["srcseed"] ^ 0x5A5A, case["channels"] * case["bps"])
        src = BufferedIOBaseSource(reader, None, EMPTY_METADATA, case.get("sample_rate", 44100), case["channels"], case["bps"])
        src.loop = ExecLoop(case["lagseed"])
    src.chunks = []
    real = src.readframes

    async def readframes(nframes):
        clock.lag()
        chunk = await real(nframes)
        if chunk:
            src.chunks.append(bytes(chunk))
        return chunk

    src.readframes = readframes
    return src


def expected_source(case):
    """The frames the source has to deliver: for the scripted source its bytes; for the real
    BufferedIOBaseSource the PCM it was given, as 16-bit samples in the byte order it emits."""
    data = source_bytes(case)
    if str(case.get("source", "")).startswith("buffered"):
        import array
        import sys as _sys
        a = array.array("h", data)
        if _sys.byteorder == "little":
            a.byteswap()
        return a.tobytes()
    return data


def carried_with_padding(stream, src):
    """Is `src` carried exactly once and in order by `stream` when zero bytes (padding) may have
    been inserted anywhere?  Exact test: same non-zero bytes in the same order, and every run of
    zeros of the source (before, between) is at least as long in the stream.  Returns the number of
    zero bytes that follow the source in the stream, or None."""
    def runs(b):
        out, z = [], 0
        for x in b:
            if x:
                out.append((z, x))
                z = 0
            else:
                z += 1
        return out, z
    rs, tail_s = runs(stream)
    rx, tail_x = runs(src)
    if len(rs) != len(rx):
        return None
    for (zs, bs), (zx, bx) in zip(rs, rx):
        if bs != bx or zs < zx:
            return None
    if tail_s < tail_x:
        return None
    return tail_s - tail_x


def scheduled(case):
    return bool(case.get("reads")) or str(case.get("source", "")).startswith("buffered")


def source_bytes(case):
    n = case["frames"] * case["channels"] * case["bps"] + case.get("extra_bytes", 0)
    return random.Random(case["srcseed"]).randbytes(n) if n else b""


# --------------------------------------------------------------------------- real run

def execute(case):
    """Run one stream case on the real classes.  Returns an observation dict."""
    from pyatv.protocols.raop import protocols as raop_protocols
    from pyatv.protocols.raop import stream_client as sc
    from pyatv.protocols.raop import timing
    from pyatv.protocols.raop.packets import RetransmitReqeust

    obs = {"error": None, "datagrams": [], "comp": [], "responses": [], "ctx": None, "keys": None, "start_ts": None,
           "latency": None}
    clock = Clock(case["lagseed"], case["lagp"])
    frame_size = case["channels"] * case["bps"]
    data = source_bytes(case)
    try:
        saved = (sc.monotonic, sc.monotonic_ns, sc.asyncio, raop_protocols.randrange, timing.ntp_now)
    except AttributeError as ex:  # the code no longer has the names the scripted clock replaces
        obs["error"] = "harness-setup: %s" % ex
        return obs

    async def go():
        context = raop_protocols.StreamContext()
        context.sample_rate = case.get("sample_rate", 44100)
        context.channels = case["channels"]
        context.bytes_per_channel = case["bps"]
        context.reset()                      # real reset: rtpseq := randrange(2**16) (scripted), head_ts := start_ts
        if case.get("latency") is not None:
            context.latency = case["latency"]
        obs["start_ts"] = context.start_ts
        obs["latency"] = context.latency
        rtsp = Rtsp(case["ssrc"])
        if case["variant"] == "v1":
            from pyatv.protocols.raop.protocols.airplayv1 import AirPlayV1
            proto = AirPlayV1(context, rtsp)
        else:
            from pyatv.protocols.raop.protocols.airplayv2 import AirPlayV2
            proto = AirPlayV2(context, rtsp)
            if case["variant"] == "v2c":
                from pyatv.support.chacha20 import Chacha20Cipher8byteNonce
                proto._cipher = Chacha20Cipher8byteNonce(KEY, KEY)
        client = sc.StreamClient(rtsp, context, proto, None)
        audio, ctrl = Transport(), Transport()
        control = sc.ControlClient(context, client._packet_backlog)
        control.connection_made(ctrl)
        if str(case.get("source", "")).startswith("buffered"):
            source = await make_buffered_source(case, data, clock)
        else:
            source = make_source(data, frame_size, clock, case.get("reads"))

        requests = {}
        for k, first, count in case.get("requests", []):
            requests.setdefault(k, []).append((first, count))
        state = {"in_comp": False, "sent": 0}

        def fire(k):
            for first, count in requests.get(k, []):
                before = len(ctrl.out)
                req = RetransmitReqeust.encode(0x80, 0xD5, 1, first, count)
                err = None
                try:
                    control.datagram_received(req, ("10.0.0.1", 6001))
                except Exception as ex:  # observation
                    err = type(ex).__name__
                obs["responses"].append({"k": k, "first": first, "count": count, "req": req.hex(),
                                         "out": ctrl.out[before:], "error": err})

        real_send_packet = client._send_packet
        real_send_n = client._send_number_of_packets

        async def send_packet(src, first, transport):
            if not state["in_comp"]:
                obs["comp"].append(0)
            n = await real_send_packet(src, first, transport)
            if len(audio.out) > state["sent"]:
                state["sent"] = len(audio.out)
                fire(state["sent"])
            return n

        async def send_n(src, transport, count):
            obs["comp"][-1] = count
            state["in_comp"] = True
            try:
                return await real_send_n(src, transport, count)
            finally:
                state["in_comp"] = False

        client._send_packet = send_packet
        client._send_number_of_packets = send_n
        fire(0)
        try:
            await client._stream_data(source, audio)
        finally:
            obs["datagrams"] = audio.out
            obs["ctx"] = (context.rtpseq, context.head_ts, context.padding_sent)
            obs["keys"] = list(client._packet_backlog)
            obs["chunks"] = list(getattr(source, "chunks", []))
            try:
                await source.close()
            except Exception:
                pass
        fire(-1)                              # after the stream ended (k = -1: final backlog)

    try:
        sc.monotonic, sc.monotonic_ns = clock.monotonic, clock.monotonic_ns
        sc.asyncio = AsyncioShim(clock.sleep)
        raop_protocols.randrange = lambda *_a: case["s0"]
        timing.ntp_now = lambda: case["ntp"]
        loop = asyncio.new_event_loop()
        try:
            loop.run_until_complete(go())
        finally:
            loop.close()
    except Exception as ex:  # the real code raised: an observation, not a harness crash
        obs["error"] = "%s: %s" % (type(ex).__name__, str(ex)[:200])
    finally:
        sc.monotonic, sc.monotonic_ns, sc.asyncio, raop_protocols.randrange, timing.ntp_now = saved
    return obs


def open_datagram(case, d, index):
    """(header, payload, structural problem) of a captured audio datagram."""
    if case["variant"] != "v2c":
        return d[:12], d[12:], None
    from cryptography.hazmat.primitives.ciphers.aead import ChaCha20Poly1305
    header, body, nonce = d[:12], d[12:-8], d[-8:]
    problem = None
    if nonce != struct.pack("<Q", index):
        problem = "nonce %s is not the packet counter %d" % (nonce.hex(), index)
    try:
        payload = ChaCha20Poly1305(KEY).decrypt(b"\x00" * 4 + nonce, body, header[4:12])
    except Exception as ex:
        return header, b"", "datagram %d does not open: %s" % (index, type(ex).__name__)
    return header, payload, problem


# --------------------------------------------------------------------------- the property, directly

def oracle_stream(case, obs, opened):
    """C16's first sentence evaluated on the captured datagrams (independent of the model)."""
    problems = []
    fs = case["channels"] * case["bps"]
    ps = FPP * fs
    src = expected_source(case)
    if obs["error"]:
        return [("error", "streaming raised " + obs["error"])]
    headers = [h for h, _p, _x in opened]
    payloads = [p for _h, p, _x in opened]
    for i, (_h, _p, x) in enumerate(opened):
        if x and "open" in x:
            problems.append(("payload", x))
    stream = b"".join(payloads)
    ndata = -(-len(src) // ps)
    if scheduled(case):
        # the source's reads come back short before its end: the code zero-pads such a read to a
        # packet and goes on, so padding may sit anywhere — every frame still exactly once, in order
        tail = carried_with_padding(stream, src)
        if tail is None:
            problems.append(("payload-short-reads", "the packets do not carry the frames the source delivered exactly once "
                             "and in order (zero padding allowed anywhere): %d source bytes, %d payload bytes, %d of them non-zero vs %d"
                             % (len(src), len(stream), sum(1 for x in stream if x), sum(1 for x in src if x))))
        elif any(len(p) != ps for p in payloads):
            problems.append(("payload", "a packet does not hold %d frames" % FPP))
        elif tail < obs["latency"] * fs:
            problems.append(("padding", "silence after the source (%d bytes) does not cover the latency (%d frames)"
                             % (tail, obs["latency"])))
    elif stream[:len(src)] != src:
        problems.append(("payload", "the packets do not carry the source's frames exactly once and in order"))
    elif any(stream[len(src):]):
        problems.append(("payload", "bytes after the source are not zero padding"))
    elif any(len(p) != ps for p in payloads):
        problems.append(("payload", "a packet does not hold %d frames (last data packet must be zero-padded)" % FPP))
    else:
        silence_frames = (len(payloads) - ndata) * FPP
        if silence_frames < obs["latency"]:
            problems.append(("padding", "silence after the source (%d frames) does not cover the latency (%d)"
                             % (silence_frames, obs["latency"])))
    fields = []
    for h in headers:
        if len(h) != 12:
            problems.append(("header", "short header"))
            return problems
        fields.append(struct.unpack(">BBHII", h))
    for i in range(1, len(fields)):
        if fields[i][2] != (fields[i - 1][2] + 1) % MOD:
            problems.append(("seq", "sequence numbers %d -> %d are not consecutive modulo 2^16" % (fields[i - 1][2], fields[i][2])))
            break
    for i in range(1, len(fields)):
        if fields[i][3] != fields[i - 1][3] + FPP:
            problems.append(("ts", "timestamp step %d -> %d is not the frames per packet" % (fields[i - 1][3], fields[i][3])))
            break
    markers = [bool(f[1] & 0x80) for f in fields]
    if markers and (not markers[0] or any(markers[1:])):
        marked = [i for i, m in enumerate(markers) if m]
        problems.append(("marker", "first-packet marker pattern %s; packets carrying the marker: %s"
                         % ("".join("M" if m else "." for m in markers[:12]), marked[:8])))
    return problems


def oracle_retransmit(case, obs):
    """C16's second sentence: every requested packet among the most recent 1000 sent comes
    back byte-identically, in request order — also across the wrap."""
    problems = []
    backlog_size = 1000          # the property's number, not the module constant
    dgrams = obs["datagrams"]
    for r in obs["responses"]:
        k = len(dgrams) if r["k"] < 0 else r["k"]
        recent = dgrams[max(0, k - backlog_size):k]
        byseq = {}
        for d in recent:
            byseq[struct.unpack(">H", d[2:4])[0]] = d
        expected = []
        for i in range(r["count"]):
            d = byseq.get((r["first"] + i) % MOD)
            if d is not None:
                expected.append(d)
        got = [o[4:] for o in r["out"]]
        if r["error"]:
            problems.append(("retransmit-error", "datagram_received raised %s for request (%d,%d)" % (r["error"], r["first"], r["count"]), r))
        elif got != expected:
            wrap = r["first"] + r["count"] > MOD
            problems.append(("retransmit-wrap" if wrap else "retransmit",
                             "request (%d,%d) after %d packets: %d datagrams resent, %d of the %d requested packets that are among the last 1000 sent came back byte-identically in order"
                             % (r["first"], r["count"], k, len(got), sum(1 for a, b in zip(got, expected) if a == b), len(expected)), r))
    return problems


# --------------------------------------------------------------------------- model side

def model_lines(case, obs):
    fs = case["channels"] * case["bps"]
    if scheduled(case):
        lines = ["streamc %d %d %d %d %d %s %s" % (fs, obs["latency"], obs["start_ts"], case["ssrc"], case["s0"],
                                                 ",".join(map(str, obs["comp"])) or "-",
                                                 ";".join(c.hex() for c in obs.get("chunks", [])) or "-")]
        for r in obs["responses"]:
            lines.append(("ctrl %s" % r["req"]) if r["k"] < 0 else ("ctrlat %d %s" % (r["k"], r["req"])))
        return lines
    lines = ["stream %d %d %d %d %d %s %s" % (fs, obs["latency"], obs["start_ts"], case["ssrc"], case["s0"],
                                            ",".join(map(str, obs["comp"])) or "-", hx(source_bytes(case)))]
    if obs["responses"]:
        if case["variant"] == "v2c":
            # the cipher is a parameter of the model: its datagrams are the observed ones
            lines.append("load " + (",".join("%d:%s" % (struct.unpack(">H", d[2:4])[0], d.hex())
                                             for d in obs["datagrams"]) or "-"))
        for r in obs["responses"]:
            lines.append(("ctrl %s" % r["req"]) if r["k"] < 0 else ("ctrlat %d %s" % (r["k"], r["req"])))
    return lines


def compare(ctx, case, obs, opened, answers):
    """Diff implementation and model on one stream case."""
    if obs["error"]:
        ctx.disagree(case_id(case), "raised " + obs["error"], answers[0][:200], where="stream")
        return
    parts = answers[0].split(" ")
    if len(parts) != 6:
        ctx.disagree(case_id(case), "n/a", answers[0][:200], where="stream answer")
        return
    status, rtpseq, head_ts, padding, keys, pkts = parts
    impl_ctx = "finished %d %d %d" % obs["ctx"]
    if "%s %s %s %s" % (status, rtpseq, head_ts, padding) != impl_ctx:
        ctx.disagree(case_id(case), impl_ctx, " ".join(parts[:4]), where="final context")
    impl_keys = ",".join(map(str, obs["keys"])) or "-"
    if keys != impl_keys:
        ctx.disagree(case_id(case), impl_keys[:300], keys[:300], where="backlog keys")
    impl_pkts = ["%s:%d:%d" % (h.hex(), len(p), digest(p)) for h, p, _x in opened]
    model_pkts = [] if pkts == "-" else pkts.split(";")
    if impl_pkts != model_pkts:
        i = next((j for j, (a, b) in enumerate(zip(impl_pkts, model_pkts)) if a != b), min(len(impl_pkts), len(model_pkts)))
        ctx.disagree(case_id(case), {"n": len(impl_pkts), "first_diff": i, "pkt": impl_pkts[i:i + 1]},
                     {"n": len(model_pkts), "pkt": model_pkts[i:i + 1]}, where="datagrams")
    for _h, _p, x in opened:
        if x:
            ctx.disagree(case_id(case), x, "wireV2: header ++ enc ++ le 8 count", where="v2 datagram shape")
            break
    ctx.validated()
    rest = answers[1:]
    if obs["responses"] and case["variant"] == "v2c":
        impl = "ok " + (",".join(map(str, obs["keys"])) or "-")
        if rest[0] != impl:
            ctx.disagree(case_id(case), impl[:300], rest[0][:300], where="backlog rebuilt from observed datagrams")
        rest = rest[1:]
    if True:
        for r, ans in zip(obs["responses"], rest):
            impl = "err" if r["error"] else (";".join("%s:%d:%d" % (o[:4].hex(), len(o), digest(o)) for o in r["out"]) or "-")
            if impl != ans:
                ctx.disagree(dict(case_id(case), request=[r["k"], r["first"], r["count"]]), impl[:300], ans[:300], where="retransmit")
            ctx.validated()


def case_id(case):
    return {k: v for k, v in case.items() if k != "requests"} | {"nrequests": len(case.get("requests", []))}


# --------------------------------------------------------------------------- several streams on one context

class VClock:
    """monotonic()/monotonic_ns() for a session run under the virtual-time loop: loop time
    plus a random lag accumulated at reads (makes the loop compensate)."""

    def __init__(self, loop):
        self.loop = loop
        self.extra = 0.0
        self.rnd = random.Random(0)
        self.lagp = 0.0

    def script(self, lagseed, lagp):
        self.rnd = random.Random(lagseed)
        self.lagp = lagp

    def monotonic(self):
        return self.loop.time() + self.extra

    def monotonic_ns(self):
        return int(round((self.loop.time() + self.extra) * 1e9))

    def lag(self):
        if self.lagp and self.rnd.random() < self.lagp:
            self.extra += self.rnd.choice((0.004, 0.009, 0.013, 0.02, 0.03, 0.05))


class _Resp:
    code = 200
    headers = {}
    body = b""


class _Conn:
    remote_ip = "10.0.0.1"
    local_ip = "10.0.0.2"

    def close(self):
        pass


class SessionRtsp:
    """Stands in for RtspSession during send_audio: every request is answered at once."""

    def __init__(self, session_id, on_record):
        self.session_id = session_id
        self.connection = _Conn()
        self._on_record = on_record

    async def record(self, *a, **k):
        self._on_record()
        return _Resp()

    async def _ok(self, *a, **k):
        return _Resp()

    flush = teardown = feedback = set_parameter = set_metadata = set_artwork = _ok


class _Timing:
    port = 0

    def close(self):
        pass


class _EndpointLoop:
    """`StreamClient.loop` for send_audio: hands out the capturing audio transport."""

    def __init__(self, transport):
        self.transport = transport

    async def create_datagram_endpoint(self, factory, **_k):
        proto = factory()
        proto.connection_made(self.transport)
        return self.transport, proto


def execute_session(sess):
    """2-3 consecutive streams on ONE StreamContext, the way stream_file does it: the real
    RaopPlaybackManager owns the context; per stream a new StreamClient + protocol instance
    (what setup() creates), the audio properties initialize() would set, the real
    send_audio() (context.reset(), _stream_data, backlog.clear()) and the real teardown()
    (context.reset())."""
    from harness.core import vloop
    from pyatv.protocols.raop import protocols as raop_protocols
    from pyatv.protocols.raop import stream_client as sc
    from pyatv.protocols.raop import timing
    from pyatv.protocols.raop.packets import RetransmitReqeust

    out = {"error": None, "streams": [], "fresh": None}
    try:
        saved = (sc.monotonic, sc.monotonic_ns, raop_protocols.randrange, timing.ntp_now)
    except AttributeError as ex:
        out["error"] = "harness-setup: %s" % ex
        return out
    script = {"s0": 0, "ntp": 0}

    async def go():
        import pyatv.protocols.raop as raop

        loop = asyncio.get_running_loop()
        clock = VClock(loop)
        sc.monotonic, sc.monotonic_ns = clock.monotonic, clock.monotonic_ns
        mgr = raop.RaopPlaybackManager(None)
        context = mgr.context
        out["fresh"] = (context.sample_rate, context.rtpseq, context.start_ts, context.head_ts, context.latency,
                        context.padding_sent)
        for case in sess["streams"]:
            obs = {"error": None, "datagrams": [], "comp": [], "responses": [], "ctx": None, "keys": [],
                   "start_ts": None, "latency": None, "after_teardown": None, "now": None, "td_now": None}
            out["streams"].append(obs)
            frame_size = case["channels"] * case["bps"]
            data = source_bytes(case)
            clock.script(case["lagseed"], case["lagp"])
            audio, ctrl = Transport(), Transport()

            def on_record(obs=obs):
                obs["start_ts"], obs["latency"] = context.start_ts, context.latency

            rtsp = SessionRtsp(case["ssrc"], on_record)
            # --- setup(): new client and protocol instance around the shared context
            if case["variant"] == "v1":
                from pyatv.protocols.raop.protocols.airplayv1 import AirPlayV1
                proto = AirPlayV1(context, rtsp)
            else:
                from pyatv.protocols.raop.protocols.airplayv2 import AirPlayV2
                proto = AirPlayV2(context, rtsp)
                if case["variant"] == "v2c":
                    from pyatv.support.chacha20 import Chacha20Cipher8byteNonce
                    proto._cipher = Chacha20Cipher8byteNonce(KEY, KEY)
            client = sc.StreamClient(rtsp, context, proto, None)
            mgr._stream_client, mgr._rtsp, mgr._connection = client, rtsp, rtsp.connection
            # --- initialize(): audio properties of the receiver, control/timing endpoints
            context.sample_rate, context.channels, context.bytes_per_channel = case["sample_rate"], case["channels"], case["bps"]
            control = sc.ControlClient(context, client._packet_backlog)
            control.connection_made(ctrl)
            client.control_client, client.timing_server = control, _Timing()
            client.loop = _EndpointLoop(audio)
            source = make_source(data, frame_size, clock)

            requests = {}
            for k, first, count in case.get("requests", []):
                requests.setdefault(k, []).append((first, count))
            state = {"in_comp": False, "sent": 0}

            def fire(k, obs=obs, requests=requests, control=control, ctrl=ctrl):
                for first, count in requests.get(k, []):
                    before = len(ctrl.out)
                    req = RetransmitReqeust.encode(0x80, 0xD5, 1, first, count)
                    err = None
                    try:
                        control.datagram_received(req, ("10.0.0.1", 6001))
                    except Exception as ex:
                        err = type(ex).__name__
                    obs["responses"].append({"k": k, "first": first, "count": count, "req": req.hex(),
                                             "out": ctrl.out[before:], "error": err})

            real_send_packet, real_send_n = client._send_packet, client._send_number_of_packets

            async def send_packet(src, first, transport, obs=obs, state=state, audio=audio, client=client, fire=fire,
                                  real=real_send_packet):
                if not state["in_comp"]:
                    obs["comp"].append(0)
                if not audio.out:
                    fire(0)
                n = await real(src, first, transport)
                if len(audio.out) > state["sent"]:
                    state["sent"] = len(audio.out)
                    obs["keys"] = list(client._packet_backlog)
                    fire(state["sent"])
                return n

            async def send_n(src, transport, count, obs=obs, state=state, real=real_send_n):
                obs["comp"][-1] = count
                state["in_comp"] = True
                try:
                    return await real(src, transport, count)
                finally:
                    state["in_comp"] = False

            client._send_packet, client._send_number_of_packets = send_packet, send_n
            script["s0"], script["ntp"] = case["s0"], case["ntp"]
            obs["now"] = timing.ntp2ts(case["ntp"], case["sample_rate"])
            try:
                await client.send_audio(source)
            except Exception as ex:  # observation
                cause = ex.__cause__ or ex
                obs["error"] = "%s: %s" % (type(cause).__name__, str(cause)[:200])
            obs["datagrams"] = audio.out
            obs["ctx"] = (context.rtpseq, context.head_ts, context.padding_sent)
            if obs["start_ts"] is None:
                obs["start_ts"], obs["latency"] = context.start_ts, context.latency
            # --- teardown(): the real one (context.reset())
            script["s0"], script["ntp"] = case["td_s0"], case["td_ntp"]
            obs["td_now"] = timing.ntp2ts(case["td_ntp"], context.sample_rate)
            await mgr.teardown()
            obs["after_teardown"] = (context.sample_rate, context.rtpseq, context.start_ts, context.head_ts,
                                     context.latency, context.padding_sent)

    try:
        raop_protocols.randrange = lambda *_a: script["s0"]
        timing.ntp_now = lambda: script["ntp"]
        vloop.run(go)
    except Exception as ex:
        out["error"] = "%s: %s" % (type(ex).__name__, str(ex)[:200])
    finally:
        sc.monotonic, sc.monotonic_ns, raop_protocols.randrange, timing.ntp_now = saved
    return out


def session_id(sess):
    return {"session": [case_id(c) for c in sess["streams"]]}


def session_lines(sess, out):
    lines, spans = ["ctxnew"], []
    for case, obs in zip(sess["streams"], out["streams"]):
        fs = case["channels"] * case["bps"]
        start = len(lines)
        lines.append("ctxstream %d %d %d %d %d %s %s" % (case["sample_rate"], fs, case["ssrc"], case["s0"], obs["now"],
                                                       ",".join(map(str, obs["comp"])) or "-", hx(source_bytes(case))))
        if obs["responses"] and case["variant"] == "v2c":
            lines.append("load " + (",".join("%d:%s" % (struct.unpack(">H", d[2:4])[0], d.hex()) for d in obs["datagrams"]) or "-"))
        for r in obs["responses"]:
            lines.append("ctrlat %d %s" % (r["k"], r["req"]))
        lines.append("ctxreset %d %d" % (case["td_s0"], obs["td_now"]))
        spans.append((start, len(lines) - start))
    return lines, spans


def session_failures(sess, out):
    """The property, demanded of EVERY stream of the sequence."""
    fails = []
    if out["error"]:
        return [(0, "session:error", "the session raised " + out["error"])]
    for j, (case, obs) in enumerate(zip(sess["streams"], out["streams"])):
        opened = [open_datagram(case, d, i) for i, d in enumerate(obs["datagrams"])]
        for sig, what in oracle_stream(case, obs, opened):
            fails.append((j, "session:" + ("first:" if j == 0 else "later:") + sig, "stream %d of the session: %s" % (j + 1, what)))
        seen = set()
        for sig, what, _r in oracle_retransmit(case, obs):
            if sig not in seen:
                seen.add(sig)
                fails.append((j, "session:" + sig, "stream %d of the session: %s" % (j + 1, what)))
    return fails


def run_sessions(ctx, sessions):
    results, lines, index = [], [], []
    for sess in sessions:
        out = execute_session(sess)
        if out["error"] or len(out["streams"]) != len(sess["streams"]):
            ctx.disagree(session_id(sess), out["error"], "n/a", where="session setup")
            results.append((sess, out, None, None))
            continue
        ls, spans = session_lines(sess, out)
        results.append((sess, out, len(lines), spans))
        lines += ls
    answers = ctx.lean(lines) if lines else []
    for sess, out, off, spans in results:
        ctx.note("sessions")
        ctx.note("session:streams=%d" % len(sess["streams"]))
        ctx.case(session_id(sess), len(sess["streams"]) > 1,
                 sample={"session": [{k: c[k] for k in ("variant", "channels", "bps", "sample_rate", "frames", "s0")}
                                     for c in sess["streams"]],
                         "packets": [len(o["datagrams"]) for o in out["streams"]]})
        if off is not None:
            ans = answers[off:]
            fresh = "%d %d %d %d %d %d" % out["fresh"]
            if ans[0] != fresh:
                ctx.disagree(session_id(sess), fresh, ans[0], where="StreamContext()")
            ctx.validated()
            for j, (case, obs, (start, n)) in enumerate(zip(sess["streams"], out["streams"], spans)):
                a = ans[start:start + n]
                ident = dict(case, session_stream=j + 1)
                opened = [open_datagram(case, d, i) for i, d in enumerate(obs["datagrams"])]
                ctx.note("session:packets", len(obs["datagrams"]))
                ctx.note("session:requests", len(obs["responses"]))
                lat, _, rest = a[0].partition(" ")
                if lat != str(obs["latency"]):
                    ctx.disagree(case_id(ident), obs["latency"], lat, where="latency after send_audio's reset (stream %d)" % (j + 1))
                compare(ctx, ident, obs, opened, [rest] + a[1:-1])
                impl = "%d %d %d %d %d %d" % obs["after_teardown"]
                if a[-1] != impl:
                    ctx.disagree(case_id(ident), impl, a[-1], where="context after teardown's reset (stream %d)" % (j + 1))
                ctx.validated()
        seen = set()
        for j, sig, what in session_failures(sess, out):
            if sig in seen:
                continue
            seen.add(sig)
            ctx.fail(sig, {"session": sess, "stream": j + 1}, what, "see property C16 (every stream of the sequence)", what)


def gen_sessions(ctx):
    rng = ctx.rng.fork("sessions")
    formats = [(c, b) for c in (1, 2) for b in (1, 2, 3, 4)]
    rates = (8000, 8000, 11025, 44100)
    sessions = []
    for i in range(ctx.scale(7, 40)):
        variant = ("v1", "v2c", "v2")[i % 3]
        n = 2 if (i % 2 == 0 and not ctx.thorough) else rng.choice((2, 3))
        same_seq = i % 3 == 1                      # consecutive streams start at the same sequence number
        same_fmt = rng.chance(0.5)
        fmt0, rate0 = rng.choice(formats[:6]), rng.choice(rates)
        s0 = rng.choice((65535, 65534, 0, rng.randrange(MOD)))
        streams = []
        for j in range(n):
            ch, b = fmt0 if same_fmt else rng.choice(formats[:6])
            rate = rate0 if same_fmt else rng.choice(rates)
            frames = rng.choice((0, 1, 10, 351, 352, 353, 2 * FPP, 3 * FPP + 17, rng.randrange(0, 4 * FPP)))
            sj = s0 if same_seq else rng.choice((65535, 65533, 0, 1, rng.randrange(MOD)))
            total = -(-frames // FPP) + -(-(22050 + rate) // FPP)
            reqs = []
            if j == 0 or rng.chance(0.6):          # a retransmit session during this stream
                for _ in range(ctx.scale(6, 14)):
                    k = rng.choice((1, 2, 3, total // 2, total - 1, total, rng.randrange(0, total + 1)))
                    f = rng.randrange(-2, max(1, k) + 2)
                    reqs.append([k, (sj + f) % MOD, rng.randrange(0, 5)])
            streams.append(base_case(rng, variant=variant, channels=ch, bps=b, sample_rate=rate, frames=frames, s0=sj,
                                     lagp=rng.choice((0.0, 0.3)), requests=reqs, td_s0=rng.randrange(MOD),
                                     td_ntp=(3900000000 + rng.getrandbits(20)) << 32 | rng.getrandbits(32)))
        sessions.append({"streams": streams})
    return sessions


# --------------------------------------------------------------------------- generators

def base_case(rng, **kw):
    case = {"variant": "v1", "channels": 2, "bps": 2, "frames": 0, "extra_bytes": 0, "srcseed": rng.getrandbits(32),
            "s0": 0, "latency": None, "lagseed": rng.getrandbits(32), "lagp": 0.0, "ssrc": rng.getrandbits(32),
            "ntp": (3900000000 + rng.getrandbits(20)) << 32 | rng.getrandbits(32), "requests": [], "sample_rate": 44100}
    case.update(kw)
    return case


def gen_stream_cases(ctx):
    rng = ctx.rng.fork("stream")
    cases = []
    formats = [(c, b) for c in (1, 2) for b in (1, 2, 3, 4)]
    s0s = [0, 1, 65534, 65535]
    small_lat = [1, 351, 352, 353, 704, 1000]
    # every source length 0..3*352+351 frames (every remainder), small latencies so a case is a few packets
    step = ctx.scale(1, 1)
    for n in range(0, 3 * FPP + FPP, step):
        fmts = formats if ctx.thorough else ([formats[n % 8], formats[(n * 5 + 3) % 8]] if n % 16 == 0 else [formats[(n * 3) % 8]])
        for (ch, b) in fmts:
            variant = ("v1", "v2", "v2c")[rng.randrange(3)] if not ctx.thorough or rng.chance(0.7) else "v1"
            s0 = rng.choice(s0s + [rng.randrange(MOD)])
            cases.append(base_case(rng, variant=variant, channels=ch, bps=b, frames=n, s0=s0,
                                   latency=rng.choice(small_lat), lagp=rng.choice((0.0, 0.3, 0.7))))
    # byte lengths that are not a whole number of frames (the source may end mid-frame)
    for _ in range(ctx.scale(40, 300)):
        ch, b = rng.choice(formats)
        if ch * b == 1:
            continue
        cases.append(base_case(rng, variant=rng.choice(("v1", "v2", "v2c")), channels=ch, bps=b,
                               frames=rng.randrange(0, 3 * FPP), extra_bytes=rng.randrange(1, ch * b),
                               s0=rng.choice(s0s + [rng.randrange(MOD)]), latency=rng.choice(small_lat), lagp=0.3))
    # the latency StreamContext.reset() really sets (22050 + sample rate): all formats x all s0, short sources
    for (ch, b) in formats:
        for s0 in s0s + [rng.randrange(MOD)]:
            if not ctx.thorough and rng.chance(0.6):
                continue
            cases.append(base_case(rng, variant=rng.choice(("v1", "v2", "v2c")), channels=ch, bps=b,
                                   frames=rng.choice((0, 1, 351, 352, 353, 1000)), s0=s0, latency=None,
                                   sample_rate=rng.choice((44100, 44100, 48000, 8000)), lagp=rng.choice((0.0, 0.5))))
    # latency 0 (nothing may be sent at all: the loop stops before the first read) is outside the
    # property (reset() never sets it) but inside the model: correspondence only
    cases.append(base_case(rng, frames=400, latency=0, s0=5, oracle=False))
    return cases


def gen_retransmit_cases(ctx):
    """A >1000-packet v1 run crossing the wrap with requests for every `first` over the backlog,
    and short v1/v2c runs with mid-stream requests."""
    rng = ctx.rng.fork("retransmit")
    cases = []
    npk = 1100
    s0 = (MOD - rng.randrange(200, 900)) % MOD          # the wrap falls inside the final backlog
    reqs = []
    oldest = npk + 3 - 1000                              # 3 padding packets (latency 1000 -> ceil(1000/352) = 3)
    firsts = range(oldest - 3, npk + 3 + 3)
    counts = (1, 2, 3, 4) if not ctx.thorough else (0, 1, 2, 3, 4, 5, 6, 7, 8)
    for f in firsts:
        for c in (counts if ctx.thorough else ((1 + f % 4, 1 + (f + 2) % 4) if f % 3 == 0 else (1 + f % 4,))):
            reqs.append([-1, (s0 + f) % MOD, c])
    for c in (16, 64, 999, 1000, 1001, 1100):
        for f in rng.sample(list(firsts), ctx.scale(2, 12)):
            reqs.append([-1, (s0 + f) % MOD, c])
    for _ in range(ctx.scale(20, 200)):                  # anything at all
        reqs.append([-1, rng.randrange(MOD), rng.randrange(0, 40)])
    for k in sorted(rng.sample(range(1, npk), ctx.scale(4, 12)) + [999, 1000, 1001]):
        lo = max(0, k - 1000)
        for _ in range(ctx.scale(6, 30)):
            f = rng.randrange(max(0, lo - 2), k + 2)
            reqs.append([k, (s0 + f) % MOD, rng.randrange(0, 6)])
    cases.append(base_case(rng, variant="v1", channels=1, bps=1, frames=npk * FPP, s0=s0, latency=1000,
                           lagp=0.2, requests=reqs))
    # short runs, every (first,count) window at every moment of the stream, v1 and encrypted v2
    for variant in ("v1", "v2c", "v2"):
        for s0 in (65533, 65535, 0, rng.randrange(MOD)):
            n = rng.randrange(3, 9)
            reqs = []
            total = n + 2
            for k in list(range(0, total + 1)) + [-1]:
                kk = total if k < 0 else k
                for f in range(-2, kk + 2):
                    for c in range(0, kk + 3):
                        if ctx.thorough or rng.chance(0.35):
                            reqs.append([k, (s0 + f) % MOD, c])
            cases.append(base_case(rng, variant=variant, channels=1, bps=1, frames=n * FPP - rng.randrange(0, 5),
                                   s0=s0, latency=700, lagp=0.4, requests=reqs))
    return cases


def gen_fifo_scripts(ctx):
    rng = ctx.rng.fork("fifo")
    scripts = []
    for _ in range(ctx.scale(300, 3000)):
        limit = rng.choice((0, 1, 1, 2, 3, 4))
        ops = []
        for _ in range(rng.randrange(1, 14)):
            k = rng.randrange(0, 7)
            ops.append(rng.choice("sssgc") + str(k))
        scripts.append((limit, ops))
    return scripts


def fifo_impl(limit, ops):
    from pyatv.protocols.raop.fifo import PacketFifo

    f = PacketFifo(limit)
    out = []
    for op in ops:
        k = int(op[1:])
        try:
            if op[0] == "s":
                f[k] = struct.pack(">H", k)
                out.append("ok")
            elif op[0] == "g":
                out.append(f[k].hex())
            else:
                out.append("1" if k in f else "0")
        except Exception:
            out.append("raise")
    return out, list(f)


def fifo_oracle(limit, ops, out, keys):
    """The backlog keeps the most recently inserted `limit` items, oldest first (checked on
    scripts that never insert a key twice, so "most recent" is unambiguous)."""
    accepted = [int(op[1:]) for op, res in zip(ops, out) if op[0] == "s" and res == "ok"]
    attempted = [int(op[1:]) for op in ops if op[0] == "s"]
    if limit > 0 and len(set(attempted)) == len(attempted):
        if accepted != attempted:
            return "PacketFifo rejected a new key"
        if keys != accepted[-limit:]:
            return "PacketFifo does not hold the most recently inserted items"
    return None


def run_fifo(ctx, only=None):
    scripts = gen_fifo_scripts(ctx) if only is None else only
    impl = []
    for limit, ops in scripts:
        out, keys = fifo_impl(limit, ops)
        impl.append((out, keys))
    answers = ctx.lean(["fifo %d %s" % (limit, ",".join(ops)) for limit, ops in scripts])
    for (limit, ops), (out, keys), b in zip(scripts, impl, answers):
        a = ",".join(out + ["|" + (",".join(map(str, keys)) or "-")])
        ctx.note("fifo")
        ctx.case(["fifo", limit, ops], "raise" in out or len([o for o in ops if o[0] == "s"]) > limit)
        if a != b:
            ctx.disagree({"fifo": [limit, ops]}, a, b, where="PacketFifo")
        ctx.validated()
        what = fifo_oracle(limit, ops, out, keys)
        if what:
            ctx.fail("fifo:last-n", {"fifo": [limit, ops]}, keys, "the last %d inserted keys" % limit, what)


# --------------------------------------------------------------------------- timing.py

def gen_timing_cases(ctx):
    rng = ctx.rng.fork("timing")
    cases = []
    edge = [0, 1, 0xFFFF, 0x10000, 0x3FFFFF, 0x400000, 0xFFFFFFFF, 0x100000000, 0x83AA7E80 << 32,
            (0x83AA7E80 << 32) | 0xFFFFFFFF, 2**64 - 1, 2**63, 2**48 + 2**16 - 1]
    rates = [1, 8000, 22050, 44100, 48000, 96000, 65535, 65536, 65537]
    for n in edge:
        for r in rates[:4]:
            cases.append(("ntp", n, r))
    for _ in range(ctx.scale(300, 3000)):
        kind = rng.randrange(4)
        if kind == 0:
            n = rng.randrange(2**64)
        elif kind == 1:      # whole seconds and values right around a second boundary
            n = ((rng.randrange(2**32)) << 32) + rng.choice([0, 1, 0xFFFF, 0x10000, 0xFFFFFFFF])
        elif kind == 2:      # today's NTP range
            n = ((0x83AA7E80 + rng.randrange(1_600_000_000, 2_000_000_000)) << 32) | rng.randrange(2**32)
        else:
            n = rng.randrange(2 ** rng.randrange(1, 64))
        cases.append(("ntp", n, rng.choice(rates)))
    for _ in range(ctx.scale(200, 2000)):
        sec = rng.choice([0, 1, 1_700_000_000, 2_085_978_495, rng.randrange(2_000_000_000)])
        us = rng.choice([0, 1, 499_999, 500_000, 999_999, rng.randrange(1_000_000)])
        cases.append(("ntpnow", sec, us))
    return cases


def run_timing(ctx, only=None):
    """the integer conversions of timing.py vs `C16/Timing.lean`, and `parts_recombine` /
    `ntp2ts_seconds` / `ntpNow_parts` as direct oracles on the real functions."""
    from pyatv.protocols.raop import timing
    cases = gen_timing_cases(ctx) if only is None else [tuple(c) for c in only]
    impl = []
    saved = timing.time_ns
    try:
        for c in cases:
            try:
                if c[0] == "ntp":
                    _, n, r = c
                    sec, frac = timing.ntp2parts(n)
                    impl.append("%d %d %d %d" % (sec, frac, timing.ntp2ts(n, r), timing.ntp2ms(n)))
                else:
                    _, sec, us = c
                    timing.time_ns = lambda sec=sec, us=us: sec * 10**9 + us * 1000
                    impl.append("%d" % timing.ntp_now())
            except Exception as e:  # noqa: BLE001 - an observation
                impl.append("exception:" + type(e).__name__)
    finally:
        timing.time_ns = saved
    answers = ctx.lean(["%s %d %d" % c for c in cases])
    for c, a, b in zip(cases, impl, answers):
        ctx.note("timing:" + c[0])
        ctx.case(["timing"] + list(c), c[1] > 0xFFFFFFFF if c[0] == "ntp" else c[2] > 0)
        if a != b:
            ctx.disagree({"timing": list(c)}, a, b, where="raop/timing.py")
        ctx.validated()
        what = timing_oracle(c, a)
        if what:
            ctx.fail("timing:" + c[0], {"timing": list(c)}, a, what[0], what[1])


def timing_oracle(c, a):
    """(expected, what) when the real functions break a law the property's timestamps rest on."""
    if a.startswith("exception:"):
        return ("a value", "the conversion raised " + a)
    if c[0] == "ntp":
        _, n, r = c
        sec, frac, ts, ms = map(int, a.split())
        if not (0 <= frac < 2**32 and sec * 2**32 + frac == n):
            return ("sec * 2^32 + frac == ntp, frac < 2^32", "ntp2parts does not split the NTP value into its two fields")
        if n < 2**64 and not sec < 2**32:
            return ("sec < 2^32", "seconds field does not fit its slot")
        if not (sec * r <= ts < (sec + 1) * r):
            return ("%d <= ts < %d" % (sec * r, (sec + 1) * r), "ntp2ts leaves the sample_rate units of its second")
        if frac == 0 and ts != sec * r:
            return ("%d" % (sec * r), "a whole second is not sample_rate timestamp units")
        if not (sec * 1000 <= ms < (sec + 1) * 1000):
            return ("%d <= ms < %d" % (sec * 1000, (sec + 1) * 1000), "ntp2ms leaves its second")
        return None
    _, sec, us = c
    n = int(a)
    if (n >> 32, n & 0xFFFFFFFF) != (sec + 0x83AA7E80, us * 2**32 // 10**6):
        return ("(%d, %d)" % (sec + 0x83AA7E80, us * 2**32 // 10**6), "ntp_now: seconds/fraction of the clock reading")
    return None


# --------------------------------------------------------------------------- entry points

def run_cases(ctx, cases):
    lines, spans, results = [], [], []
    for case in cases:
        obs = execute(case)
        opened = [open_datagram(case, d, i) for i, d in enumerate(obs["datagrams"])]
        ls = model_lines(case, obs) if obs["start_ts"] is not None and case.get("model", True) else []
        spans.append((len(lines), len(ls)))
        lines += ls
        results.append((case, obs, opened))
    answers = ctx.lean(lines) if lines else []
    for (case, obs, opened), (off, n) in zip(results, spans):
        fs = case["channels"] * case["bps"]
        nbytes = case["frames"] * fs + case.get("extra_bytes", 0)
        seqs = [struct.unpack(">H", d[2:4])[0] for d in obs["datagrams"] if len(d) >= 4]
        wraps = any(b < a for a, b in zip(seqs, seqs[1:]))
        compensated = any(obs["comp"])
        nontrivial = bool(nbytes % (FPP * fs)) or wraps or compensated
        ctx.note("variant:" + case["variant"])
        if scheduled(case):
            short = sum(1 for c in obs.get("chunks", [])[:-1] if len(c) < FPP * fs)
            ctx.note("source:" + (case.get("source") or "read-schedule"))
            ctx.note("short reads before the end", short)
            nontrivial = nontrivial or short > 0
        ctx.note("frame_size:%d" % fs)
        ctx.note("remainder:" + ("0" if case["frames"] % FPP == 0 else "nonzero"))
        ctx.note("latency:" + ("reset" if case["latency"] is None else "small"))
        ctx.note("wraps" if wraps else "no-wrap")
        ctx.note("comp:max%d" % max(obs["comp"] or [0]))
        ctx.note("packets", len(obs["datagrams"]))
        ctx.note("requests", len(obs["responses"]))
        ctx.case(case_id(case), nontrivial, sample={"case": case_id(case), "packets": len(obs["datagrams"]),
                                                    "comp": obs["comp"][:12], "first_seq": seqs[:1]})
        if n:
            compare(ctx, case, obs, opened, answers[off:off + n])
        elif case.get("model", True):
            ctx.disagree(case_id(case), obs["error"], "n/a", where="setup")
        else:
            ctx.note("oracle-only (stream too long for the interpreted model driver)")
        for sig, what in (oracle_stream(case, obs, opened) if case.get("oracle", True) else []):
            ctx.fail("stream:" + sig, case_id(case), what, "see property C16", what)
        seen = set()
        for sig, what, r in oracle_retransmit(case, obs):
            if sig in seen:
                continue
            seen.add(sig)
            one = dict(case, requests=[[r["k"], r["first"], r["count"]]])
            ctx.fail(sig, one, what, "requested packets in the backlog are resent byte-identically, in order", what)
        for r in obs["responses"]:
            if r["first"] + r["count"] > MOD and r["out"]:
                ctx.note("requests:across-wrap")


def gen_short_read_cases(ctx):
    """Sources whose reads are short at arbitrary points, not only at the end: (a) the scripted
    source with a read-size schedule, (b) the real BufferedIOBaseSource (buffering task, scripted
    executor turns so that readframes runs while a read is in flight, a reader that is sometimes
    late) in front of the real _stream_data."""
    rng = ctx.rng.fork("short-reads")
    formats = [(c, b) for c in (1, 2) for b in (1, 2, 3, 4)]
    cases = []
    for i in range(ctx.scale(40, 300)):
        ch, b = rng.choice(formats)
        nreads = rng.randrange(1, 9)
        reads = [rng.choice((1, 100, 351, FPP, FPP, rng.randrange(1, FPP + 1))) for _ in range(nreads)]
        if all(r == FPP for r in reads):
            reads[rng.randrange(nreads)] = rng.randrange(1, FPP)
        cases.append(base_case(rng, variant=("v1", "v2", "v2c")[i % 3], channels=ch, bps=b,
                               frames=rng.randrange(0, 6 * FPP), s0=rng.choice((0, 65534, 65535, rng.randrange(MOD))),
                               latency=rng.choice((1, 352, 353, 1000)), lagp=rng.choice((0.0, 0.3)), reads=reads))
    for i in range(ctx.scale(16, 120)):
        ch = rng.choice((1, 2))
        frames = rng.choice((0, 1, 351, 352, 353, 3 * FPP, 10 * FPP + 123, rng.randrange(0, 40 * FPP)))
        cases.append(base_case(rng, variant=("v1", "v2c")[i % 2], channels=ch, bps=2, frames=frames, source="buffered",
                               s0=rng.choice((65535, rng.randrange(MOD))), latency=rng.choice((352, 1000)),
                               lagp=rng.choice((0.0, 0.3))))
    for i in range(ctx.scale(3, 12)):              # stream_file(io.BytesIO(wav)): real decoder, real executor
        cases.append(base_case(rng, variant="v1", channels=rng.choice((1, 2)), bps=2, source="buffered-open",
                               frames=rng.choice((7 * FPP + 5, 3 * FPP, rng.randrange(1, 30 * FPP))),
                               s0=rng.randrange(MOD), latency=352, lagp=0.0))
    return cases


def gen_full_circle_cases(ctx):
    """Streams longer than one full circle of the 16-bit sequence space (> 65536 packets,
    1-byte frames): packet 65536 carries the first packet's sequence number again.  The theorems
    hold for every length; this puts the real loop there too.  No compensation (every packet is
    sent by the main loop), a few retransmit requests against the final backlog.  The run with a
    real source is oracle-only (its 23 MB source is too much for the interpreted model driver);
    in the thorough tier a second run of the same length that is all silence (empty source, latency
    of 65 540 packets) is also compared with the model."""
    rng = ctx.rng.fork("full-circle")
    cases = []
    npk = MOD + rng.randrange(3, 40)
    s0 = rng.choice((0, 65535, rng.randrange(MOD)))
    total = npk + 1
    reqs = [[-1, (s0 + total - 1000 + f) % MOD, c] for f, c in ((0, 3), (-2, 5), (997, 6), (500, 4))]
    reqs += [[-1, s0, 2], [-1, (s0 + MOD - 1) % MOD, 3], [-1, (s0 + total - 1000) % MOD, 1000]]
    cases.append(base_case(rng, variant="v1", channels=1, bps=1, frames=npk * FPP - rng.randrange(0, FPP), s0=s0,
                           latency=FPP, lagp=0.0, requests=reqs, model=False))
    if ctx.thorough:
        cases.append(base_case(rng, variant="v1", channels=1, bps=1, frames=0, s0=rng.randrange(MOD),
                               latency=(MOD + rng.randrange(3, 40)) * FPP, lagp=0.0))
    return cases


def d11_witness_case(rng):
    """DESIGN §6 D11: backlog {65534, 65535, 0, 1}, request (65534, 4) — replayed on the real
    ControlClient on every run (repaired by the `fix:` commit; a regression is a violation)."""
    return base_case(rng, variant="v1", channels=1, bps=1, frames=2 * FPP, s0=65534, latency=700,
                     requests=[[-1, 65534, 4], [4, 65534, 4], [3, 65535, 3]])


def run(ctx, only=None, only_sessions=None):
    if only_sessions is not None:
        run_sessions(ctx, only_sessions)
        return
    if only is not None:
        run_cases(ctx, only)
        return
    run_cases(ctx, [d11_witness_case(ctx.rng.fork("d11"))])
    run_fifo(ctx)
    run_timing(ctx)
    run_sessions(ctx, gen_sessions(ctx))
    run_cases(ctx, gen_retransmit_cases(ctx))
    run_cases(ctx, gen_stream_cases(ctx))
    run_cases(ctx, gen_short_read_cases(ctx))
    run_cases(ctx, gen_full_circle_cases(ctx))


def replay(ctx, failure):
    case = failure["case"]
    if "session" in case:
        sess = case["session"]
        return bool(session_failures(sess, execute_session(sess)))
    if "timing" in case:
        c2 = type(ctx)(ctx.prop, ctx.tier, ctx.seed, ctx.driver.driver_rel)
        run_timing(c2, only=[case["timing"]])
        return bool(c2.failures)
    if "fifo" in case:
        limit, ops = case["fifo"]
        out, keys = fifo_impl(limit, ops)
        return fifo_oracle(limit, ops, out, keys) is not None
    case = dict(case)
    case.pop("nrequests", None)
    case.setdefault("requests", [])
    c2 = type(ctx)(ctx.prop, ctx.tier, ctx.seed, ctx.driver.driver_rel)
    run(c2, only=[case])
    return bool(c2.failures)


def shrink(ctx, failure):
    """Keep only the failing request; shorten the source while the failure persists."""
    if "session" in failure["case"]:
        sess, j = failure["case"]["session"], failure["case"]["stream"]
        best = {"streams": [dict(c, requests=[]) if failure["sig"].count("retransmit") == 0 else c
                            for c in sess["streams"][:j]]}
        if any(sig == failure["sig"] for _j, sig, _w in session_failures(best, execute_session(best))):
            return dict(failure, case={"session": best, "stream": j})
        return failure
    if "fifo" in failure["case"]:
        return failure
    case = dict(failure["case"])
    case.pop("nrequests", None)
    case.setdefault("requests", [])
    sig = failure["sig"]

    def fails(c):
        obs = execute(c)
        opened = [open_datagram(c, d, i) for i, d in enumerate(obs["datagrams"])]
        sigs = {"stream:" + s for s, _w in oracle_stream(c, obs, opened)} | {s for s, _w, _r in oracle_retransmit(c, obs)}
        return sig in sigs

    if not sig.startswith("stream:"):
        return failure
    best = case
    for frames in (0, 1, FPP - 1, FPP, FPP + 1):
        if frames < best["frames"]:
            c = dict(best, frames=frames)
            if fails(c):
                best = c
                break
    if best is not case:
        return dict(failure, case=best)
    return failure
