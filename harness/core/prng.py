"""One seeded PRNG; every random choice of a run derives from it (exact replay)."""
import random


class Rng(random.Random):
    def __init__(self, seed, *path):
        self.seed_value = seed
        self.path = path
        super().__init__(repr((seed,) + tuple(path)))

    def fork(self, *path):
        """Independent stream for a sub-task; depends only on (seed, path)."""
        return Rng(self.seed_value, *(self.path + tuple(path)))

    def bytes_(self, n):
        return bytes(self.getrandbits(8) for _ in range(n))

    def chance(self, p):
        return self.random() < p

    def cuts(self, n, k):
        """k sorted cut positions strictly inside a length-n string."""
        if n <= 1:
            return []
        return sorted(self.sample(range(1, n), min(k, n - 1)))


def split_at(data, cuts):
    out, prev = [], 0
    for c in cuts:
        out.append(data[prev:c])
        prev = c
    out.append(data[prev:])
    return out
