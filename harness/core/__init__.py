"""Shared plumbing of the verification harness (see DESIGN.md §2-3)."""
import os
import sys

VERIF = os.path.dirname(os.path.dirname(os.path.dirname(os.path.abspath(__file__))))
REPO = os.environ.get("VERIF_REPO", "/repo")
LEAN_DIR = os.path.join(VERIF, "lean")


def use_repo():
    """Make `import pyatv` resolve to the tree under test (REPO), whatever is installed."""
    if sys.path[0] != REPO:
        sys.path.insert(0, REPO)
    for name in list(sys.modules):
        if name == "pyatv" or name.startswith("pyatv."):
            mod = sys.modules[name]
            f = getattr(mod, "__file__", "") or ""
            if not f.startswith(REPO):
                del sys.modules[name]
