"""Check orchestration and verdict (DESIGN.md §2 "one check run", §3 protocol).

    ./check Cxx [--tier quick|thorough] [--replay FILE]

exit 0  property held on everything explored (KNOWN-FINDING lines allowed)
exit 1  `VIOLATION property=<id> replay=<path>[ no-failing-input-found]`
exit 2  the check itself could not run to a verdict (timeout, internal error)
"""
import argparse
import collections
import hashlib
import importlib
import json
import os
import sys
import time
import traceback

from . import LEAN_DIR, REPO, VERIF, lean, use_repo
from .prng import Rng

MAX_VIOLATION_LINES = 5


def canon_hash(obj):
    return hashlib.sha256(json.dumps(obj, sort_keys=True, default=repr).encode()).hexdigest()[:16]


class Ctx:
    """What a property harness sees."""

    def __init__(self, prop, tier, seed, driver_rel):
        self.prop = prop
        self.tier = tier
        self.seed = seed
        self.rng = Rng(seed, prop)
        self.driver = lean.Driver(driver_rel)
        self._extra_drivers = {}
        self.stats = collections.Counter()
        self.evaluations = 0
        self._nontrivial = set()
        self._distinct = set()
        self.samples = []
        self.traces_validated = 0
        self.disagreements = []
        self.failures = []
        self.assumptions = []
        self.notes = {}
        self.widened = False
        self.t0 = time.time()
        self.exhaustive = None
        self.rule = ""

    # -- budget -----------------------------------------------------------------------
    @property
    def thorough(self):
        return self.tier == "thorough" or self.widened

    def scale(self, quick, thorough):
        return thorough if self.thorough else quick

    # -- accounting -------------------------------------------------------------------
    def case(self, canon, nontrivial, sample=None):
        """Register one evaluated case.  `canon` is a canonical (json-able) description
        used for distinctness; `nontrivial` per the harness' stated rule."""
        self.evaluations += 1
        h = canon_hash(canon)
        self._distinct.add(h)
        if nontrivial:
            if h not in self._nontrivial and len(self.samples) < 6 and (sample is not None or len(self._nontrivial) % 7 == 0):
                self.samples.append(sample if sample is not None else canon)
            self._nontrivial.add(h)

    def note(self, key, n=1):
        self.stats[key] += n

    def validated(self, n=1):
        self.traces_validated += n

    def disagree(self, case, impl, model, where=""):
        """Model and implementation differ on `case` (not by itself a violation)."""
        if len(self.disagreements) < 50:
            self.disagreements.append({"where": where, "case": case, "impl": impl, "model": model})
        self.stats["disagreements"] += 1

    def fail(self, sig, case, observed, required, what):
        """The direct oracle found the property failing on the real code for `case`.
        `sig` identifies the specific input class / call site / history (for matching
        against known_findings.json)."""
        self.stats["oracle_failures"] += 1
        if len(self.failures) < 200:
            self.failures.append({"sig": sig, "case": case, "observed": observed, "required": required, "what": what})

    # -- lean driver ------------------------------------------------------------------
    def lean(self, lines, driver=None):
        """Batch `lines` through the property's Lean driver (or another driver file,
        e.g. "Driver/C04Opack.lean"); one answer per line."""
        if driver is None or driver == self.driver.driver_rel:
            return self.driver.batch(lines)
        d = self._extra_drivers.setdefault(driver, lean.Driver(driver))
        try:
            return d.batch(lines)
        finally:
            self.driver.lines_sent += len(list(lines)) if not isinstance(lines, list) else len(lines)


def load_findings():
    path = os.path.join(VERIF, "known_findings.json")
    if not os.path.exists(path):
        return []
    return json.load(open(path))


def write_json(path, obj):
    os.makedirs(os.path.dirname(path), exist_ok=True)
    tmp = path + f".tmp{os.getpid()}"
    with open(tmp, "w") as f:
        json.dump(obj, f, indent=1, sort_keys=True, default=repr)
        f.write("\n")
    os.replace(tmp, path)


def write_replay(prop, kind, body):
    h = canon_hash(body)
    path = os.path.join(VERIF, "replays", f"{prop}-{kind}-{h}.json")
    write_json(path, dict(body, property=prop, kind=kind, replay_cmd=f"./check {prop} --replay replays/{os.path.basename(path)}"))
    return os.path.relpath(path, VERIF)


def anchor_digests(prop):
    """SHA-256 of the source files the property is anchored in (properties.jsonl), as they
    are in the tree under test now, and which of them differ from the digests recorded
    when the model was last reconciled with the code (meta/anchor_digests.json).
    Informational only: it lets a reader see that the code moved even when behaviour did
    not; it never influences the verdict."""
    files = []
    try:
        for line in open(os.path.join(VERIF, "properties.jsonl")):
            if line.strip():
                pr = json.loads(line)
                if pr["id"] == prop:
                    files = pr["anchors"]["files"]
    except Exception:
        return {}, []
    now = {}
    for f in files:
        try:
            now[f] = hashlib.sha256(open(os.path.join(REPO, f), "rb").read()).hexdigest()[:16]
        except OSError:
            now[f] = "missing"
    recorded = {}
    rp = os.path.join(VERIF, "meta", "anchor_digests.json")
    if os.path.exists(rp):
        recorded = json.load(open(rp)).get(prop, {})
    changed = sorted(f for f in now if f in recorded and recorded[f] != now[f])
    return now, changed


def harness_for(prop):
    use_repo()
    return importlib.import_module(f"harness.{prop.lower()}")


def main(argv=None):
    ap = argparse.ArgumentParser()
    ap.add_argument("prop")
    ap.add_argument("--tier", default=os.environ.get("VERIF_TIER", "quick"), choices=["quick", "thorough"])
    ap.add_argument("--replay")
    ap.add_argument("--no-build", action="store_true", help="development only: skip extract/build/audit")
    args = ap.parse_args(argv)
    prop = args.prop.upper()
    seed = int(os.environ.get("VERIF_SEED", "0") or 0)
    try:
        return run_check(prop, args.tier, seed, args.replay, args.no_build)
    except lean.subprocess.TimeoutExpired as e:
        print(f"CHECK-ERROR property={prop} timeout: {e}")
        return 2
    except Exception:
        traceback.print_exc()
        print(f"CHECK-ERROR property={prop} internal error (no verdict)")
        return 2


def run_check(prop, tier, seed, replay, no_build=False):
    t0 = time.time()
    os.chdir(VERIF)
    import logging
    if os.environ.get("VERIF_LOG", "debug") == "off":
        logging.disable(logging.CRITICAL)
    else:
        # The code under test runs the way a user asked for logs runs it: every pyatv logger
        # enabled for DEBUG, so the `isEnabledFor`-guarded statements (log_binary,
        # log_protobuf, ...) execute too.  Records go to a null handler: the code under test
        # logs expected failures loudly and nothing of it is printed.
        logging.getLogger().addHandler(logging.NullHandler())
        logging.getLogger("pyatv").setLevel(logging.DEBUG)
        if os.environ.get("VERIF_LOG", "debug") != "debug-soft":
            # harnesses that silence pyatv's loggers for their own runs (written when output
            # still went to stderr) must not switch the guarded statements off again: only
            # the null handler sees the records, so muting has no purpose any more
            logging.disable = lambda level=logging.CRITICAL: None
            _set_level = logging.Logger.setLevel

            def set_level(self, level):
                if self.name.split(".")[0] == "pyatv" and not isinstance(level, str) and level > logging.DEBUG:
                    return
                _set_level(self, level)

            logging.Logger.setLevel = set_level
    mod = harness_for(prop)
    props_files = list(getattr(mod, "PROPS_FILES", [f"PyatvModel/Props/{prop}.lean"]))
    props_modules = [p[:-5].replace("/", ".") for p in props_files]
    props_module = props_modules[0]
    driver_rel = getattr(mod, "DRIVER", f"Driver/{prop}.lean")
    targets = getattr(mod, "LEAN_TARGETS", props_modules + [f"PyatvModel.{prop}.Driver"])

    if replay:
        data = json.load(open(replay))
        ctx = Ctx(prop, tier, data.get("seed", seed), driver_rel)
        if data.get("kind") != "failing-input":
            print(f"replay {replay}: kind={data.get('kind')} names {data.get('broken')}; re-run ./check {prop} to re-evaluate")
            return 0
        if hasattr(mod, "replay"):
            still = mod.replay(ctx, data["failure"])
        else:
            # default: regenerate the recorded run (same seed, same tier) and look for the same failure
            ctx = Ctx(prop, data.get("tier", tier), data.get("seed", seed), driver_rel)
            try:
                mod.run(ctx)
            except Exception:
                traceback.print_exc()
            still = any(f["sig"] == data["failure"]["sig"] for f in ctx.failures)
        if still:
            print(f"VIOLATION property={prop} replay={replay}")
            return 1
        print(f"replay {replay}: input no longer fails")
        return 0

    # 1-3: extract, build, audit (serialised across concurrent checks)
    per_file = []
    for rel in props_files:
        ns, fobs = lean.obligations(rel)
        for o in fobs:
            o["file"] = rel
            o["full"] = f"{ns}.{o['name']}" if ns else o["name"]
        per_file.append((rel, ns, fobs))
    stage = {}
    obs_res = []
    if no_build:
        for rel, ns, fobs in per_file:
            obs_res += [dict(o, discharged=True, error=None) for o in fobs]
        audit_hits, axioms, bad_axioms = [], {}, {}
    else:
        with lean.Lock():
            stage["extract"] = lean.extract()
            b = lean.build(targets)
            stage["build"] = {"ok": b["ok"], "wall_s": b["wall_s"], "errors": b["errors"][:10]}
            for (rel, ns, fobs), module in zip(per_file, props_modules):
                fb = b if (b["ok"] or len(per_file) == 1) else lean.build([module])
                obs_res += lean.discharged(fobs, rel, fb)
            gens = stage["extract"].get("generators", {})
            mine = getattr(mod, "GEN_MODULES", None)
            if mine is None:
                mine = [g for g in gens if g.startswith(prop.lower())]
            failed = [g for g in mine if gens.get(g) is False]
            if not stage["extract"]["ok"] or failed:
                # only a generator this property depends on invalidates its obligations
                for o in obs_res:
                    o["discharged"] = False
                    o["error"] = "extract failed (%s): %s" % (",".join(failed) or "extract.py", stage["extract"]["log"][-300:])
            audit_hits = lean.audit_sources(lean.lean_sources())
            axioms = {}
            if b["ok"]:
                for (rel, ns, fobs), module in zip(per_file, props_modules):
                    axioms.update(lean.print_axioms(module, [o["full"] for o in fobs if o["kind"] == "theorem"]))
            if tier == "thorough" and b["ok"]:
                stage["leanchecker"] = lean.leanchecker(props_modules)
        bad_axioms = {n: a for n, a in axioms.items() if a is None or not set(a) <= lean.ALLOWED_AXIOMS}
        for o in obs_res:
            if o["full"] in bad_axioms:
                o["discharged"] = False
                o["error"] = f"axiom audit: {bad_axioms[o['full']]}"
            if audit_hits:
                o["discharged"] = False
                o["error"] = "source audit: " + audit_hits[0]
        if tier == "thorough" and "leanchecker" in stage and not stage["leanchecker"]["ok"]:
            for o in obs_res:
                o["discharged"] = False
                o["error"] = "leanchecker rejected the module"

    # 4-5: correspondence + direct oracle
    ctx = Ctx(prop, tier, seed, driver_rel)
    harness_error = None
    try:
        mod.run(ctx)
    except lean.DriverBroken as e:
        ctx.disagree({"driver": driver_rel}, "n/a", "model driver did not run: " + str(e)[-400:], where="driver")
    except lean.subprocess.TimeoutExpired:
        raise
    except Exception:
        harness_error = traceback.format_exc()

    undischarged = [o for o in obs_res if not o["discharged"]]
    broken = bool(undischarged or ctx.disagreements or harness_error)

    findings = [f for f in load_findings() if f.get("property") == prop]
    known = [f for f in findings if f.get("status") == "known"]
    matcher = getattr(mod, "match_finding", lambda failure, entry: failure["sig"] == entry.get("sig"))

    def classify(failures):
        unknown, hits = [], collections.OrderedDict()
        for fl in failures:
            ent = next((k for k in known if matcher(fl, k)), None)
            if ent is None:
                unknown.append(fl)
            else:
                hits.setdefault(ent["id"], (ent, fl))
        return unknown, hits

    unknown, hits = classify(ctx.failures)

    # widen the search once when something broke and no (unlisted) failing input is known yet
    if broken and not unknown and not ctx.widened and not harness_error:
        wctx = Ctx(prop, tier, seed, driver_rel)
        wctx.widened = True
        wctx.rng = Rng(seed, prop, "widened")
        try:
            getattr(mod, "widen", mod.run)(wctx)
        except Exception:
            pass
        unknown, hits2 = classify(wctx.failures)
        for k, v in hits2.items():
            hits.setdefault(k, v)
        ctx.stats["widened_evaluations"] = wctx.evaluations
        ctx.evaluations += wctx.evaluations
        ctx._nontrivial |= wctx._nontrivial
        ctx._distinct |= wctx._distinct

    lines = []
    rc = 0
    for ent, fl in hits.values():
        lines.append(f"KNOWN-FINDING: property={prop} {ent['what']}")
    if unknown:
        shrink = getattr(mod, "shrink", None)
        seen = collections.OrderedDict()
        for fl in unknown:
            seen.setdefault(fl["sig"], fl)
        for sig, fl in list(seen.items())[:MAX_VIOLATION_LINES]:
            if shrink:
                try:
                    fl = shrink(ctx, fl) or fl
                except Exception:
                    pass
            path = write_replay(prop, "failing-input", {"seed": seed, "tier": tier, "failure": fl,
                                                         "broken": [o["name"] for o in undischarged]})
            lines.append(f"VIOLATION property={prop} replay={path}")
        rc = 1
    elif broken:
        body = {
            "seed": seed, "tier": tier,
            "broken": [f"{o['full']}: {o['error']}" for o in undischarged],
            "correspondence": ctx.disagreements[:5],
            "harness_error": harness_error,
            "searched": {"evaluations": ctx.evaluations, "widened": True},
        }
        path = write_replay(prop, "unproved", body)
        lines.append(f"VIOLATION property={prop} replay={path} no-failing-input-found")
        rc = 1
        if harness_error:
            sys.stderr.write(harness_error)

    # 6: evidence
    thm_axioms = {n: a for n, a in axioms.items()}
    used_axioms = sorted({x for a in thm_axioms.values() if a for x in a})
    trusted = [
        "Lean 4 kernel (lake build; leanchecker in thorough tier)",
        "axioms used by the property theorems: " + (", ".join(used_axioms) if used_axioms else "none"),
        "tools/extract.py (Gen/*.lean regenerated from the source tree on this run)",
        "harness/%s.py correspondence harness and Lean driver line protocol" % prop.lower(),
    ] + list(getattr(mod, "TRUSTED", []))
    coverage = {
        "obligations": len(obs_res),
        "discharged": sum(1 for o in obs_res if o["discharged"]),
        "obligation_names": [o["name"] for o in obs_res],
        "undischarged": [{"name": o["name"], "error": o["error"]} for o in undischarged],
        "checker_cmd": "cd lean && lake build " + " ".join(targets) + " && #print axioms on every theorem of " + " ".join(props_modules)
                       + (" && lake env leanchecker " + " ".join(props_modules) if tier == "thorough" else ""),
        "trusted_base": trusted,
        "axioms_per_theorem": thm_axioms,
        "audit_hits": audit_hits,
        "evaluations": ctx.evaluations,
        "distinct_cases": len(ctx._distinct),
        "distinct_nontrivial": len(ctx._nontrivial),
        "rule": getattr(mod, "RULE", ctx.rule),
        "samples": ctx.samples[:6] if ctx.samples else [o["name"] for o in obs_res[:3]],
        "traces_validated_against_impl": ctx.traces_validated,
        "disagreements_checked": ctx.traces_validated,
        "disagreements_found": ctx.stats.get("disagreements", 0),
        "oracle_failures": ctx.stats.get("oracle_failures", 0),
        "known_findings_hit": list(hits.keys()),
        "distribution": dict(sorted(ctx.stats.items())),
        "model_lines_sent": ctx.driver.lines_sent,
        "stages": stage,
        "notes": ctx.notes,
        "repo": REPO,
    }
    digests, changed_files = anchor_digests(prop)
    coverage["anchor_file_digests"] = digests
    coverage["anchor_files_changed_since_model_reconciled"] = changed_files
    if ctx.exhaustive is not None:
        coverage["exhaustive"] = bool(ctx.exhaustive)
    evidence = {
        "property_id": prop, "tier": tier, "seed": seed, "level": "proof",
        "coverage": coverage,
        "assumptions": list(getattr(mod, "ASSUMPTIONS", [])) + ctx.assumptions,
        "wall_s": round(time.time() - t0, 2),
        "violations": sum(1 for l in lines if l.startswith("VIOLATION")),
    }
    write_json(os.path.join(VERIF, "evidence", f"{prop}.json"), evidence)
    for l in lines:
        print(l)
    print(f"{prop} tier={tier} seed={seed}: obligations {coverage['discharged']}/{coverage['obligations']}, "
          f"cases {ctx.evaluations} (nontrivial distinct {len(ctx._nontrivial)}), validated {ctx.traces_validated}, "
          f"disagreements {ctx.stats.get('disagreements', 0)}, oracle failures {ctx.stats.get('oracle_failures', 0)}, "
          f"{evidence['wall_s']}s -> exit {rc}")
    return rc
