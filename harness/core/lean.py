"""Lean side of a check: regenerate Gen, build, audit, axioms, run the model driver."""
import fcntl
import json
import os
import re
import subprocess
import time

from . import LEAN_DIR, REPO, VERIF

ALLOWED_AXIOMS = {"propext", "Classical.choice", "Quot.sound"}
FORBIDDEN = re.compile(
    r"\b(sorry|admit|native_decide|bv_decide|implemented_by)\b|^\s*axiom\s|\bunsafe\s|maxHeartbeats\s+0\b"
)


class Lock:
    """flock around extract/build so concurrent checks do not race on .lake."""

    def __enter__(self):
        self.f = open(os.path.join(LEAN_DIR, ".verif.lock"), "w")
        fcntl.flock(self.f, fcntl.LOCK_EX)
        return self

    def __exit__(self, *a):
        fcntl.flock(self.f, fcntl.LOCK_UN)
        self.f.close()


def strip_comments(text):
    """Remove Lean block comments (nested) and line comments."""
    out, i, depth, n = [], 0, 0, len(text)
    while i < n:
        if text.startswith("/-", i):
            depth += 1
            i += 2
        elif depth and text.startswith("-/", i):
            depth -= 1
            i += 2
        elif depth:
            if text[i] == "\n":
                out.append("\n")
            i += 1
        elif text.startswith("--", i):
            while i < n and text[i] != "\n":
                i += 1
        else:
            out.append(text[i])
            i += 1
    return "".join(out)


def extract(timeout=300):
    """Tie A: regenerate lean/PyatvModel/Gen/*.lean from REPO's working tree."""
    t0 = time.time()
    p = subprocess.run(
        ["/venv/bin/python", os.path.join(VERIF, "tools", "extract.py")],
        capture_output=True, text=True, timeout=timeout,
        env=dict(os.environ, VERIF_REPO=REPO),
    )
    out = p.stdout + p.stderr
    status = {}
    m = re.search(r"^EXTRACT-STATUS (.*)$", out, re.M)
    if m:
        try:
            status = json.loads(m.group(1))
        except ValueError:
            status = {}
    return {"ok": p.returncode == 0 and bool(status), "log": out[-4000:], "wall_s": time.time() - t0, "generators": status}


def obligations(props_rel):
    """Every theorem/example of a Props file is an obligation: (kind, name, line)."""
    path = os.path.join(LEAN_DIR, props_rel)
    text = strip_comments(open(path).read())
    ns = None
    obs = []
    m = re.search(r"^namespace\s+(\S+)", text, re.M)
    if m:
        ns = m.group(1)
    for i, line in enumerate(text.split("\n"), 1):
        m = re.match(r"\s*(?:private\s+|protected\s+)?(theorem|lemma)\s+(\S+)", line)
        if m:
            obs.append({"kind": "theorem", "name": m.group(2), "line": i})
        elif re.match(r"\s*example\b", line):
            obs.append({"kind": "example", "name": f"example@{i}", "line": i})
    return ns, obs


def build(targets, timeout=1800):
    t0 = time.time()
    p = subprocess.run(
        ["lake", "build"] + list(targets), cwd=LEAN_DIR, capture_output=True, text=True, timeout=timeout
    )
    log = p.stdout + p.stderr
    errors = []
    for m in re.finditer(r"^error: ([^\s:]+\.lean):(\d+):(\d+): (.*)$", log, re.M):
        errors.append({"file": m.group(1), "line": int(m.group(2)), "msg": m.group(4)[:300]})
    return {"ok": p.returncode == 0, "errors": errors, "log": log[-6000:], "wall_s": time.time() - t0}


def discharged(obs, props_rel, build_res):
    """An obligation is discharged iff the build succeeded for its file, or (on failure)
    no error falls inside its source span and no upstream module failed."""
    if build_res["ok"]:
        return [dict(o, discharged=True, error=None) for o in obs]
    errs = [e for e in build_res["errors"] if e["file"].endswith(props_rel) or props_rel.endswith(e["file"])]
    upstream = [e for e in build_res["errors"] if e not in errs and "/Props/" not in e["file"]]
    lines = sorted(o["line"] for o in obs)
    out = []
    for o in obs:
        nxt = min([l for l in lines if l > o["line"]], default=10 ** 9)
        mine = [e for e in errs if o["line"] <= e["line"] < nxt]
        if upstream or (not errs):
            # the Props file did not even elaborate (an imported module is broken)
            msg = (upstream[0]["file"] + ": " + upstream[0]["msg"]) if upstream else "build failed: " + build_res["log"][-300:]
            out.append(dict(o, discharged=False, error=msg))
        elif mine:
            out.append(dict(o, discharged=False, error=mine[0]["msg"]))
        else:
            out.append(dict(o, discharged=True, error=None))
    return out


def audit_sources(paths):
    """grep for forbidden constructs outside comments."""
    hits = []
    for path in paths:
        text = strip_comments(open(path).read())
        for i, line in enumerate(text.split("\n"), 1):
            if FORBIDDEN.search(line):
                hits.append(f"{os.path.relpath(path, LEAN_DIR)}:{i}: {line.strip()[:120]}")
    return hits


def lean_sources():
    out = []
    for root, _dirs, files in os.walk(LEAN_DIR):
        if ".lake" in root:
            continue
        for f in files:
            if f.endswith(".lean"):
                out.append(os.path.join(root, f))
    return sorted(out)


def print_axioms(module, names, timeout=600):
    """`#print axioms` for each named theorem; returns {name: [axioms]} or {name: None}."""
    if not names:
        return {}
    src = f"import {module}\n" + "".join(f"#print axioms {n}\n" for n in names)
    tmp = os.path.join(LEAN_DIR, ".lake", f"axioms_{module.replace('.', '_')}_{os.getpid()}.lean")
    os.makedirs(os.path.dirname(tmp), exist_ok=True)
    with open(tmp, "w") as f:
        f.write(src)
    try:
        p = subprocess.run(["lake", "env", "lean", tmp], cwd=LEAN_DIR, capture_output=True, text=True, timeout=timeout)
    finally:
        os.unlink(tmp)
    out = p.stdout + p.stderr
    res = {n: None for n in names}
    flat = re.sub(r"\n\s+", " ", out)
    for n in names:
        short = re.escape(n)
        m = re.search(rf"'{short}' depends on axioms: \[([^\]]*)\]", flat)
        if m:
            res[n] = [a.strip() for a in m.group(1).split(",") if a.strip()]
        elif re.search(rf"'{short}' does not depend on any axioms", flat):
            res[n] = []
    return res


def leanchecker(modules, timeout=3600):
    t0 = time.time()
    p = subprocess.run(["lake", "env", "leanchecker"] + list(modules), cwd=LEAN_DIR, capture_output=True, text=True, timeout=timeout)
    return {"ok": p.returncode == 0, "log": (p.stdout + p.stderr)[-2000:], "wall_s": time.time() - t0}


class Driver:
    """Batch client of a model driver (`lake env lean --run Driver/Cxx.lean`)."""

    def __init__(self, driver_rel):
        self.driver_rel = driver_rel
        self.lines_sent = 0
        self.broken = None

    def batch(self, lines, timeout=1800):
        """Send all lines, return the same number of answers; raises DriverBroken."""
        lines = list(lines)
        for l in lines:
            if "\n" in l:
                raise ValueError("newline in protocol line")
        p = subprocess.run(
            ["lake", "env", "lean", "--run", self.driver_rel], cwd=LEAN_DIR,
            input="\n".join(lines) + ("\n" if lines else ""), capture_output=True, text=True, timeout=timeout,
        )
        out = p.stdout.split("\n")
        if out and out[-1] == "":
            out.pop()
        self.lines_sent += len(lines)
        if p.returncode != 0 or len(out) != len(lines):
            self.broken = (p.stderr or p.stdout)[-1500:]
            raise DriverBroken(self.broken)
        return out


class DriverBroken(Exception):
    pass
