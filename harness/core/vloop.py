"""Virtual-time asyncio loop: timers fire in deadline order without waiting; the ready
queue (FIFO call_soon order) is untouched.  A loop with nothing ready, nothing scheduled
and no I/O registered raises Deadlock instead of blocking forever."""
import asyncio
import selectors


class Deadlock(RuntimeError):
    pass


class VirtualLoop(asyncio.SelectorEventLoop):
    def __init__(self):
        super().__init__(selectors.DefaultSelector())
        self._vtime = 0.0
        self.allow_io = False

    def time(self):
        return self._vtime

    def advance(self, dt):
        self._vtime += dt

    def _run_once(self):
        if not self._ready:
            live = [h._when for h in self._scheduled if not h._cancelled]
            if live:
                when = min(live)
                if when > self._vtime:
                    self._vtime = when
            elif not self.allow_io and not self._stopping:
                raise Deadlock("virtual loop idle: nothing ready, nothing scheduled")
        super()._run_once()


def run(coro_fn, *args, **kwargs):
    """Run `coro_fn(*args)` to completion on a fresh VirtualLoop and return its result."""
    loop = VirtualLoop()
    try:
        asyncio.set_event_loop(loop)
        return loop.run_until_complete(coro_fn(*args, **kwargs))
    finally:
        try:
            pending = [t for t in asyncio.all_tasks(loop) if not t.done()]
            for t in pending:
                t.cancel()
            if pending:
                loop.run_until_complete(asyncio.gather(*pending, return_exceptions=True))
        except Exception:
            pass
        asyncio.set_event_loop(None)
        loop.close()
