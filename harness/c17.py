"""C17 — correspondence + direct oracle for the buffered audio input layers.

Real code driven (in-process, tree under test):
  * pyatv.support.buffer.SemiSeekableBuffer                         target "buf"
  * pyatv.protocols.raop.audio_source.BufferedIOBaseWrapper          target "bio"
      over a fake non-seekable io.BufferedIOBase with scripted short reads
  * ...StreamReaderWrapper                                           target "srw"
      over a real asyncio.StreamReader whose read() is fed with a scripted amount of data
      right before it is awaited; the run_coroutine_threadsafe hop is driven synchronously
      (and, for a sample of histories, through a real private event-loop thread)
  * ...StreamableSourceWrapper over that StreamReaderWrapper         target "ssw"
      (the stacking BufferedIOBaseSource.open builds)
  * ...StreamableSourceWrapper over the real PatchedIceCastClient    target "ice"
      (the real download thread runs the real _stream_wrapper/_download_stream loop against a
      fake `requests` response whose body returns scripted SHORT reads mid-stream and b"" only
      at the true end; thread and consumer are hand-shaked so that exactly one of them runs
      at any time and the schedule is part of the history: `fetch` lets the downloader run up
      to the point where it is about to take the buffer lock, `store` lets it add the chunk
      and go on to its next read/wait, `feed` = both; the consumer reads through
      PatchedIceCastClient.read, whose end-of-stream flag `_stop_stream` is the real one)

Every history is executed on the real objects, the same operations are sent to the Lean
driver (Driver/C17.lean) and answers + observable buffer state are compared op by op.
Independently of the model, the direct oracle (`oracle`) replays the answers against a
reference byte stream written from the property text: every read returns exactly the
source bytes at the reference cursor; a seek that reports success moves the cursor to
exactly that offset, one that reports failure leaves it; add() is taken at its word
(the reference appends exactly the reported number of bytes); after the history the
stream is drained and must deliver everything that is still owed.
"""
import asyncio
import io
import threading
import time

RULE = ("random histories (<= 12 operations quick / <= 24 thorough, plus a drain) of add/get/seek/protect on the "
        "real SemiSeekableBuffer and of read/seek/protect(/feed) on the real wrappers, buffer/headroom from (4,1) "
        "to the production (65536,32768); sizes/offsets biased to room±1, unread±1, headroom±1, position±1, -1, 0; "
        "the short-read pattern of the source is a random oracle list. non-trivial = the history contains a seek "
        "followed by a non-empty read, or fills the buffer completely, or discards the headroom; "
        "distinct = (target, sizes, source, oracle list, operation list)")
ASSUMPTIONS = [
    "the source below a wrapper answers read(n), n >= 1, with at most n bytes (a non-empty prefix while data remains)",
    "read sizes are -1 or >= 0 and seek offsets are >= 0 (negative values other than -1 are outside the modelled domain)",
    "the icy-metaint header, when present, is a positive integer and BLOCK_SIZE <= buffer size - headroom (production: 8192 <= 32768)",
    "one thread at a time touches a buffer (the lock in PatchedIceCastClient is taken as given)",
]
TRUSTED = [
    "factory scenarios: fake get_metadata (scripted probe run in the executor), identity stand-in for miniaudio.stream_any / "
    "WavFileReadStream, DEFAULT_TIMEOUT scaled to 0.06 s and polling sleeps shortened in the real-time runs",
    "fakes of harness/c17.py: scripted io.BufferedIOBase, scripted asyncio.StreamReader subclass, fake requests "
    "response, synchronous stand-in for asyncio.run_coroutine_threadsafe (cross-checked against a real loop thread)",
]

BUDGET = {"stalls": 0, "max": 4}      # per run: after this many stalled scenarios nothing more is started
WATCHDOG = 6.0            # wall-clock seconds a scenario step that drives a real thread may take
STALL_TIMEOUT = 0.06      # what the library's DEFAULT_TIMEOUT (10 s) is scaled to in the thread-hop runs
STALL = 0.25              # how long a stalled producer delivers nothing (> the scaled timeout)

SIZES = [(4, 1), (4, 4), (5, 2), (8, 3), (10, 5), (16, 1), (16, 16), (32, 8), (64, 32), (100, 10)]
BIG_SIZES = [(8192, 1024), (65536, 32768)]
KINDS = ["bio", "srw", "ssw", "ice"]

# histories that broke the property on the pinned tree (D12 and the StreamReaderWrapper
# variants); always run first.
WITNESSES = [
    {"target": "bio", "size": 10, "headroom": 5, "prot": False, "seed": 0, "srclen": 30, "ks": [],
     "ops": [["read", 3], ["read", 9], ["read", 9]], "drain": 9},
    {"target": "srw", "size": 10, "headroom": 5, "prot": False, "seed": 0, "srclen": 40, "ks": [],
     "ops": [["read", 2], ["seek", 0], ["read", 9], ["read", 9], ["read", 9]], "drain": 9},
    {"target": "srw", "size": 10, "headroom": 5, "prot": False, "seed": 0, "srclen": 40, "ks": [],
     "ops": [["read", 3], ["read", 3], ["seek", 0], ["read", 3], ["read", 3]], "drain": 4},
    {"target": "srw", "size": 10, "headroom": 5, "prot": False, "seed": 0, "srclen": 40, "ks": [],
     "ops": [["read", 6], ["read", 3], ["seek", 6], ["read", 3]], "drain": 4},
    {"target": "ssw", "size": 10, "headroom": 5, "prot": True, "seed": 3, "srclen": 40, "ks": [1, 0, 2],
     "ops": [["read", 4], ["read", 4], ["seek", 0], ["prot", 0], ["read", 9], ["read", 9]], "drain": 5},
    {"target": "ice", "size": 10, "headroom": 5, "prot": True, "seed": 1, "srclen": 30, "ks": [], "blk": 4, "gap": 1,
     "ops": [["feed", 4], ["feed", 4], ["feed", 4], ["read", 6], ["seek", 0], ["prot", 0], ["read", 7], ["feed", 4],
             ["seek", 0], ["read", 3]], "drain": 3},
    # HTTP body with short reads mid-stream (2 of 4, 1 of 4, ...), consumer reading between fetch and store
    {"target": "ice", "size": 16, "headroom": 8, "prot": False, "seed": 7, "srclen": 37, "ks": [9, 1, 0, 9, 2],
     "blk": 4, "gap": 1, "ops": [["feed", 4], ["fetch", 4], ["read", 4], ["store"], ["read", 2]], "drain": 5},
    {"target": "ice", "size": 65536, "headroom": 32768, "prot": True, "seed": 9, "srclen": 20000, "ks": [10 ** 6, 4999],
     "blk": 8192, "gap": 2, "ops": [["feed", 8192]], "drain": 4096},
    # ICY streams: interval above the block size (audio must not be dropped when the buffer is nearly
    # full), short reads inside _readall, metadata blocks of length 0 and > 0, body ending anywhere
    {"target": "ice", "size": 65536, "headroom": 32768, "prot": False, "seed": 5, "srclen": 100000, "ks": [],
     "blk": 8192, "gap": 0, "metaint": 16000, "metas": [2, 0, 1], "cut": 100000 + 6 + 48,
     "ops": [["feed", 8192]] * 9 + [["read", 32768], ["feed", 8192], ["feed", 8192], ["feed", 8192], ["read", 6000],
                                    ["feed", 8192], ["feed", 8192]], "drain": 8192},
    {"target": "ice", "size": 16, "headroom": 8, "prot": False, "seed": 2, "srclen": 23, "ks": [1, 0, 5, 0, 2, 9, 0],
     "blk": 3, "gap": 2, "metaint": 4, "metas": [1, 0], "cut": 60, "ops": [["feed", 3], ["fetch", 3], ["store"]],
     "drain": 4},
    {"target": "ice", "size": 16, "headroom": 8, "prot": True, "seed": 4, "srclen": 12, "ks": [], "blk": 8, "gap": 1,
     "metaint": 5, "metas": [1], "cut": 30, "ops": [["feed", 8], ["read", 3], ["seek", 0]], "drain": 2},
    {"target": "buf", "size": 10, "headroom": 5, "prot": False, "seed": 0, "srclen": 0, "ks": [],
     "ops": [["addp", 0, 0, 12], ["get", 3], ["seek", 1], ["get", 3], ["seek", 7], ["get", 4], ["seek", 0],
             ["addp", 0, 10, 4], ["get", 9]], "drain": 3},
]


# the producer below an asyncio stream stalls for longer than the library's (scaled) timeout;
# whatever the read does then (wait, or give up with an exception), the consumer carries on
# and must still receive every byte in order.  Run through the real event-loop thread.
STALL_WITNESSES = [
    {"target": "srw", "size": 64, "headroom": 32, "prot": False, "seed": 11, "srclen": 60, "ks": [3] * 40,
     "ops": [["read", 4], ["read", 4, "stall"], ["read", 4], ["read", 4]], "drain": 4},
    {"target": "ssw", "size": 65536, "headroom": 32768, "prot": True, "seed": 12, "srclen": 50000, "ks": [8191] * 8,
     "ops": [["read", 8192], ["read", 8192, "stall"], ["seek", 0], ["prot", 0], ["read", 8192]], "drain": 8192},
]

# ---------------------------------------------------------------------------------------
# shared deterministic data / digests (mirrors PyatvModel.C17.pat / digest)

_PAT_CACHE = {}


def pat(seed, start, n):
    if n <= 0:
        return b""
    key = (seed, start + n)
    if start == 0:
        got = _PAT_CACHE.get(key)
        if got is None:
            got = bytes((seed + i + 17 * (i // 256)) % 256 for i in range(n))
            if len(_PAT_CACHE) > 64:
                _PAT_CACHE.clear()
            _PAT_CACHE[key] = got
        return got
    return bytes((seed + i + 17 * (i // 256)) % 256 for i in range(start, start + n))


def digest(b):
    b = bytes(b)
    if len(b) <= 24:
        return b.hex() if b else "-"
    acc = 0
    for i, x in enumerate(b):
        acc = (acc + (i % 65536 + 1) * x) % 1000003
    return "L%d.%s.%s.%d" % (len(b), b[:8].hex(), b[-8:].hex(), acc)


def bit(x):
    return "1" if x else "0"


def meta_block(l, i):
    return bytes([l]) + bytes((165 + 7 * i + j) % 256 for j in range(16 * l))


_WIRE_CACHE = {}


def build_wire(h):
    key = (h["seed"], h["srclen"], h.get("metaint", 0), tuple(h.get("metas") or ()), h.get("cut"))
    got = _WIRE_CACHE.get(key)
    if got is None:
        if len(_WIRE_CACHE) > 16:
            _WIRE_CACHE.clear()
        got = _WIRE_CACHE[key] = _build_wire(h)
    return got


def _build_wire(h):
    """HTTP response body of an `ice` history and the audio bytes it carries (what the
    consumer must receive).  With icy-metaint M > 0: runs of M audio bytes, every full run
    followed by a metadata block (length byte l, 16*l bytes), the body cut after `cut` bytes."""
    audio = pat(h["seed"], 0, h["srclen"])
    M = h.get("metaint", 0)
    if not M:
        return audio, audio
    metas = h.get("metas") or [0]
    out, is_audio, i, off = bytearray(), bytearray(), 0, 0
    while True:
        run = audio[off:off + M]
        out += run
        is_audio += b"\x01" * len(run)
        off += len(run)
        if len(run) < M:
            break
        mb = meta_block(metas[i % len(metas)], i)
        out += mb
        is_audio += b"\x00" * len(mb)
        i += 1
    cut = h.get("cut", len(out))
    out, is_audio = out[:cut], is_audio[:cut]
    return bytes(out), bytes(b for b, a in zip(out, is_audio) if a)


# ---------------------------------------------------------------------------------------
# fakes

class ScriptedSource:
    """Shared scripted source: read(n) -> min(n, k+1) bytes, k = next oracle entry."""

    def __init__(self, data, ks):
        self.data = data
        self.off = 0
        self.ks = list(ks)
        self.calls = []
        self.stall_next = 0.0

    def take(self, n):
        self.calls.append(n)
        if n is None or n < 0:
            m = len(self.data) - self.off
        else:
            if self.ks:
                m = min(n, self.ks.pop(0) + 1)
            else:
                m = n
        out = self.data[self.off:self.off + m]
        self.off += len(out)
        self.last_len = len(out)
        return out


class FakeRaw(io.BufferedIOBase):
    """Non-seekable binary stream with scripted short reads."""

    def __init__(self, src):
        super().__init__()
        self.src = src

    def read(self, size=-1):
        return self.src.take(size)

    def readable(self):
        return True

    def seekable(self):
        return False


class _Done:
    def __init__(self, value=None, exc=None):
        self.value, self.exc = value, exc

    def result(self, timeout=None):
        if self.exc is not None:
            raise self.exc
        return self.value


class AsyncioShim:
    """Stands in for the `asyncio` module inside audio_source: the event-loop hop is run
    synchronously (the scripted StreamReader never has to wait)."""

    def __init__(self, loop):
        self._loop = loop

    def get_event_loop(self):
        return self._loop

    def run_coroutine_threadsafe(self, coro, loop):
        try:
            coro.send(None)
        except StopIteration as stop:
            return _Done(stop.value)
        except Exception as exc:  # the coroutine raised
            return _Done(exc=exc)
        coro.close()
        return _Done(exc=BlockingIOError("scripted StreamReader would block"))

    def __getattr__(self, name):
        return getattr(asyncio, name)


def make_stream_reader(src, loop):
    class ScriptedStreamReader(asyncio.StreamReader):
        async def read(self, n=-1):
            if n == 0:
                src.take(0)
                return b""
            if src.stall_next:
                # the producer stalls: nothing arrives for a while (only with a running loop)
                delay, src.stall_next = src.stall_next, 0.0
                await asyncio.sleep(delay)
            chunk = src.take(n)
            if chunk:
                self.feed_data(chunk)
            if src.off >= len(src.data):
                self.feed_eof()
            if not chunk and not self.at_eof():
                self.feed_eof()
            return await super().read(n)

    return ScriptedStreamReader(loop=loop)


class _Abort(Exception):
    """Raised inside the parked download thread when a session is torn down."""


class Stalled(Exception):
    """A real thread driven by the harness neither delivered, nor signalled end or error,
    within the wall-clock watchdog."""


def watchdog_call(fn, *args):
    """Run fn(*args) in a daemon thread; give up (Stalled) after WATCHDOG seconds."""
    box = {}

    def work():
        try:
            box["value"] = fn(*args)
        except BaseException as e:      # noqa: handed to the caller
            box["error"] = e

    t = threading.Thread(target=work, daemon=True)
    t.start()
    t.join(WATCHDOG)
    if t.is_alive():
        BUDGET["stalls"] += 1
        raise Stalled("call did not return within %.0f s" % WATCHDOG)
    if "error" in box:
        raise box["error"]
    return box.get("value")


class WouldWait(Exception):
    """The consumer's read() would have to wait for the download thread."""


class FakeRequests:
    def __init__(self, response):
        self.response = response

    def get(self, *a, **k):
        return self.response


class _Response:
    """Fake `requests` response; its raw body is the rig (scripted short reads)."""

    def __init__(self, rig, metaint):
        self.status_code = 200
        self.reason = "OK"
        self.headers = {"icy-metaint": str(metaint)} if metaint else {}
        rig.headers = self.headers
        self.raw = rig

    def __enter__(self):
        return self

    def __exit__(self, *a):
        return False


class _HookLock:
    """The client's buffer lock.  Taking it is a scheduling point of the download thread;
    who holds it is recorded so that unprotected writes to the shared buffer are seen."""

    def __init__(self, rig):
        self.rig = rig
        self.lock = threading.Lock()
        self.owner = None

    def __enter__(self):
        if self.rig.in_downloader():
            self.rig.reading = False
            self.rig.park("lock")
        self.lock.acquire()
        self.owner = threading.current_thread()
        return self

    def __exit__(self, *a):
        self.owner = None
        self.lock.release()
        if self.rig.in_downloader() and self.rig.pause_after_unlock:
            self.rig.park("unlock")
        return False


def watch_buffer(buffer, rig):
    """Make stores to the shared buffer's `_buffer` attribute observable (a subclass of the
    real class with a property; behaviour is unchanged).  A store made by a thread that
    does not hold the buffer lock is a data race: the other thread may run a whole locked
    section between the evaluation of the new value and the store.  If the downloader is
    waiting for the lock at that moment, exactly that (legal) interleaving is produced."""
    cls = type(buffer)
    if "_buffer" not in buffer.__dict__:
        return

    def getter(self):
        return self.__dict__["_verif_buffer"]

    def setter(self, value):
        r = self.__dict__.get("_verif_rig")
        if r is not None:
            r.on_store()
        self.__dict__["_verif_buffer"] = value

    watched = type("Watched" + cls.__name__, (cls,), {"_buffer": property(getter, setter)})
    buffer.__dict__["_verif_buffer"] = buffer.__dict__.pop("_buffer")
    buffer.__dict__["_verif_rig"] = rig
    buffer.__class__ = watched


class IceRig:
    """Real PatchedIceCastClient with its real download thread, scheduled deterministically.

    Scheduling points of the download thread (D): the first body read() of a loop turn,
    time.sleep() (waiting for room), taking the buffer lock, (on request) releasing it, and
    any store to the shared buffer made without holding the lock.  D runs only between
    `resume()` and its next `park()`; the main thread (M, the consumer) runs only while D
    is parked."""

    def __init__(self, A, buffer, src, blk, metaint=0):
        self.src = src
        self.parked = None          # "read" | "sleep" | "lock" | "unlock" | "racy-store" | "finished"
        self.reading = False        # D is inside the reading part of a turn (no parking at reads)
        self.served = False
        self.abort = False
        self.pause_after_unlock = False
        self.in_race = False
        self.races = 0
        self.empty_reads = 0
        self.t = 0.0
        self.cond = threading.Condition()
        self.turn = "D"             # whose turn it is to run: "D" download thread, "M" main thread
        self.stalled = False        # D did not come back to a scheduling point in time (watchdog)
        client = object.__new__(A.PatchedIceCastClient)
        client.url = "http://verif.invalid/stream"
        client.error_message = None
        client._stop_stream = False
        client._buffer = buffer
        self.lock = _HookLock(self)
        client._buffer_lock = self.lock
        client.BLOCK_SIZE = blk
        self.client = client
        A.requests = FakeRequests(_Response(self, metaint))
        A.time = self
        self.thread = threading.Thread(target=self._main, daemon=True)
        client._download_thread = self.thread
        watch_buffer(buffer, self)
        self.thread.start()
        try:
            self._wait()
        except Stalled:
            pass

    # -- handshake --------------------------------------------------------------------
    def _main(self):
        try:
            self.client._stream_wrapper()
        finally:
            with self.cond:
                self.parked = "finished"
                self.turn = "M"
                self.cond.notify_all()

    def _wait(self):
        """M waits until D is parked again; the watchdog turns a download thread that
        neither parks nor finishes into the outcome `stalled` (it is then left alone)."""
        with self.cond:
            ok = self.cond.wait_for(lambda: self.turn == "M", timeout=WATCHDOG)
        if not ok:
            self.stalled = True
            BUDGET["stalls"] += 1
            raise Stalled("download thread did not reach a scheduling point within %.0f s" % WATCHDOG)

    def park(self, kind):
        with self.cond:
            self.parked = kind
            self.turn = "M"
            self.cond.notify_all()
            self.cond.wait_for(lambda: self.turn == "D")
        if self.abort:
            raise _Abort()

    def resume(self):
        if self.stalled:
            raise Stalled("download thread stalled earlier")
        with self.cond:
            self.turn = "D"
            self.cond.notify_all()
        self._wait()

    def in_downloader(self):
        return threading.current_thread() is self.thread

    # -- HTTP body ------------------------------------------------------------------------
    def read(self, n):
        if not self.reading:
            self.park("read")
            self.reading = True
        self.served = True
        out = self.src.take(n)
        self.empty_reads = 0 if out or n == 0 else self.empty_reads + 1
        if self.empty_reads > 200:
            raise RuntimeError("response body read again and again after its end")
        return out

    # -- unprotected stores to the shared buffer ------------------------------------------
    def on_store(self):
        if self.abort or self.parked is None:
            return
        me = threading.current_thread()
        if self.lock.owner is me:
            return
        self.races += 1
        if me is self.thread:
            self.park("racy-store")       # the consumer may run before this store lands
        elif self.parked == "lock" and not self.in_race:
            self.in_race = True           # the downloader runs its whole locked section right now
            self.pause_after_unlock = True
            try:
                self.resume()
            finally:
                self.pause_after_unlock = False
                self.in_race = False

    # -- time ---------------------------------------------------------------------------
    def monotonic(self):
        self.t += 1.0
        return self.t

    def sleep(self, _s):
        if self.in_downloader():
            self.park("sleep")
        else:
            raise WouldWait()

    # -- schedule operations (main thread) ------------------------------------------------
    def fetch(self):
        if self.parked in ("finished", "lock", "unlock", "racy-store"):
            return False
        self.reading, self.served = True, False
        self.resume()
        self.reading = False
        return self.served

    def store(self):
        if self.parked not in ("lock", "unlock", "racy-store"):
            return False
        self.reading = False
        self.resume()
        return True

    def close(self):
        self.abort = True
        self.client._stop_stream = True
        with self.cond:
            self.turn = "D"
            self.cond.notify_all()
        self.thread.join(0.5 if self.stalled else 5)     # daemon thread: a stuck one is left behind


# ---------------------------------------------------------------------------------------
# sessions on the real code

class Env:
    """Per-run patching of the audio_source module namespace (restored on close)."""

    def __init__(self, thread_hop=False):
        from pyatv.protocols.raop import audio_source
        self.mod = audio_source
        self.saved = {k: getattr(audio_source, k) for k in ("asyncio", "requests", "time", "DEFAULT_TIMEOUT")
                      if hasattr(audio_source, k)}
        self.thread = None
        if thread_hop:
            # stalls of the producer are played in real time: scale the library's timeout down
            if "DEFAULT_TIMEOUT" in self.saved:
                audio_source.DEFAULT_TIMEOUT = STALL_TIMEOUT
            self.loop = asyncio.new_event_loop()
            self.thread = threading.Thread(target=self.loop.run_forever, daemon=True)
            self.thread.start()
        else:
            self.loop = asyncio.new_event_loop()
            audio_source.asyncio = AsyncioShim(self.loop)

    def close(self):
        for k, v in self.saved.items():
            setattr(self.mod, k, v)
        if self.thread is not None:
            self.loop.call_soon_threadsafe(self.loop.stop)
            self.thread.join(5)
        try:
            self.loop.close()
        except Exception:
            pass


class Session:
    """One history on the real objects.  `apply(op)` -> result token; `line()` -> the
    comparison line (result + observable buffer state)."""

    def __init__(self, env, h):
        from pyatv.support.buffer import SemiSeekableBuffer
        self.env = env
        self.h = h
        self.target = h["target"]
        A = env.mod
        self.buffer = SemiSeekableBuffer(h["size"], seekable_headroom=h["headroom"], protected_headroom=h["prot"])
        self.S = pat(h["seed"], 0, h["srclen"])
        self.src = ScriptedSource(self.S, h["ks"])
        t = self.target
        if t == "bio":
            self.w = A.BufferedIOBaseWrapper(FakeRaw(self.src), self.buffer)
        elif t in ("srw", "ssw"):
            if env.thread is not None:
                asyncio.set_event_loop(env.loop)
            try:
                reader = make_stream_reader(self.src, env.loop)
                self.inner = A.StreamReaderWrapper(reader, self.buffer)
            finally:
                if env.thread is not None:
                    asyncio.set_event_loop(None)
            self.w = self.inner if t == "srw" else A.StreamableSourceWrapper(self.inner, self.buffer)
        elif t == "ice":
            self.S, self.audio = build_wire(h)
            self.src = ScriptedSource(self.S, h["ks"])
            self.rig = IceRig(A, self.buffer, self.src, h["blk"], h.get("metaint", 0))
            self.client = self.rig.client
            self.w = A.StreamableSourceWrapper(self.client, self.buffer, name="verif")

    def close(self):
        rig = getattr(self, "rig", None)
        if rig is not None:
            rig.close()

    # -- observation ------------------------------------------------------------------
    def obs(self):
        b = self.buffer
        try:
            stored = len(getattr(b, "_buffer"))
            hh = bit(getattr(b, "_has_headroom_data"))
        except Exception:
            stored, hh = "?", "?"
        try:
            line = "%d %d %d %s %s %s %d" % (b.position, len(b), b.remaining, stored, hh,
                                             bit(b.protected_headroom), self.src.off)
            if self.target == "ice":
                line += " " + bit(self.client._stop_stream)
            return line
        except Exception as e:
            return "obs-error:" + type(e).__name__

    def stopped(self):
        return bool(getattr(self.client, "_stop_stream", True)) if self.target == "ice" else True

    def apply(self, op):
        try:
            return self._apply(op)
        except Exception as e:  # an observation, never a crash of the harness
            return "err:" + type(e).__name__

    def _apply(self, op):
        import miniaudio
        from pyatv.exceptions import InvalidStateError
        name, t = op[0], self.target
        if name == "prot":
            try:
                self.buffer.protected_headroom = bool(op[1])
                return "f:1"
            except InvalidStateError:
                return "f:0"
        if t == "buf":
            if name in ("add", "addp"):
                data = bytes.fromhex(op[1]) if name == "add" else pat(op[1], op[2], op[3])
                r = self.buffer.add(data)
                return "n:%d" % r if isinstance(r, int) and not isinstance(r, bool) else "err:type"
            if name == "get":
                return self._data(self.buffer.get(op[1]))
            if name == "seek":
                r = self.buffer.seek(op[1])
                return "f:" + bit(r) if isinstance(r, bool) else "err:type"
        else:
            if name == "read":
                stalled = len(op) > 2 and op[2] == "stall" and self.env.thread is not None
                if stalled:
                    self.src.stall_next = STALL
                try:
                    if self.env.thread is not None:
                        return self._data(watchdog_call(self.w.read, op[1]))
                    return self._data(self.w.read(op[1]))
                except Stalled:
                    raise
                except Exception:
                    if stalled:
                        time.sleep(STALL + 0.1)   # the consumer carries on once the producer has caught up
                    raise
            if name == "seek":
                r = self.w.seek(op[1])
                if t == "srw":
                    return "f:" + bit(r) if isinstance(r, bool) else "err:type"
                return "p:%d" % r if isinstance(r, int) and not isinstance(r, bool) else "err:type"
            if name == "seekcur":
                if t == "srw":
                    r = self.w.seek(op[1], miniaudio.SeekOrigin.CURRENT)
                    return "f:" + bit(r) if isinstance(r, bool) else "err:type"
                r = self.w.seek(op[1], io.SEEK_CUR)
                return "p:%d" % r if isinstance(r, int) and not isinstance(r, bool) else "err:type"
            if t == "ice" and name in ("feed", "fetch"):
                if op[1] != self.h["blk"]:
                    raise ValueError("block size is fixed per history")
                ok = self.rig.fetch()
                if ok and name == "feed":
                    self.rig.store()
                return "f:" + bit(ok)
            if t == "ice" and name == "store":
                return "f:" + bit(self.rig.store())
        raise ValueError("operation %r not valid for %s" % (op, t))

    def _data(self, r):
        if isinstance(r, memoryview):
            r = r.tobytes()
        if not isinstance(r, (bytes, bytearray)):
            return "err:type"
        self.last = bytes(r)
        return "d:" + digest(r)


def model_line(op):
    name = op[0]
    if name == "prot":
        return "prot %s" % bit(op[1])
    if name == "add":
        return "add %s" % (op[1] or "-")
    if name == "read":
        return "read %d" % op[1]          # a stall is invisible to the model: the read just takes longer
    return " ".join([name] + [str(x) for x in op[1:]])


def reset_line(h):
    if h["target"] == "ice":
        return "ireset %d %d %s %d %d %s %d %d %s" % (
            h["size"], h["headroom"], bit(h["prot"]), h["seed"], h["srclen"], ",".join(map(str, h["ks"])) or "-",
            h.get("metaint", 0), h.get("cut", 0), ",".join(map(str, h.get("metas") or [])) or "-")
    if h["target"] == "buf":
        return "reset %d %d %s" % (h["size"], h["headroom"], bit(h["prot"]))
    return "wreset %s %d %d %s %d %d %s" % (h["target"], h["size"], h["headroom"], bit(h["prot"]), h["seed"],
                                            h["srclen"], ",".join(map(str, h["ks"])) or "-")


# ---------------------------------------------------------------------------------------
# the direct oracle: a reference byte stream (written from the property text only)

class Reference:
    def __init__(self, h):
        self.target = h["target"]
        self.is_buf = h["target"] == "buf"
        self.acc = bytearray() if self.is_buf else None
        self.S = None if self.is_buf else (build_wire(h)[1] if h["target"] == "ice" else pat(h["seed"], 0, h["srclen"]))
        self.cur = 0
        self.after_seek = False
        self.problems = []

    def stream(self):
        return self.acc if self.is_buf else self.S

    def problem(self, kind, i, op, detail):
        self.problems.append((kind, i, op, detail))

    def step(self, i, op, token, data):
        name = op[0]
        if token == "err:Stalled":
            return      # judged at the end of the history: bytes still owed and nothing moves = loss
        if token in ("err:WouldWait", "err:OperationTimeoutError"):
            return      # the consumer merely has to wait / gave up waiting: no bytes were delivered,
                        # the cursor stays where it is and later reads must continue from there
        if token.startswith("err:") and name != "prot":
            self.problem("exception", i, op, "operation raised/returned %s" % token)
            return
        if name in ("add", "addp"):
            d = bytes.fromhex(op[1]) if name == "add" else pat(op[1], op[2], op[3])
            k = int(token[2:])
            if k < 0 or k > len(d):
                self.problem("add-count", i, op, "add() reported %d bytes for %d offered" % (k, len(d)))
                k = max(0, min(k, len(d)))
            self.acc += d[:k]
        elif name in ("get", "read"):
            n = op[1]
            s = self.stream()
            if n >= 0 and len(data) > n:
                self.problem("over-read", i, op, "%d bytes returned for a read of %d" % (len(data), n))
            want = bytes(s[self.cur:self.cur + len(data)])
            if data != want:
                kind = "read-mismatch-after-seek" if self.after_seek else "read-mismatch"
                self.problem(kind, i, op, "read at offset %d returned %s, the stream has %s there"
                             % (self.cur, digest(data), digest(want)))
            self.cur += len(data)
            if data:
                self.after_seek = False
        elif name == "seek":
            ok = (token == "f:1") if token.startswith("f:") else (token == "p:%d" % op[1])
            if ok:
                if op[1] != self.cur:
                    self.after_seek = True
                self.cur = op[1]
        elif name == "seekcur":
            ok = (token == "f:1") if token.startswith("f:") else (token == "p:%d" % (self.cur + op[1]))
            if ok:
                self.cur += op[1]
        # prot / feed: the cursor does not move


def run_history(env, h, want_lines=True):
    """Execute h on the real code (ops, then the drain); returns the executed op list,
    implementation lines, reference problems and event flags."""
    sess = Session(env, h)
    try:
        return _run_history(sess, h)
    finally:
        sess.close()


class _Abandon(Exception):
    """The rest of a history is not executed: a real thread stalled."""


def _run_history(sess, h):
    try:
        return _run_history_inner(sess, h, [], [], set(), Reference(h))
    except _Abandon as a:
        ops_done, lines, flags, ref = a.args
        if not ref.problems:
            owed = len(ref.stream()) - ref.cur
            if owed > 0:
                ref.problem("stalled", len(ops_done) - 1, ops_done[-1],
                            "the stream neither delivers nor signals its end or an error (no progress within %.0f s) "
                            "at offset %d although %d more bytes are owed" % (WATCHDOG, ref.cur, owed))
        return ops_done, lines, ref.problems, flags


def _run_history_inner(sess, h, ops_done, lines, flags, ref):
    seek_seen = False
    ice = h["target"] == "ice"

    def do(op):
        nonlocal seek_seen
        sess.last = b""
        token = sess.apply(op)
        ops_done.append(op)
        lines.append(token + " " + sess.obs())
        ref.step(len(ops_done) - 1, op, token, sess.last if token.startswith("d:") else b"")
        if token == "err:Stalled":
            flags.add("stalled")
            raise _Abandon(ops_done, lines, flags, ref)
        b = sess.buffer
        try:
            if b.remaining == 0:
                flags.add("full")
            if not getattr(b, "_has_headroom_data", True):
                flags.add("discarded")
        except Exception:
            pass
        if op[0] in ("seek", "seekcur"):
            seek_seen = True
            flags.add("seek-ok" if (token == "f:1" or token == "p:%d" % op[1]) else "seek-fail")
        if op[0] in ("read", "get") and token.startswith("d:") and sess.last and seek_seen:
            flags.add("read-after-seek")
        if op[0] == "read" and len(op) > 2:
            flags.add("producer-stall")
        if ice and op[0] in ("fetch", "feed") and token == "f:1" and 0 < len(sess.src.calls) and \
                sess.src.off < len(sess.S) and sess.src.last_len < op[1]:
            flags.add("short-read-mid-stream")
        return token

    for op in h["ops"]:
        do(op)

    # drain: everything still owed must come out, in order, up to the TRUE end of the source
    dn = h.get("drain") or 0
    if dn:
        verb = "get" if h["target"] == "buf" else "read"
        if sess.buffer.protected_headroom:
            tok = do(["seek", 0])
            ok = tok in ("f:1", "p:0")
            if ok:
                do(["prot", 0])
            can = ok and not sess.buffer.protected_headroom
        else:
            can = True
        if can:
            total = len(ref.stream())
            owed0 = total - min(ref.cur, total)
            dn = max(dn, owed0 // 40 + 1) if owed0 > 40 * dn else dn   # keep the drain short (deterministic)
            limit = 2 * owed0 + 8
            if not ice:
                while limit > 0:
                    limit -= 1
                    tok = do([verb, dn])
                    if not tok.startswith("d:") or not sess.last:
                        break
            else:
                # the consumer behaves like the decoder: it reads until read() returns b"" while
                # the stream is flagged as ended; the schedule (is there a consumer read between
                # the downloader's fetch and its store?) is part of the history
                gap, blk, stalls, eof, turn = h.get("gap", 0), h["blk"], 0, False, 0

                def consume():
                    nonlocal eof
                    stopped = sess.stopped()
                    n = dn if stopped else min(dn, len(sess.buffer))
                    if n < 1:
                        return False
                    tok = do(["read", n])
                    if not tok.startswith("d:"):
                        eof = True
                        return False
                    if stopped and not sess.last:
                        eof = True
                    return bool(sess.last)

                while limit > 0 and not eof:
                    limit -= 1
                    turn += 1
                    # progress = the download side took bytes from the response or the consumer
                    # received bytes (a turn that moves nothing is not progress)
                    off0, progress = sess.src.off, False
                    do(["fetch", blk])
                    if gap == 1 or (gap == 2 and turn % 2 == 0):
                        progress = consume() or progress
                    if eof:
                        break
                    do(["store"])
                    progress = consume() or progress or sess.src.off != off0
                    stalls = 0 if progress else stalls + 1
                    if stalls > 2:
                        break
            if not ref.problems:
                owed = len(ref.stream()) - ref.cur
                if owed > 0:
                    kind = "stalled" if ice and not eof else "premature-eof"
                    ref.problem(kind, len(ops_done) - 1, ops_done[-1],
                                "reads dried up at offset %d although %d more bytes are owed%s" % (
                                    ref.cur, owed, " and the end of the stream is never signalled" if kind == "stalled" else ""))
    return ops_done, lines, ref.problems, flags


# ---------------------------------------------------------------------------------------
# generation

def gen_history(rng, thorough, big=False, targets=None, metaint=None):
    target = rng.choice(targets or (["buf", "buf"] + KINDS + ["bio", "srw", "ice"]))
    size, headroom = rng.choice(BIG_SIZES if big else SIZES)
    if rng.chance(0.15) and not big:
        size = rng.randint(1, 40)
        headroom = rng.randint(1, size)
    prot = rng.chance(0.4)
    seed = rng.randint(0, 255)
    srclen = 0 if target == "buf" else rng.choice([0, 1, size - 1, size, size + 1, 2 * size + 3, 3 * size + rng.randint(0, size)])
    nks = rng.choice([0, 4, 64])
    top = rng.choice([0, 2, max(1, headroom), size + 1])
    ks = [rng.choice([0, 0, 1, rng.randint(0, top), 10 ** 6]) for _ in range(nks)]
    maxops = rng.randint(1, 24 if thorough else 12)
    # the download loop can always place a block once the unread data is gone iff
    # BLOCK_SIZE <= buffer - headroom (production: 8192 <= 32768)
    cap = max(1, size - headroom)
    blk = min(cap, rng.choice([1, 2, 3, max(1, cap // 2), cap, 8192]))
    if target == "ice" and metaint:
        # production shape: block 8192, enough audio for a few metadata intervals
        blk = min(cap, 8192)
        srclen = rng.choice([metaint, 2 * metaint + 5, 3 * metaint + rng.randint(0, metaint), rng.randint(1, 40 * metaint)])
    elif target == "ice":
        metaint = rng.choice([0, 0, 0, 1, 2, 3, max(1, blk - 1), blk, blk + 1, 2 * blk + 1, 16, 5 * blk])
    if target == "ice":
        # a turn of the download loop moves at most min(block, interval) bytes: keep histories short
        step = min(blk, metaint) if metaint else blk
        srclen = max(0, min(srclen, 40 * step + rng.randint(0, step)))
        # HTTP bodies: short reads of 1..BLOCK_SIZE-1 bytes mid-stream, sometimes full blocks
        nks = rng.choice([0, 4, 64, 64])
        ks = [rng.choice([rng.randint(0, max(0, blk - 2)), rng.randint(0, max(0, blk - 2)), 0, 10 ** 6])
              for _ in range(nks)]
    extra = {}
    if target == "ice":
        extra = gen_icy(rng, blk, srclen, metaint)
    return dict(extra, **{"target": target, "size": size, "headroom": headroom, "prot": prot, "seed": seed, "srclen": max(0, srclen),
            "ks": ks, "ops": [], "drain": rng.choice([0, 1, 3, headroom, size + 1, size]),
            "blk": blk, "gap": rng.choice([0, 1, 2]), "_maxops": maxops})


def gen_icy(rng, blk, alen, metaint=None):
    """ICY framing of an `ice` history: icy-metaint (0 = plain HTTP), the length bytes of the
    metadata blocks (0 and > 0) and where the response body ends."""
    if not metaint:
        return {"metaint": 0, "metas": [], "cut": 0}
    metas = [rng.choice([0, 0, 0, 1, 1, 2, 3]) for _ in range(rng.choice([1, 3, 5]))]
    h = {"seed": 0, "srclen": alen, "metaint": metaint, "metas": metas}
    full = len(_build_wire(h)[0])
    cut = full if rng.chance(0.6) else rng.randint(0, full)
    return {"metaint": metaint, "metas": metas, "cut": cut}


def pick_size(rng, sess, h):
    b = sess.buffer
    try:
        unread, room, pos = len(b), b.remaining, b.position
    except Exception:
        unread, room, pos = 0, 0, 0
    H, B = h["headroom"], h["size"]
    base = rng.choice([unread, room, H - pos, H, B, 1, 2, 3, rng.randint(0, B + 2), 2 * B])
    n = base + rng.choice([-1, 0, 0, 1])
    return max(0, n)


def pick_seek(rng, sess, h):
    b = sess.buffer
    try:
        pos, stored = b.position, len(getattr(b, "_buffer", b""))
    except Exception:
        pos, stored = 0, 0
    H, B = h["headroom"], h["size"]
    base = rng.choice([0, 0, pos, H, stored, 1, rng.randint(0, B + 2)])
    return max(0, base + rng.choice([-1, 0, 0, 1]))


def gen_op(rng, sess, h, offered):
    t = h["target"]
    r = rng.random()
    if t == "buf":
        if r < 0.34:
            n = pick_size(rng, sess, h)
            if n <= 20 and rng.chance(0.5):
                return ["add", rng.bytes_(n).hex()]
            return ["addp", h["seed"], offered[0], n]
        if r < 0.70:
            return ["get", pick_size(rng, sess, h)]
        if r < 0.92:
            return ["seek", pick_seek(rng, sess, h)]
        return ["prot", rng.choice([0, 1])]
    if t == "ice":
        holding = sess.rig.parked == "lock"
        if holding and r < 0.35:
            return ["store"]
        if r < 0.24:
            return ["feed", h["blk"]]
        if r < 0.38:
            return ["fetch", h["blk"]]
        if r < 0.46:
            return ["store"]
        if r < 0.74:
            n = pick_size(rng, sess, h)
            # the consumer only reads what it does not have to wait for (see IWorld.step)
            return ["read", n if sess.stopped() else min(n, len(sess.buffer))]
        if r < 0.93:
            return ["seek", pick_seek(rng, sess, h)]
        return ["prot", rng.choice([0, 1])]
    if r < 0.60:
        if sess.env.thread is not None and t in ("srw", "ssw") and rng.chance(0.04):
            return ["read", max(1, len(sess.buffer) + rng.randint(1, 3)), "stall"]
        return ["read", -1 if rng.chance(0.08) else pick_size(rng, sess, h)]
    if r < 0.86:
        return ["seek", pick_seek(rng, sess, h)]
    if r < 0.92:
        return ["seekcur", rng.choice([0, 0, 1, 3])]
    return ["prot", rng.choice([0, 1])]


def build_history(env, rng, thorough, big=False, targets=None, metaint=None):
    """Adaptive generation: the next operation looks at the real buffer's state (that is how
    sizes get biased to room±1 etc.); the resulting explicit op list is what is recorded."""
    h = gen_history(rng, thorough, big, targets, metaint)
    maxops = h.pop("_maxops")
    sess = Session(env, h)
    try:
        offered = [0]
        for _ in range(maxops):
            op = gen_op(rng, sess, h, offered)
            if op[0] == "addp":
                offered[0] += op[3]
            h["ops"].append(op)
            sess.apply(op)
    finally:
        sess.close()
    return h


# ---------------------------------------------------------------------------------------

def exhausted():
    """Too many scenarios stalled: start nothing more (the check must end in bounded time)."""
    return BUDGET["stalls"] >= BUDGET["max"]


def build_many(env, rng, n, thorough, **kw):
    out = []
    for _ in range(n):
        if exhausted():
            break
        out.append(build_history(env, rng, thorough, **kw))
    return out


def check_histories(ctx, env, histories, tag):
    """Run histories on the real code, then batch them through the Lean driver."""
    lean_lines, per = [], []
    for h in histories:
        if exhausted():
            break
        ops_done, lines, problems, flags = run_history(env, h)
        per.append((h, ops_done, lines, problems, flags, len(lean_lines)))
        lean_lines.append(reset_line(h))
        lean_lines.extend(model_line(op) for op in ops_done)
    answers = ctx.lean(lean_lines) if lean_lines else []
    for h, ops_done, lines, problems, flags, start in per:
        canon = [h["target"], h["size"], h["headroom"], h["prot"], h["seed"], h["srclen"], h["ks"], h["ops"], h["drain"],
                 h.get("metaint", 0), h.get("metas"), h.get("cut"), h.get("gap"), h.get("blk") if h["target"] == "ice" else 0]
        nontrivial = bool({"read-after-seek", "full", "discarded"} & flags)
        ctx.case(canon, nontrivial, sample={k: h[k] for k in ("target", "size", "headroom", "prot", "srclen", "ops")}
                 if len(h["ops"]) <= 8 else None)
        ctx.note("target:" + h["target"])
        ctx.note("sizes:%d/%d" % (h["size"], h["headroom"]) if h["size"] > 100 else "sizes:small")
        ctx.note("hop:" + tag)
        if h["target"] == "ice":
            ctx.note("ice-schedule:gap%d" % h.get("gap", 0))
            m = h.get("metaint", 0)
            ctx.note("icy-metaint:" + ("none" if not m else str(m) if m >= 8191 or m in (1, 16) else "small"))
        for f in flags:
            ctx.note("event:" + f)
        for op in ops_done:
            ctx.note("op:" + op[0])
        if answers[start] != "ok":
            ctx.disagree(h, "ok", answers[start], where="reset")
        for i, (op, impl) in enumerate(zip(ops_done, lines)):
            model = answers[start + 1 + i]
            ctx.validated()
            if impl != model:
                ctx.disagree({"history": strip(h), "executed": ops_done[:i + 1], "op_index": i}, impl, model,
                             where="%s %s" % (h["target"], op[0]))
                break
        seen = set()
        for kind, i, op, detail in problems:
            if kind in seen:
                continue
            seen.add(kind)
            ctx.fail("%s:%s" % (h["target"], kind), strip(h), detail,
                     "reads return exactly the source bytes at the cursor; successful seeks reposition exactly; "
                     "failed seeks change nothing (property C17)",
                     "operation %d %r of the history: %s" % (i, op, detail))


def strip(h):
    return {k: h[k] for k in ("target", "size", "headroom", "prot", "seed", "srclen", "ks", "ops", "drain", "blk", "gap", "metaint",
                              "metas", "cut")
            if k in h}


# ---------------------------------------------------------------------------------------
# the wrappers as the library itself wires them: BufferedIOBaseSource.open

import concurrent.futures


class _DaemonExecutor(concurrent.futures.ThreadPoolExecutor):
    """Executor whose jobs run in daemon threads: a job blocked for ever in the code under
    test can be abandoned and never keeps the process alive."""

    def __init__(self):
        super().__init__(max_workers=1)

    def submit(self, fn, *args, **kwargs):
        fut = concurrent.futures.Future()

        def work():
            if not fut.set_running_or_notify_cancel():
                return
            try:
                fut.set_result(fn(*args, **kwargs))
            except BaseException as e:      # noqa: handed to the waiter
                fut.set_exception(e)

        threading.Thread(target=work, daemon=True).start()
        return fut

    def shutdown(self, wait=True, **kwargs):
        pass


SCENARIO_WATCHDOG = 12.0


def run_scenario(make_coro):
    """Run an asyncio scenario on its own loop in a daemon thread.  Returns None, an error
    text, or "stalled" when it did not finish within the wall-clock watchdog (it is then
    abandoned; all its threads are daemons)."""
    box = {}

    def work():
        loop = asyncio.new_event_loop()
        loop.set_default_executor(_DaemonExecutor())
        try:
            loop.run_until_complete(make_coro())
        except Exception as e:
            box["error"] = type(e).__name__ + ": " + str(e)[:120]
        finally:
            try:
                loop.close()
            except Exception:
                pass

    t = threading.Thread(target=work, daemon=True)
    t.start()
    t.join(SCENARIO_WATCHDOG)
    if t.is_alive():
        BUDGET["stalls"] += 1
        return "stalled"
    return box.get("error")


class _MiniaudioShim:
    """Stands in for `miniaudio` inside audio_source: an identity "decoder" whose output is
    exactly what it pulls from the StreamableSource it is given."""

    def __init__(self, real, capture, lock):
        self._real, self._capture, self._lock = real, capture, lock
        shim = self

        class WavFileReadStream:
            def __init__(self, source, *a, **k):
                self.source = source

            def read(self, n):
                with shim._lock:
                    data = bytes(self.source.read(n))
                    shim._capture.extend(data)
                    return data

        self.WavFileReadStream = WavFileReadStream

    def stream_any(self, source, **kwargs):
        return source

    def __getattr__(self, name):
        return getattr(self._real, name)


def run_factory(f):
    """One scenario through the real BufferedIOBaseSource.open: the metadata probe performs
    f["probe"] (reads / seeks on the file object the factory hands to get_metadata), the
    factory rewinds and unprotects, the decoder then pulls the stream to its end.
    Returns (probe tokens, bytes the decoder received, error or None)."""
    from pyatv.protocols.raop import audio_source as A
    S = pat(f["seed"], 0, f["srclen"])
    src = ScriptedSource(S, f["ks"])
    capture, lock, tokens = bytearray(), threading.Lock(), []
    saved = {k: getattr(A, k) for k in ("miniaudio", "get_metadata")}

    async def fake_get_metadata(file):
        def probe():
            for op in f["probe"]:
                try:
                    if op[0] == "read":
                        tokens.append("d:" + digest(bytes(file.read(op[1]))))
                    else:
                        tokens.append("p:%d" % file.seek(op[1]))
                except Exception as e:
                    tokens.append("err:" + type(e).__name__)
        await asyncio.get_event_loop().run_in_executor(None, probe)
        return A.EMPTY_METADATA

    async def scenario():
        loop = asyncio.get_event_loop()
        source = FakeRaw(src) if f["kind"] == "file" else make_stream_reader(src, loop)
        inst = await A.BufferedIOBaseSource.open(source, 44100, 2, 2)
        await inst.close()          # its own buffering task has not started yet: we are the consumer
        for _ in range(2 * len(S) // max(1, f["chunk"]) + 64):
            data = await loop.run_in_executor(None, inst.reader.read, f["chunk"])
            if not data:
                break

    A.miniaudio = _MiniaudioShim(saved["miniaudio"], capture, lock)
    A.get_metadata = fake_get_metadata
    try:
        error = run_scenario(scenario)
    finally:
        for k, v in saved.items():
            setattr(A, k, v)
    return list(tokens), bytes(capture), error


def factory_model_lines(f, ndrain):
    from pyatv.protocols.raop import audio_source as A
    kind = "bio" if f["kind"] == "file" else "ssw"
    lines = ["wreset %s %d %d 1 %d %d %s" % (kind, A.BUFFER_SIZE, A.HEADROOM_SIZE, f["seed"], f["srclen"],
                                             ",".join(map(str, f["ks"])) or "-")]
    lines.append("seek 0")                              # get_buffered_io_metadata: buffer.seek(0) != 0 ?
    lines += [model_line(op) for op in f["probe"]]
    lines += ["seek 0", "seek 0", "prot 0", "read 44"]  # finally: seek(0); seek(before); then open() goes on
    lines += ["read %d" % f["chunk"]] * ndrain
    return lines


def gen_factory(rng):
    from pyatv.protocols.raop import audio_source as A
    B, H = A.BUFFER_SIZE, A.HEADROOM_SIZE
    srclen = 44 + 4 * rng.choice([0, 10, 3000, H // 4, H // 4 + 500, B // 4 + 1000, B // 2 + 777])
    probe, pos = [], 0
    for _ in range(rng.randint(0, 7)):
        if rng.chance(0.65):
            n = rng.choice([1, 10, 100, 4096, 8192, H - 1, H, H + 1, 40000, B, B + 5, max(1, H - pos), max(1, H - pos + 1)])
            probe.append(["read", n])
            pos += n
        else:
            p = rng.choice([0, 0, 1, 100, 4096, H - 1, H, pos, max(0, pos - 1)])
            probe.append(["seek", p])
            pos = p
    nks = rng.choice([0, 0, 8, 64])
    ks = [rng.choice([10 ** 6, 10 ** 6, 8191, 4095, rng.randint(0, 20000)]) for _ in range(nks)]
    return {"kind": rng.choice(["file", "stream"]), "seed": rng.randint(0, 255), "srclen": srclen, "ks": ks,
            "probe": probe, "chunk": rng.choice([1056, 1056, 4096, 8192, H, 44])}


FACTORY_WITNESSES = [
    # the probe reads past the headroom (32 KiB) and the factory rewinds: nothing may be lost
    {"kind": "file", "seed": 1, "srclen": 44 + 4 * 20000, "ks": [], "probe": [["read", 40000], ["seek", 100], ["read", 10]],
     "chunk": 1056},
    {"kind": "stream", "seed": 2, "srclen": 44 + 4 * 20000, "ks": [8191] * 8,
     "probe": [["read", 32768], ["read", 1], ["seek", 0], ["read", 70000]], "chunk": 4096},
]


def check_factories(ctx, fs):
    from pyatv.protocols.raop import audio_source as A
    results, lines, starts = [], [], []
    for f in fs:
        if exhausted():
            fs = fs[:len(results)]
            break
        tokens, got, error = run_factory(f)
        ndrain = (len(got) - 44) // max(1, f["chunk"]) + 3 if len(got) >= 44 else 0
        results.append((tokens, got, error, ndrain))
        starts.append(len(lines))
        lines += factory_model_lines(f, ndrain)
    answers = ctx.lean(lines) if lines else []
    for f, (tokens, got, error, ndrain), start in zip(fs, results, starts):
        S = pat(f["seed"], 0, f["srclen"])
        case = dict(f, target="factory")
        past_headroom = sum(op[1] for op in f["probe"] if op[0] == "read") >= A.HEADROOM_SIZE
        ctx.case(["factory", f], past_headroom, sample=case if len(f["probe"]) <= 4 else None)
        ctx.note("target:factory-" + f["kind"])
        if past_headroom:
            ctx.note("event:probe-past-headroom")
        # correspondence: the probe's answers and the decoder's stream against the model
        model_probe = [a.split(" ")[0] for a in answers[start + 2:start + 2 + len(f["probe"])]]
        ctx.validated(len(tokens) + 1)
        if tokens != model_probe:
            ctx.disagree(case, tokens, model_probe, where="factory probe")
        first = start + 2 + len(f["probe"]) + 3
        model_stream = [a.split(" ")[0] for a in answers[first:first + 1 + ndrain]]
        if error is None and model_stream and not model_stream[0].startswith("d:"):
            ctx.disagree(case, "stream", model_stream[:2], where="factory stream")
        # direct oracle: the decoder must receive the whole source, from its first byte
        if error == "stalled":
            if got != S:
                ctx.fail("factory:stalled", case, "no progress within %.0f s after %d of %d bytes" % (SCENARIO_WATCHDOG, len(got), len(S)),
                         "the stream delivers its bytes or signals its end or an error",
                         "after the metadata probe %r the stream stalled: bytes are owed and nothing moves" % (f["probe"],))
        elif error is not None:
            ctx.fail("factory:exception", case, error, "the factory opens the stream and the decoder can read it",
                     "BufferedIOBaseSource.open / reading raised " + error)
        elif got != S:
            n = next((i for i, (a, b) in enumerate(zip(got, S)) if a != b), min(len(got), len(S)))
            kind = "premature-eof" if n == len(got) else "read-mismatch"
            ctx.fail("factory:" + kind, case, "decoder received %d bytes, first difference at offset %d (%s)"
                     % (len(got), n, digest(got[n:n + 8])), "exactly the %d source bytes, in order" % len(S),
                     "after the metadata probe %r the decoder did not receive the source from its first byte" % (f["probe"],))
        # the probe itself also reads the stream: reference cursor over its reads / seeks
        cur = 0
        for op, tok in zip(f["probe"], tokens):
            if op[0] == "seek":
                if tok == "p:%d" % op[1]:
                    cur = op[1]
            elif tok.startswith("d:"):
                pass    # digest only; the byte-level check of probe reads is done by the wrapper histories


def run(ctx, only=None):
    rng = ctx.rng
    BUDGET["stalls"] = 0

    def stop():
        # generation stops once the oracle has failing inputs or scenarios keep stalling
        return bool(ctx.failures) or exhausted()

    env = Env()
    try:
        if only is not None:
            check_histories(ctx, env, only, "sync")
            return
        check_histories(ctx, env, [dict(w) for w in WITNESSES], "sync")
        n = ctx.scale(8000, 80000)
        g = rng.fork("histories")
        while n > 0 and not stop():
            m = min(n, 2000)
            check_histories(ctx, env, build_many(env, g, m, ctx.thorough), "sync")
            n -= m
        if not stop():
            gb = rng.fork("production-sizes")
            check_histories(ctx, env, build_many(env, gb, ctx.scale(16, 60), ctx.thorough, big=True), "sync")
        gi = rng.fork("icy-production")
        for rep in range(ctx.scale(2, 6)):
            for m in (1, 16, 8191, 8192, 8193, 16000, 65536):
                if stop():
                    break
                check_histories(ctx, env, build_many(env, gi, 1, ctx.thorough, big=True, targets=["ice"], metaint=m), "sync")
    finally:
        env.close()
    if stop():
        return
    # the wiring the library itself performs (real loop, real executor threads)
    gf = rng.fork("factory")
    check_factories(ctx, [dict(w) for w in FACTORY_WITNESSES] + [gen_factory(gf) for _ in range(ctx.scale(40, 300))])
    if stop():
        return
    gh = rng.fork("factory-http")
    check_http_factories(ctx, [gen_http_factory(gh) for _ in range(ctx.scale(12, 60))])
    if stop():
        return
    # a sample of stream-reader histories through a real event-loop thread
    env = Env(thread_hop=True)
    try:
        gt = rng.fork("thread-hop")
        hs = [dict(w) for w in STALL_WITNESSES]
        hs += build_many(env, gt, ctx.scale(40, 200), ctx.thorough, targets=["srw", "ssw"])
        check_histories(ctx, env, hs, "thread")
    finally:
        env.close()


def widen(ctx):
    ctx.widened = True
    run(ctx)


class _FastTime:
    """`time` inside audio_source for the free-running HTTP scenarios: polling sleeps are
    shortened, the clock is the real one."""

    def monotonic(self):
        return time.monotonic()

    def sleep(self, _s):
        time.sleep(0.0003)


class _PlainResponse:
    def __init__(self, src, metaint=0):
        self.status_code, self.reason = 200, "OK"
        self.headers = {"icy-metaint": str(metaint)} if metaint else {}
        self.raw = self
        self._src = src

    def read(self, n):
        return self._src.take(n)

    def __enter__(self):
        return self

    def __exit__(self, *a):
        return False


def run_http_factory(f):
    """The real InternetSource.open with its real, free-running download thread (fake
    `requests` response, real lock, shortened polling sleeps): probe, rewind, unprotect,
    then the decoder pulls the stream to its end.  Returns (bytes received, error)."""
    from pyatv.protocols.raop import audio_source as A
    h = {"seed": f["seed"], "srclen": f["srclen"], "metaint": f.get("metaint", 0), "metas": f.get("metas"),
         "cut": f.get("cut")}
    wire, audio = _build_wire(h)
    src = ScriptedSource(wire, f["ks"])
    capture = bytearray()
    saved = {k: getattr(A, k) for k in ("miniaudio", "get_metadata", "requests", "time")}

    async def fake_get_metadata(file):
        def probe():
            for op in f["probe"]:
                if op[0] == "read":
                    file.read(op[1])
                else:
                    file.seek(op[1])
        await asyncio.get_event_loop().run_in_executor(None, probe)
        return A.EMPTY_METADATA

    async def scenario():
        loop = asyncio.get_event_loop()
        inst = await A.InternetSource.open("http://verif.invalid/stream", 44100, 2, 2)
        try:
            for _ in range(2 * len(audio) // max(1, f["chunk"]) + 64):
                data = await loop.run_in_executor(None, inst.source.read, f["chunk"])
                if not data:
                    break
                capture.extend(data)
        finally:
            await inst.close()

    A.miniaudio = _MiniaudioShim(saved["miniaudio"], bytearray(), threading.Lock())
    A.get_metadata = fake_get_metadata
    A.requests = FakeRequests(_PlainResponse(src, h["metaint"]))
    A.time = _FastTime()
    try:
        error = run_scenario(scenario)
    finally:
        for k, v in saved.items():
            setattr(A, k, v)
    return bytes(capture), audio, error


def gen_http_factory(rng):
    srclen = rng.choice([0, 100, 9000, 30000, 70000, 150000])
    probe, pos = [], 0
    limit = min(srclen, 48000)          # what a probing read can wait for without timing out
    for _ in range(rng.randint(0, 6)):
        if rng.chance(0.65) and pos < limit:
            n = rng.choice([1, 10, 4096, 8192, 32768, 40000, limit - pos])
            n = max(1, min(n, limit - pos))
            probe.append(["read", n])
            pos += n
        else:
            pos = rng.choice([0, 0, 1, 4096, pos, max(0, pos - 1)])
            probe.append(["seek", pos])
    metaint = rng.choice([0, 0, 16000, 8192, 1000])
    f = {"kind": "http", "seed": rng.randint(0, 255), "srclen": srclen, "probe": probe, "metaint": metaint,
         "metas": [rng.choice([0, 0, 1, 3]) for _ in range(3)] if metaint else [],
         "ks": [rng.choice([10 ** 6, 8191, 4095, rng.randint(0, 8000)]) for _ in range(rng.choice([0, 8, 64]))],
         "chunk": rng.choice([1056, 4096, 8192, 32768])}
    if metaint:
        f["cut"] = len(_build_wire(dict(f, cut=None))[0])
    return f


def check_http_factories(ctx, fs):
    for f in fs:
        if exhausted() or ctx.failures:
            break
        got, audio, error = run_http_factory(f)
        case = dict(f, target="factory")
        ctx.case(["factory-http", f], bool(f["probe"]), sample=None)
        ctx.note("target:factory-http")
        if error == "stalled":
            if got != audio:
                ctx.fail("factory:stalled", case, "no progress within %.0f s after %d of %d bytes" % (SCENARIO_WATCHDOG, len(got), len(audio)),
                         "the stream delivers its bytes or signals its end or an error",
                         "after the metadata probe %r the HTTP stream stalled: bytes are owed and nothing moves" % (f["probe"],))
        elif error is not None:
            ctx.fail("factory:exception", case, error, "the factory opens the stream and the decoder can read it",
                     "InternetSource.open / reading raised " + error)
        elif got != audio:
            n = next((i for i, (a, b) in enumerate(zip(got, audio)) if a != b), min(len(got), len(audio)))
            kind = "premature-eof" if n == len(got) else "read-mismatch"
            ctx.fail("factory:" + kind, case, "decoder received %d bytes, first difference at offset %d" % (len(got), n),
                     "exactly the %d audio bytes of the response, in order" % len(audio),
                     "after the metadata probe %r the decoder did not receive the HTTP stream from its first byte" % (f["probe"],))


def factory_fails(f):
    if f.get("kind") == "http":
        got, audio, error = run_http_factory(f)
        return error is not None or got != audio
    tokens, got, error = run_factory(f)
    return error is not None or got != pat(f["seed"], 0, f["srclen"])


def replay(ctx, failure):
    if failure["case"].get("target") == "factory":
        return factory_fails(failure["case"])
    c2 = type(ctx)(ctx.prop, ctx.tier, ctx.seed, ctx.driver.driver_rel)
    env = Env()
    try:
        _ops, _lines, problems, _flags = run_history(env, failure["case"])
    finally:
        env.close()
    want = failure["sig"].split(":", 1)[1]
    return any(kind == want for kind, *_ in problems)


def shrink(ctx, failure):
    """Greedy: drop operations / oracle entries while the same kind of failure remains."""
    want = failure["sig"].split(":", 1)[1]
    h = dict(failure["case"])
    if want == "stalled":
        return failure          # every attempt would cost a watchdog period
    if h.get("target") == "factory":
        changed = True
        while changed:      # drop probe operations while the decoder still misses bytes
            changed = False
            for i in range(len(h["probe"])):
                c = dict(h, probe=h["probe"][:i] + h["probe"][i + 1:])
                if factory_fails(c):
                    h, changed = c, True
                    break
        return dict(failure, case=h, what="shrunk: " + failure["what"].split(" the decoder")[0].rsplit("probe", 1)[0]
                    + "probe %r the decoder did not receive the source from its first byte" % (h["probe"],))

    def fails(c):
        env = Env()
        try:
            _o, _l, problems, _f = run_history(env, c)
        except Exception:
            return None
        finally:
            env.close()
        for kind, i, op, detail in problems:
            if kind == want:
                return detail
        return None

    if fails(h) is None:
        return failure
    changed = True
    while changed:
        changed = False
        for i in range(len(h["ops"])):
            c = dict(h, ops=h["ops"][:i] + h["ops"][i + 1:])
            if fails(c) is not None:
                h, changed = c, True
                break
        if not changed and h["ks"]:
            c = dict(h, ks=[])
            if fails(c) is not None:
                h, changed = c, True
    detail = fails(h)
    return dict(failure, case=h, observed=detail, what="shrunk history: " + detail)
