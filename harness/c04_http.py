"""C04 / HTTP-RTSP — correspondence + direct oracle for the message codec of pyatv/support/http.py.

Real code driven in-process: format_request, format_response, _format_message, parse_request,
parse_response (and through them _parse_http_message / _key_value).

Inputs, all from ctx.rng:
  req / resp   a message value -> real encoder bytes == model bytes; real decoder == model decoder on
               encoder output followed by arbitrary further bytes
  variant      the same value written by an independent reference formatter (other header order,
               other spelling of header names) -> real decoder == model decoder == the value
  cut          encoder output cut inside the body, and two messages back to back
  malformed    byte-level damage (": " removed, start line broken, Content-Length damaged, CRLF lost)
               -> error class / result of real decoder == model decoder
The oracle (real code only): decode(encode(x)) == x with typed comparison, reference decoder on the
real encoder's bytes, real decoder on the reference encoder's bytes, incomplete messages are not
consumed.
"""
PROPS_FILES = ["PyatvModel/Props/C04Http.lean"]
LEAN_TARGETS = ["PyatvModel.Props.C04Http", "PyatvModel.C04.Http.Driver"]
DRIVER = "Driver/C04Http.lean"
RULE = ("http: requests and responses over RTSP/HTTP method, path, protocol, version alphabets; 0..6 headers with "
        "values containing ':' and ': ', blanks, non-ASCII text, names in several spellings (incl. user-agent / server / "
        "content-type given by the caller, names containing ':'); bodies empty, 1 byte, text, non-UTF-8, containing "
        "CRLFCRLF, 255/256/1000 bytes, as str and as bytes; arbitrary bytes after the message. non-trivial = body "
        "present or a header value containing ':' or a caller-supplied User-Agent/Server, or a decoder error; "
        "distinct = canonical input")
ASSUMPTIONS = [
    "http: text is compared through its UTF-8 bytes; header names are ASCII (Unicode case folding of other names is a "
    "parameter); a body comes back as str when the Content-Type does not start with 'application' and the bytes are "
    "valid UTF-8, else as bytes - the typed comparison is made where that presentation equals the one handed in, "
    "the byte comparison always",
    "http: dict bodies of format_response (plistlib) are outside the model",
]
TRUSTED = ["harness/c04_http.py reference formatter/parser (RFC 7230 3 / RFC 2326 4: start line, header fields, empty line, body)"]

CRLF = b"\r\n"


# ---------------------------------------------------------------------------------------------
# reference formatter / parser (independent of pyatv)

def ref_format(start, headers, body):
    """start line, header fields in the order given, empty line, body."""
    out = start.encode("utf-8") + CRLF
    for k, v in headers:
        out += k.encode("utf-8") + b": " + v.encode("utf-8") + CRLF
    return out + CRLF + body


class RefIncomplete(Exception):
    pass


def ref_parse(data):
    """-> (start line text, [(name, value)], body bytes, rest); Content-Length decides the body."""
    i = data.find(CRLF + CRLF)
    if i < 0:
        raise RefIncomplete()
    lines = data[:i].decode("utf-8").split("\r\n")
    hdrs = []
    for line in lines[1:]:
        name, _, value = line.partition(":")
        hdrs.append((name, value[1:] if value[:1] == " " else value))
    n = 0
    for k, v in hdrs:
        if k.lower() == "content-length":
            n = int(v)
    body = data[i + 4:]
    if len(body) < n:
        raise RefIncomplete()
    return lines[0], hdrs, body[:n], body[n:]


# ---------------------------------------------------------------------------------------------
# generators

METHODS = ["GET", "POST", "PUT", "OPTIONS", "SETUP", "RECORD", "SET_PARAMETER", "GET_PARAMETER", "ANNOUNCE",
           "FLUSH", "TEARDOWN", "SETRATEANCHORTIME", "X", "_", "A_"]
PATHS = ["/", "*", "/info", "/info?a=b&c=d", "rtsp://192.168.1.2/1234567", "/päth/日本", "/a/b/c", "/x%20y",
         "/stream.m3u8?x=1:2", "/playback-info", "rtsp://[fe80::1]/9", "/a\tb", ":", "//"]
PROTOS = ["HTTP", "RTSP", "RTSP", "HTTP", "X Y", "Ü", "h"]
VERSIONS = ["1.0", "1.1", "1.1", "2", "0", "1.1.1", "..", "10.25"]
MESSAGES = ["OK", "Not Found", "", "Unauthorized", "Método não permitido", "a: b", "  ", "200 OK", "x/y 1 2"]
CODES = [0, 1, 100, 200, 200, 204, 401, 404, 453, 500, 999, 1000, 65536]
KEYS = ["CSeq", "Content-Type", "content-type", "User-Agent", "user-agent", "USER-AGENT", "Server", "server",
        "X-Apple-Session-ID", "Active-Remote", "DACP-ID", "Session", "RTP-Info", "Audio-Latency", "a:b", "a:", ":a",
        "X Y", "", "x", "Accept", "Transport", "X-Apple-ProtocolVersion", "Connection"]
VALUES = ["", "1", "0", "a: b", "x:y", ": ", " leading", "trailing ", "é日本", "application/octet-stream",
          "application/x-apple-binary-plist", "text/plain", "text/parameters", "Application/x", "pyatv/custom",
          "RTP/AVP/UDP;unicast;mode=record;control_port=1;timing_port=2", "seq=1;rtptime=2", "z" * 300]


def gen_headers(rng, legal=True):
    n = rng.choice([0, 0, 1, 2, 3, 4, 6])
    out, seen = [], set()
    for _ in range(n):
        k = rng.choice(KEYS)
        if rng.chance(0.2):
            k = "".join(rng.choice("abcXYZ-09_") for _ in range(rng.randint(1, 8)))
        if legal and (k.lower() in seen or k.lower() == "content-length" or ": " in k):
            continue
        seen.add(k.lower())
        out.append([k, rng.choice(VALUES)])
    if not legal:
        r = rng.random()
        if r < 0.25 and out:
            k, v = rng.choice(out)
            out.append([k.swapcase() if k.swapcase() != k else k + "x", "dup"])     # same name, other case
        elif r < 0.5:
            out.append([rng.choice(["Content-Length", "content-length"]), rng.choice(["0", "3", "12", "x", "-1", " 2", ""])])
        elif r < 0.75:
            out.append(["a: b", "c"])                                                 # name containing ": "
        else:
            out.append(["X-Inj", "a\r\nInjected: 1"])                                 # CRLF in a value
        # plain dicts cannot hold equal keys; keep the last of exactly equal spellings
        d = {}
        for k, v in out:
            d[k] = v
        out = [[k, v] for k, v in d.items()]
    return out


def gen_body(rng):
    r = rng.random()
    if r < 0.22:
        return ["bytes", ""]
    if r < 0.30:
        return ["str", ""]
    if r < 0.50:
        s = rng.choice(["a", "hello", "volume: -20.0\r\n", "é日本 😀", "x" * 255, "y" * 256, "a\r\n\r\nb", "0"])
        return ["str", s.encode("utf-8").hex()]
    if r < 0.70:
        return ["bytes", rng.choice([b"a", b"{}", b"bplist00\xd1\x01\x02", b"text only", b"\r\n\r\n", b"\r\n",
                                     "é".encode()]).hex()]
    n = rng.choice([1, 2, 3, 16, 255, 256, 1000])
    return ["bytes", rng.bytes_(n).hex()]


def gen_tail(rng):
    return rng.choice([b"", b"", b"", b"R", b"GET / HTTP/1.1\r\n", b"\r\n", b"\r\n\r\n", rng.bytes_(rng.randint(1, 9))]).hex()


def gen_req(rng, legal=True):
    return {"kind": "req", "method": rng.choice(METHODS), "path": rng.choice(PATHS), "proto": rng.choice(PROTOS),
            "version": rng.choice(VERSIONS), "headers": gen_headers(rng, legal), "body": gen_body(rng),
            "tail": gen_tail(rng)}


def gen_resp(rng, legal=True):
    return {"kind": "resp", "proto": rng.choice(PROTOS), "version": rng.choice(VERSIONS), "code": rng.choice(CODES),
            "message": rng.choice(MESSAGES), "headers": gen_headers(rng, legal), "body": gen_body(rng),
            "tail": gen_tail(rng)}


def body_value(b):
    raw = bytes.fromhex(b[1])
    return raw.decode("utf-8") if b[0] == "str" else raw


# ---------------------------------------------------------------------------------------------
# real code

def err_class(e):
    if isinstance(e, UnicodeError):
        return "unicode"
    if isinstance(e, IndexError):
        return "index"
    if isinstance(e, ValueError):
        return "value"
    return "other:" + type(e).__name__


def impl_format(http, case):
    try:
        if case["kind"] == "req":
            return bytes(http.format_request(http.HttpRequest(
                case["method"], case["path"], case["proto"], case["version"], dict(map(tuple, case["headers"])),
                body_value(case["body"]))))
        return bytes(http.format_response(http.HttpResponse(
            case["proto"], case["version"], case["code"], case["message"], dict(map(tuple, case["headers"])),
            body_value(case["body"]))))
    except Exception as e:  # noqa: observation
        return "err:" + err_class(e)


def is_utf8(b):
    try:
        b.decode("utf-8")
        return True
    except UnicodeDecodeError:
        return False


def impl_parse(http, kind, data):
    """-> canonical tuple; the body as (bytes hex, 'str'|'bytes')."""
    try:
        msg, rest = (http.parse_request if kind == "req" else http.parse_response)(data)
    except Exception as e:  # noqa: observation
        return ("err:" + err_class(e),)
    if msg is None:
        return ("none", bytes(rest).hex())
    body = msg.body
    btype = "str" if isinstance(body, str) else "bytes" if isinstance(body, (bytes, bytearray)) else type(body).__name__
    raw = body.encode("utf-8") if isinstance(body, str) else bytes(body)
    hdrs = [[k, v] for k, v in msg.headers.items()]
    if kind == "req":
        head = [msg.method, msg.path, msg.protocol, msg.version]
    else:
        head = [msg.protocol, msg.version, msg.code, msg.message]
    if kind == "req":
        types_ok = all(type(x) is str for x in head)
    else:
        types_ok = all(type(x) is str for x in (head[0], head[1], head[3])) and type(head[2]) is int
    return ("ok", head, hdrs, raw.hex(), btype, bytes(rest).hex(), types_ok)


# ---------------------------------------------------------------------------------------------
# model protocol

def hx(b):
    if isinstance(b, str):
        b = b.encode("utf-8")
    return b.hex() if b else "-"


def unhx(w):
    return b"" if w == "-" else bytes.fromhex(w)


def hdrs_word(headers):
    return "|".join(hx(k) + "~" + hx(v) for k, v in headers) if headers else "_"


def fmt_line(case):
    body = bytes.fromhex(case["body"][1])
    if case["kind"] == "req":
        return "fmtreq %s %s %s %s %s %s" % (hx(case["method"]), hx(case["path"]), hx(case["proto"]), hx(case["version"]),
                                           hdrs_word(case["headers"]), hx(body))
    return "fmtresp %s %s %d %s %s %s" % (hx(case["proto"]), hx(case["version"]), case["code"], hx(case["message"]),
                                          hdrs_word(case["headers"]), hx(body))


def model_parse(kind, ans):
    w = ans.split(" ")
    if w[0] == "none":
        return ("none", unhx(w[1]).hex())
    if w[0] != "ok":
        return (w[0],)
    head = [int(x) if (kind == "resp" and i == 2) else unhx(x).decode("utf-8", "replace")
            for i, x in enumerate(w[1:5])]
    hdrs = [] if w[5] == "_" else [[unhx(x).decode("utf-8", "replace") for x in kv.split("~")] for kv in w[5].split("|")]
    body = unhx(w[6])
    btype = "bytes" if w[7] == "app" or not is_utf8(body) else "str"
    return ("ok", head, hdrs, body.hex(), btype, unhx(w[8]).hex(), True)


def header_block_ok(data):
    i = data.find(CRLF + CRLF)
    return i < 0 or is_utf8(data[:i])


# ---------------------------------------------------------------------------------------------
# direct oracle

def expected_extra(http, case):
    names = {k.lower() for k, _ in case["headers"]}
    body = bytes.fromhex(case["body"][1])
    extra = {}
    if case["kind"] == "req" and "user-agent" not in names:
        extra["user-agent"] = http.USER_AGENT
    if case["kind"] == "resp" and "server" not in names:
        extra["server"] = http.SERVER_NAME
    if body:
        extra["content-length"] = str(len(body))
    return extra


def check_value(http, case, got, tail, what):
    """`got` = impl_parse result; compare with the value of `case` (typed)."""
    body = bytes.fromhex(case["body"][1])
    if got[0] != "ok":
        return "decoder answered %r" % (got,)
    _, head, hdrs, raw, btype, rest, types_ok = got
    want_head = ([case["method"], case["path"], case["proto"], case["version"]] if case["kind"] == "req"
                 else [case["proto"], case["version"], case["code"], case["message"]])
    if head != want_head or not types_ok:
        return "start line fields %r, wanted %r" % (head, want_head)
    seen = {}
    for k, v in hdrs:
        if k.lower() in seen:
            return "header %r reported twice" % k
        seen[k.lower()] = v
    want = {k.lower(): v for k, v in case["headers"]}
    want.update(expected_extra(http, case))
    if seen != want:
        return "headers %r, wanted %r" % (seen, want)
    if raw != body.hex():
        return "body %s, wanted %s" % (raw, body.hex())
    ctype = want.get("content-type", "")
    natural = "bytes" if ctype.startswith("application") or not is_utf8(body) else "str"
    if btype != natural:
        return "body presented as %s, documented rule gives %s" % (btype, natural)
    if rest != tail.hex():
        return "rest %s, wanted %s" % (rest, tail.hex())
    return None


def in_domain(case):
    """The Lean domain (ReqOk / RespOk), restated independently."""
    def clean(s):
        return "\r" not in s and "\n" not in s
    names = [k.lower() for k, _ in case["headers"]]
    if len(set(names)) != len(names) or "content-length" in names:
        return False
    if not all(clean(k) and clean(v) and ": " not in k and k.isascii() for k, v in case["headers"]):
        return False
    if not case["version"] or any(c not in "0123456789." for c in case["version"]):
        return False
    if not case["proto"] or "/" in case["proto"] or not clean(case["proto"]):
        return False
    if case["kind"] == "req":
        return bool(case["method"]) and all(c in "ABCDEFGHIJKLMNOPQRSTUVWXYZ_" for c in case["method"]) and bool(
            case["path"]) and " " not in case["path"] and clean(case["path"])
    return clean(case["message"])


def rfc_legal(case):
    """Additionally legal for the reference codec: names are tokens, values without outer blanks."""
    return all(k and all(c.isalnum() or c in "-_" for c in k) and v == v.strip() for k, v in case["headers"]) and (
        case["kind"] == "req" or case["message"] == case["message"].strip()) and " " not in case["proto"]


def oracle_roundtrip(http, case):
    if not in_domain(case):
        return []
    kind, tail = case["kind"], bytes.fromhex(case["tail"])
    data = impl_format(http, case)
    if isinstance(data, str):
        return [("http:%s-format-raises" % kind, data, "bytes", "encoder raised on a message of the domain")]
    out = []
    got = impl_parse(http, kind, data + tail)
    why = check_value(http, case, got, tail, "roundtrip")
    if why:
        out.append(("http:%s-roundtrip" % kind, list(got), "the message, the headers the encoder adds, the rest", why))
    if rfc_legal(case):
        # reference decoder on the real encoder's bytes
        try:
            start, hdrs, body, rest = ref_parse(data + tail)
            want_start = ("%s %s %s/%s" % (case["method"], case["path"], case["proto"], case["version"])
                          if kind == "req" else "%s/%s %d %s" % (case["proto"], case["version"], case["code"], case["message"]))
            want = {k.lower(): v for k, v in case["headers"]}
            want.update(expected_extra(http, case))
            seen = {k.lower(): v for k, v in hdrs}
            ok = (start == want_start and seen == want and len(seen) == len(hdrs)
                  and body == bytes.fromhex(case["body"][1]) and rest == tail)
            obs = [start, hdrs, body.hex(), rest.hex()]
        except (RefIncomplete, ValueError) as e:
            ok, obs = False, repr(e)
        if not ok:
            out.append(("http:%s-ref" % kind, obs, "start line CRLF, name: value CRLF ..., CRLF, Content-Length bytes of body",
                        "the encoder's bytes are not the documented message layout"))
    return out


def make_variant(rng, http, case):
    """Reference formatter: same value, other header order / spelling of names (format-legal)."""
    body = bytes.fromhex(case["body"][1])
    hdrs = [[k, v] for k, v in case["headers"]]
    names = {k.lower() for k, _ in hdrs}
    if body or rng.chance(0.3):
        hdrs.insert(rng.randint(0, len(hdrs)), ["Content-Length", str(len(body))])
    respell = rng.choice([str.lower, str.upper, str.title, lambda s: s])
    wire = [[respell(k), v] for k, v in hdrs]
    rng.shuffle(wire)
    start = ("%s %s %s/%s" % (case["method"], case["path"], case["proto"], case["version"]) if case["kind"] == "req"
             else "%s/%s %d %s" % (case["proto"], case["version"], case["code"], case["message"]))
    return {"kind": "variant", "of": case["kind"], "bytes": (ref_format(start, wire, body) + bytes.fromhex(case["tail"])).hex(),
            "value": dict(case, headers=hdrs), "names": sorted(names)}


def oracle_variant(http, case):
    v = case["value"]
    got = impl_parse(http, case["of"], bytes.fromhex(case["bytes"]))
    tail = bytes.fromhex(v["tail"])
    body = bytes.fromhex(v["body"][1])
    if got[0] != "ok":
        return [("http:variant", list(got), "the message", "a format-legal message is not decoded")]
    _, head, hdrs, raw, btype, rest, _ = got
    want_head = ([v["method"], v["path"], v["proto"], v["version"]] if v["kind"] == "req"
                 else [v["proto"], v["version"], v["code"], v["message"]])
    seen = {k.lower(): x for k, x in hdrs}
    want = {k.lower(): x for k, x in v["headers"]}
    if head != want_head or seen != want or len(seen) != len(hdrs) or raw != body.hex() or rest != tail.hex():
        return [("http:variant", [head, hdrs, raw, rest], [want_head, want, body.hex(), tail.hex()],
                 "a format-legal message (other header order / spelling) is decoded differently")]
    return []


def oracle_cut(http, case):
    """Encoder output cut inside the body must be reported incomplete and left untouched."""
    data = bytes.fromhex(case["bytes"])
    got = impl_parse(http, case["of"], data)
    if got != ("none", data.hex()):
        return [("http:incomplete", list(got), ["none", data.hex()],
                 "a message whose body has not fully arrived must yield (None, the same bytes)")]
    return []


ORACLES = {"req": oracle_roundtrip, "resp": oracle_roundtrip, "variant": oracle_variant, "cut": oracle_cut}


def mutate(rng, data):
    b = bytearray(data)
    r = rng.random()
    if r < 0.2 and b": " in b:
        i = rng.choice([j for j in range(len(b) - 1) if b[j:j + 2] == b": "])
        b[i:i + 2] = rng.choice([b":", b" ", b"", b":  "])
    elif r < 0.4:
        i = b.find(CRLF)
        line = rng.choice([b"", b"GET", b"get / HTTP/1.1", b"GET  / HTTP/1.1", b"GET / HTTP", b"GET / HTTP/x",
                           b"HTTP/1.1 OK", b"HTTP/1.1 200", b"HTTP/1.1 200 ", b"HTTP 200 OK", b"/1.1 200 OK",
                           b"RTSP/1.0 2x0 OK", b"GET /a b HTTP/1.1"])
        b[:max(i, 0)] = line
    elif r < 0.6 and b"Content-Length: " in b:
        i = b.find(b"Content-Length: ") + 16
        j = b.find(CRLF, i)
        b[i:j] = rng.choice([b"", b"x", b"-1", b"1e3", b"0x10", b"99999", b"0", b"007", b"1", b"12a"])
    elif r < 0.75:
        i = rng.randrange(len(b)) if b else 0
        del b[i:i + rng.randint(1, 3)]
    elif r < 0.9:
        i = rng.randrange(len(b) + 1)
        b[i:i] = rng.choice([CRLF, b"\r", b"\n", b": ", CRLF + CRLF, b"\r\n \r\n", b"x"])
    else:
        del b[rng.randrange(len(b) + 1):]
    return bytes(b)


# ---------------------------------------------------------------------------------------------

def run(ctx):
    from pyatv.support import http

    rng = ctx.rng.fork("http")
    lines, checks = [], []

    def ask(line, fn):
        lines.append(line)
        checks.append(fn)

    def compare(case, where, impl, model):
        ctx.validated()
        if impl != model:
            ctx.disagree(case, impl, model, where="http " + where)

    def report(case, problems):
        for sig, observed, required, what in problems:
            ctx.fail(sig, case, observed, required, what)

    def parse_check(case, kind, data, where):
        impl = impl_parse(http, kind, data)
        ctx.note("parse:" + impl[0])

        def chk(a, c=case, impl=impl):
            if a == "err:unmodelled":
                ctx.note("int-unmodelled-skipped")
                return
            if not header_block_ok(data):
                ctx.note("non-utf8-header-block")
                compare(c, where + " (non-UTF-8 header block)", impl[0], "err:unicode")
                return
            compare(c, where, impl, model_parse(kind, a))
        ask(("parsereq " if kind == "req" else "parseresp ") + hx(data), chk)
        return impl

    valid = []
    for i in range(ctx.scale(1500, 15000)):
        legal = rng.chance(0.85)
        case = (gen_req if rng.chance(0.5) else gen_resp)(rng, legal)
        kind = case["kind"]
        body = bytes.fromhex(case["body"][1])
        dom = in_domain(case)
        names = {k.lower() for k, _ in case["headers"]}
        nontrivial = bool(body) or any(":" in v for _, v in case["headers"]) or bool(names & {"user-agent", "server"})
        ctx.case(case, nontrivial, sample=case if nontrivial and len(body) < 40 else None)
        ctx.note("%s:%s" % (kind, "domain" if dom else "outside"))
        ctx.note("body:" + ("empty" if not body else case["body"][0] + (":utf8" if is_utf8(body) else ":binary")))
        ctx.note("headers:%d" % len(case["headers"]))
        if dom:
            ctype = {k.lower(): v for k, v in case["headers"]}.get("content-type", "")
            natural = "bytes" if ctype.startswith("application") or not is_utf8(body) else "str"
            ctx.note("body-presentation:" + ("same-type" if natural == case["body"][0] else "str<->bytes by Content-Type rule"))
        report(case, oracle_roundtrip(http, case))
        data = impl_format(http, case)
        ask(fmt_line(case), lambda a, c=case, d=data: compare(c, "format_%s bytes" % c["kind"],
                                                            d if isinstance(d, str) else hx(d), a))
        if isinstance(data, str):
            continue
        tail = bytes.fromhex(case["tail"])
        parse_check(case, kind, data + tail, "parse_%s on encoder output" % ("request" if kind == "req" else "response"))
        if dom:
            valid.append((kind, data))
            if rfc_legal(case) and rng.chance(0.5):
                var = make_variant(rng, http, case)
                ctx.case(var, True)
                ctx.note("variant")
                report(var, oracle_variant(http, var))
                parse_check(var, kind, bytes.fromhex(var["bytes"]), "parse on reference-formatted variant")
            if body and rng.chance(0.5):
                k = rng.choice([0, min(1, len(body) - 1), len(body) - 1, rng.randrange(len(body))])
                cut = {"kind": "cut", "of": kind, "bytes": data[:len(data) - len(body) + k].hex()}
                ctx.case(cut, True)
                ctx.note("cut")
                report(cut, oracle_cut(http, cut))
                parse_check(cut, kind, bytes.fromhex(cut["bytes"]), "parse on message cut inside the body")

    # _format_message with explicit user agent / content type (HttpConnection.send_and_receive path)
    for _ in range(ctx.scale(200, 2000)):
        c = gen_req(rng, rng.chance(0.85))
        ua = rng.choice([http.USER_AGENT, "AirPlay/550.10", ""])
        ct = rng.choice([None, None, "", "application/x-apple-binary-plist", "text/parameters"])
        protocol = c["proto"] + "/" + c["version"]
        body = body_value(c["body"])
        case = dict(c, kind="fmtmsg", user_agent=ua, content_type=ct)
        ctx.case(case, ct is not None)
        ctx.note("fmtmsg")
        try:
            data = hx(bytes(http._format_message(c["method"], c["path"], protocol, ua, ct,
                                                 dict(map(tuple, c["headers"])), body)))
        except Exception as e:  # noqa
            data = "err:" + err_class(e)
        ask("fmtmsg %s %s %s %s %s %s %s" % (hx(c["method"]), hx(c["path"]), hx(protocol), hx(ua),
                                             "_" if ct is None else hx(ct), hdrs_word(c["headers"]),
                                             hx(bytes.fromhex(c["body"][1]))),
            lambda a, cs=case, d=data: compare(cs, "_format_message bytes", d, a))

    # malformed
    for _ in range(ctx.scale(1500, 15000)):
        if valid and rng.chance(0.92):
            kind, base = rng.choice(valid)
        else:
            kind, base = rng.choice(["req", "resp"]), rng.bytes_(rng.randint(0, 30))
        data = mutate(rng, base)
        if rng.chance(0.2):
            kind = "resp" if kind == "req" else "req"        # a request read as a response and vice versa
        case = {"kind": "bad", "of": kind, "bytes": data.hex()}
        impl = parse_check(case, kind, data, "parse on malformed input")
        ctx.case(case, impl[0] != "ok")

    answers = ctx.lean(lines, driver=DRIVER)
    for a, fn in zip(answers, checks):
        fn(a)


def replay(ctx, failure):
    from pyatv.support import http
    case = failure["case"]
    fn = ORACLES.get(case.get("kind"))
    return bool(fn and fn(http, case))
