"""C04 / DNS — correspondence + direct oracle for pyatv/support/dns.py.

Real code driven in-process: qname_encode (sequence and dotted-string API), parse_domain_name,
DnsQuestion/DnsResource/DnsMessage.pack/unpack (with QueryType.parse_rdata, parse_txt_dict,
parse_srv_dict), format_txt_dict.

Four kinds of input, all from ctx.rng:
  name      labels -> real encoder bytes == model bytes; real decoder == model decoder on them
  cname     a message-like buffer written by the *reference compression encoder* below (names end in
            pointers to earlier names, chains, offsets > 255) -> real decoder == model == expected
  msg       typed message of the domain -> real pack == model pack == RFC 1035 reference bytes;
            real unpack == model unpack == the message (typed comparison)
  variant   format-legal bytes the encoder never emits (compressed names in records and RDATA,
            TXT strings without '=', mixed-case keys, '=x' strings) -> real == model == reference decoder
  malformed byte-level mutations of the above (lengths, counts, pointers, truncation) -> error class
            only, real code under a hard read budget so that a hang is an observation.
The oracle never consults the Lean model: it compares the real code with the original value and with
the reference encoder/decoder in this file (written from RFC 1035 / 2782 / 6763).
"""
import io
import ipaddress
import struct
import unicodedata

PROPS_FILES = ["PyatvModel/Props/C04Dns.lean"]
LEAN_TARGETS = ["PyatvModel.Props.C04Dns", "PyatvModel.C04.Dns.Driver"]
DRIVER = "Driver/C04Dns.lean"
RULE = ("dns: boundary-biased labels (1,62,63 | 64,65,130 bytes; multi-byte code point straddling byte 63; "
        "NFC-changing, CJK, emoji, dotted instance labels), names of 0..5 labels through both qname_encode APIs; "
        "buffers with 2..6 names compressed by a reference encoder (pointer chains, offsets up to 0x3FFF); typed "
        "messages with questions, PTR answers, A/PTR/SRV/TXT/opaque records (TXT strings up to exactly 255 bytes); "
        "format-legal variants; byte mutations. non-trivial = boundary/non-ASCII label, a followed pointer, a typed "
        "record, or a decoder error; distinct = canonical input")
ASSUMPTIONS = [
    "dns: labels are compared at the byte level after the code's own NFC normalisation and UTF-8 encoding "
    "(unicodedata / str.encode are parameters of the model); labels starting with the ACE prefix 'xn--' are "
    "IDNA-decoded by the code on receipt and are outside the stated domain",
    "dns: DnsMessage.pack takes the RDATA of authority/additional records already serialised; the harness serialises "
    "it with the RFC reference layout (as tests/fake_udns.py does)",
    "dns: TXT strings with a key repeated (case-insensitively) are not format-legal (RFC 6763 6.4) and only compared "
    "model vs code",
]
TRUSTED = ["harness/c04_dns.py reference encoder/decoder (RFC 1035 4.1, 3.3.12, 3.3.14; RFC 2782; RFC 6763 6)"]


# ---------------------------------------------------------------------------------------------
# reference encoder / decoder (independent of pyatv)

def nfc(label):
    return unicodedata.normalize("NFC", label).encode("utf-8")


def ref_name(labels):
    out = b""
    for l in labels:
        assert 1 <= len(l) <= 63
        out += bytes([len(l)]) + l
    return out + b"\x00"


def ref_rdata(rd):
    kind = rd[0]
    if kind == "a":
        return bytes.fromhex(rd[1])
    if kind == "n":
        return ref_name([nfc(l) for l in rd[1]])
    if kind == "s":
        return struct.pack(">HHH", rd[1], rd[2], rd[3]) + ref_name([nfc(l) for l in rd[4]])
    if kind == "t":
        out = b""
        for k, v in rd[1]:
            s = bytes.fromhex(k) + b"=" + bytes.fromhex(v)
            assert len(s) <= 255
            out += bytes([len(s)]) + s
        return out
    return bytes.fromhex(rd[1])


def ref_rr(r):
    labels, t, c, ttl, rd = r
    data = ref_rdata(rd)
    return ref_name([nfc(l) for l in labels]) + struct.pack(">HHIH", t, c, ttl, len(data)) + data


def ref_message(m):
    out = struct.pack(">6H", m["id"], m["flags"], len(m["qd"]), len(m["an"]), len(m["ns"]), len(m["ar"]))
    for labels, t, c in m["qd"]:
        out += ref_name([nfc(l) for l in labels]) + struct.pack(">HH", t, c)
    for sec in ("an", "ns", "ar"):
        for r in m[sec]:
            out += ref_rr(r)
    return out


class RefError(Exception):
    pass


def ref_parse_name(msg, pos):
    """RFC 1035 4.1.4 with a jump limit; returns (labels, position after the name's own bytes)."""
    labels, end, jumps = [], None, 0
    while True:
        if pos >= len(msg):
            raise RefError("eof")
        n = msg[pos]
        if n == 0:
            pos += 1
            break
        if n & 0xC0 == 0xC0:
            if pos + 1 >= len(msg):
                raise RefError("eof")
            if end is None:
                end = pos + 2
            pos = ((n & 0x3F) << 8) | msg[pos + 1]
            jumps += 1
            if jumps > len(msg):
                raise RefError("loop")
        elif n & 0xC0 == 0:
            if pos + 1 + n > len(msg):
                raise RefError("eof")
            labels.append(msg[pos + 1:pos + 1 + n])
            pos += 1 + n
        else:
            raise RefError("reserved")
    return labels, (end if end is not None else pos)


def ref_unpack(msg):
    """Reference decoder -> the typed JSON-able form with names as joined text."""
    ident, flags, qd, an, ns, ar = struct.unpack(">6H", msg[:12])
    pos = 12

    def name(p):
        labels, e = ref_parse_name(msg, p)
        return ".".join(l.decode("utf-8") for l in labels), e

    out = {"id": ident, "flags": flags, "qd": [], "an": [], "ns": [], "ar": []}
    for _ in range(qd):
        n, pos = name(pos)
        t, c = struct.unpack(">HH", msg[pos:pos + 4])
        pos += 4
        out["qd"].append([n, t, c])
    for sec, cnt in (("an", an), ("ns", ns), ("ar", ar)):
        for _ in range(cnt):
            n, pos = name(pos)
            t, c, ttl, ln = struct.unpack(">HHIH", msg[pos:pos + 10])
            pos += 10
            data = msg[pos:pos + ln]
            if len(data) != ln:
                raise RefError("eof")
            if t == 1:
                rd = ["a", data.hex()]
            elif t == 12:
                rd = ["n", name(pos)[0]]
            elif t == 33:
                p, w, port = struct.unpack(">HHH", data[:6])
                rd = ["s", p, w, port, name(pos + 6)[0]]
            elif t == 16:
                kvs, q = {}, 0
                while q < ln:
                    s = data[q + 1:q + 1 + data[q]]
                    q += 1 + data[q]
                    if not s or s[:1] == b"=":
                        continue                         # RFC 6763 6.4: ignored
                    k, _, v = s.partition(b"=")
                    kvs.setdefault(k.decode("ascii").lower(), v)
                rd = ["t", [[k.encode().hex(), v.hex()] for k, v in kvs.items()]]
            else:
                rd = ["r", data.hex()]
            pos += ln
            out[sec].append([n, t, c, ttl, ln, rd])
    return out


class Compressor:
    """Reference encoder that compresses names against earlier ones (RFC 1035 4.1.4)."""

    def __init__(self, rng, start=b"", p_use=0.8):
        self.buf = bytearray(start)
        self.table = {}
        self.rng = rng
        self.p_use = p_use
        self.pointers = 0

    def name(self, labels):
        for i in range(len(labels)):
            key = tuple(labels[i:])
            off = self.table.get(key)
            if off is not None and self.rng.chance(self.p_use):
                self.buf += bytes([0xC0 | (off >> 8), off & 0xFF])
                self.pointers += 1
                return
            if len(self.buf) < 0x4000:
                self.table.setdefault(key, len(self.buf))
            self.buf += bytes([len(labels[i])]) + labels[i]
        self.buf += b"\x00"


# ---------------------------------------------------------------------------------------------
# generators

ASCII = "abcdefghijklmnopqrstuvwxyzABCDEFGHIJKLMNOPQRSTUVWXYZ0123456789-_ "
NONASCII = ["é", "ü", "ß", "日", "本", "語", "😀", "é", "Å", "ñ", "Ω", " "]
SERVICE = ["_airplay", "_raop", "_companion-link", "_mediaremotetv", "_sleep-proxy", "_device-info", "_touch-able"]


def gen_label(rng, in_domain=True):
    r = rng.random()
    if r < 0.30:
        return "".join(rng.choice(ASCII) for _ in range(rng.randint(1, 12))).strip() or "x"
    if r < 0.55:
        target = rng.choice([1, 2, 61, 62, 63] if in_domain else [64, 65, 66, 100, 130, 255, 300])
        tail = rng.choice(["", "", "é", "日", "😀", "é"])
        tb = len(nfc(tail))
        if tb > target:
            tail, tb = "", 0
        return "".join(rng.choice("abcxyz019-") for _ in range(target - tb)) + tail
    if r < 0.80:
        n = rng.randint(1, 6)
        s = "".join(rng.choice(NONASCII + list("abcXYZ ")) for _ in range(n)).strip() or "é"
        return s
    if r < 0.88:
        return rng.choice(["My.Device", "Living Room (2)", "a.b", "v1.2"])
    if r < 0.94:
        return rng.choice(SERVICE + ["_tcp", "_udp", "local"])
    return rng.choice(["xN--a", "XN--b", "x", "-", "_", "0"])


def label_ok(l):
    b = nfc(l)
    return 1 <= len(b) <= 63 and b[:4] != b"xn--"


def gen_name(rng, in_domain=True):
    r = rng.random()
    if r < 0.25:
        inst = gen_label(rng)
        labels = [inst, rng.choice(SERVICE), rng.choice(["_tcp", "_udp"]), "local"]
        if rng.chance(0.3):
            labels = labels[1:]
    else:
        labels = [gen_label(rng, True) for _ in range(rng.choice([0, 1, 1, 2, 2, 3, 4, 5]))]
    if in_domain:
        labels = [l if label_ok(l) else "d" for l in labels]
    elif labels and rng.chance(0.8):
        i = rng.randrange(len(labels))
        labels[i] = gen_label(rng, False) if rng.chance(0.8) else ""
    return labels


def ref_split(name):
    """What the documentation of qname_encode promises for a dotted string."""
    labels = name.split(".")
    for i in range(len(labels) - 1):
        if labels[i].startswith("_") and labels[i + 1].lower() in ("_tcp", "_udp"):
            inst = ".".join(labels[:i])
            return ([inst] if inst else []) + labels[i:]
    return labels


def api_form(rng, labels):
    """Hand the name over as a dotted string when that denotes the same labels, else as a sequence."""
    if labels and rng.chance(0.5):
        s = ".".join(labels)
        if ref_split(s) == labels and all(labels):
            return "str"
    return "seq"


def api_value(labels, api):
    return ".".join(labels) if api == "str" else list(labels)


def gen_txt(rng):
    n = rng.choice([0, 1, 1, 2, 3, 5, 8])
    out, seen = [], set()
    for _ in range(n):
        k = "".join(rng.choice("abcdefghijklmnopqrstuvwxyz0123456789_-. ") for _ in range(rng.randint(1, 9)))
        if k in seen:
            continue
        seen.add(k)
        room = 255 - len(k) - 1
        vl = rng.choice([0, 0, 1, 2, 5, 17, room - 1, room, room])
        v = rng.bytes_(vl) if rng.chance(0.5) else bytes(rng.choice(b"0123456789abcdef=,: ") for _ in range(vl))
        out.append([k.encode().hex(), v.hex()])
    return out


def gen_rd(rng):
    r = rng.random()
    if r < 0.2:
        return 1, ["a", rng.bytes_(4).hex()]
    if r < 0.4:
        return 12, ["n", gen_name(rng)]
    if r < 0.6:
        b = [0, 1, 255, 256, 7000, 49152, 65535]
        return 33, ["s", rng.choice(b), rng.choice(b), rng.choice(b), gen_name(rng)]
    if r < 0.85:
        return 16, ["t", gen_txt(rng)]
    t = rng.choice([0, 2, 5, 28, 47, 255, 256, 41, 65535])
    return t, ["r", rng.bytes_(rng.choice([0, 1, 4, 16, 40])).hex()]


U16 = [0, 1, 0x00FF, 0x0100, 0x8001, 0x8400, 0x35FF, 0xFFFF]


def gen_msg(rng, small=False):
    cnt = (lambda: rng.choice([0, 1, 1, 2])) if small else (lambda: rng.choice([0, 0, 1, 1, 2, 3, 5]))
    m = {"id": rng.choice(U16), "flags": rng.choice(U16), "qd": [], "an": [], "ns": [], "ar": []}
    for _ in range(cnt()):
        m["qd"].append([gen_name(rng), rng.choice([1, 12, 16, 33, 255, 28]), rng.choice([1, 0x8001, 255])])
    for _ in range(cnt()):
        m["an"].append([gen_name(rng), 12, rng.choice([1, 0x8001]), rng.choice([0, 10, 4500, 2 ** 32 - 1]),
                        ["n", gen_name(rng)]])
    for sec in ("ns", "ar"):
        for _ in range(cnt()):
            t, rd = gen_rd(rng)
            m[sec].append([gen_name(rng), t, rng.choice([1, 0x8001]), rng.choice([0, 120, 4500, 2 ** 32 - 1]), rd])
    return m


# ---------------------------------------------------------------------------------------------
# running the real code

class Budget(Exception):
    pass


class CountingIO(io.BytesIO):
    budget = 10 ** 9

    def __init__(self, data=b"", budget=None):
        super().__init__(data)
        self.reads = 0
        if budget is not None:
            self.budget = budget

    def read(self, *a):
        self.reads += 1
        if self.reads > self.budget:
            raise Budget()
        return super().read(*a)


def err_class(exc):
    if isinstance(exc, Budget):
        return "hang"
    if isinstance(exc, struct.error):
        return "struct"
    if isinstance(exc, AssertionError):
        return "assert"
    if isinstance(exc, UnicodeError):
        return "unicode"
    if isinstance(exc, ValueError):
        return "value"
    return "other:" + type(exc).__name__


def impl_parse_name(dns, msg, pos):
    buf = CountingIO(msg, 2 * len(msg) + 8)
    buf.seek(pos)
    try:
        s = dns.parse_domain_name(buf)
    except Exception as e:  # noqa: observation
        return "err:" + err_class(e), None, None
    return "ok", s, buf.tell()


class _IoShim:
    def __init__(self, budget):
        self._budget = budget

    def BytesIO(self, data=b""):
        return CountingIO(data, self._budget)

    def __getattr__(self, name):
        return getattr(io, name)


def impl_unpack(dns, data):
    n = len(data)
    orig = dns.io
    dns.io = _IoShim((n // 5 + 2) * (6 * n + 40))
    try:
        return "ok", dns.DnsMessage().unpack(data)
    except Exception as e:  # noqa: observation
        return "err:" + err_class(e), None
    finally:
        dns.io = orig


def typed_rd(dns, qtype, rd):
    """Real rd value -> JSON-able typed form (with a type tag per Python type), or a complaint."""
    from pyatv.support.collections import CaseInsensitiveDict
    if isinstance(rd, str) and qtype == 1:
        try:
            return ["a", ipaddress.IPv4Address(rd).packed.hex()]
        except ValueError:
            return ["?", repr(rd)]
    if isinstance(rd, str):
        return ["n", rd]
    if isinstance(rd, CaseInsensitiveDict):
        items = list(rd.items())
        if all(isinstance(k, str) and isinstance(v, bytes) for k, v in items):
            return ["t", [[k.encode("utf-8").hex(), v.hex()] for k, v in items]]
        return ["?", repr(items)]
    if isinstance(rd, dict):
        if set(rd) == {"priority", "weight", "port", "target"} and all(
                type(rd[k]) is int for k in ("priority", "weight", "port")) and isinstance(rd["target"], str):
            return ["s", rd["priority"], rd["weight"], rd["port"], rd["target"]]
        return ["?", repr(rd)]
    if isinstance(rd, (bytes, bytearray)):
        return ["r", bytes(rd).hex()]
    return ["?", repr(rd)]


def typed_msg(dns, msg):
    """Real DnsMessage -> typed form with names as joined text (types checked)."""
    def nm(x):
        return x if isinstance(x, str) else ["?", repr(x)]
    out = {"id": msg.msg_id, "flags": msg.flags, "qd": [], "an": [], "ns": [], "ar": []}
    for q in msg.questions:
        out["qd"].append([nm(q.qname), int(q.qtype), int(q.qclass)])
    for sec, lst in (("an", msg.answers), ("ns", msg.authorities), ("ar", msg.resources)):
        for r in lst:
            out[sec].append([nm(r.qname), int(r.qtype), int(r.qclass), int(r.ttl), int(r.rd_length),
                             typed_rd(dns, int(r.qtype), r.rd)])
    return out


def expected_typed(m):
    """The value a faithful codec must give back for the typed message `m` (labels -> joined NFC text)."""
    def j(labels):
        return ".".join(unicodedata.normalize("NFC", l) for l in labels)

    def rd(x):
        if x[0] == "n":
            return ["n", j(x[1])]
        if x[0] == "s":
            return ["s", x[1], x[2], x[3], j(x[4])]
        if x[0] == "t":
            return ["t", [[k, v] for k, v in x[1]]]
        return list(x)
    out = {"id": m["id"], "flags": m["flags"], "qd": [[j(n), t, c] for n, t, c in m["qd"]], "an": [], "ns": [], "ar": []}
    for sec in ("an", "ns", "ar"):
        for n, t, c, ttl, x in m[sec]:
            out[sec].append([j(n), t, c, ttl, len(ref_rdata(x)), rd(x)])
    return out


def build_real(dns, m, apis):
    msg = dns.DnsMessage(m["id"], m["flags"])
    it = iter(apis)
    for n, t, c in m["qd"]:
        msg.questions.append(dns.DnsQuestion(api_value(n, next(it)), t, c))
    for n, t, c, ttl, rd in m["an"]:
        msg.answers.append(dns.DnsResource(api_value(n, next(it)), t, c, ttl, 0, api_value(rd[1], next(it))))
    for sec, lst in (("ns", msg.authorities), ("ar", msg.resources)):
        for n, t, c, ttl, rd in m[sec]:
            data = ref_rdata(rd)
            lst.append(dns.DnsResource(api_value(n, next(it)), t, c, ttl, len(data), data))
    return msg


def n_apis(m):
    return len(m["qd"]) + 2 * len(m["an"]) + len(m["ns"]) + len(m["ar"])


# ---------------------------------------------------------------------------------------------
# model protocol helpers

def hx(b):
    return b.hex() if b else "-"


def name_word(labels_bytes):
    return ",".join(hx(l) for l in labels_bytes) if labels_bytes else "."


def parse_name_word(w):
    if w == ".":
        return []
    return [b"" if x == "-" else bytes.fromhex(x) for x in w.split(",")]


def model_joined(w):
    return b".".join(parse_name_word(w)).decode("utf-8")


def pack_line(m):
    def nb(labels):
        return name_word([nfc(l) for l in labels])

    def sec(recs):
        return ";".join(recs) if recs else "_"
    qd = sec([f"{nb(n)}:{t}:{c}" for n, t, c in m["qd"]])
    an = sec([f"{nb(n)}:{t}:{c}:{ttl}:{nb(rd[1])}" for n, t, c, ttl, rd in m["an"]])
    ns = sec([f"{nb(n)}:{t}:{c}:{ttl}:{hx(ref_rdata(rd))}" for n, t, c, ttl, rd in m["ns"]])
    ar = sec([f"{nb(n)}:{t}:{c}:{ttl}:{hx(ref_rdata(rd))}" for n, t, c, ttl, rd in m["ar"]])
    return f"pack {m['id']} {m['flags']} {qd} {an} {ns} {ar}"


def parse_model_msg(ans):
    """`ok id flags QD AN NS AR` -> typed form with joined names."""
    w = ans.split(" ")
    if w[0] != "ok":
        return ans, None

    def unhex(x):
        return "" if x == "-" else x

    def rd(s):
        k, v = s[0], s[2:]
        if k == "a" or k == "r":
            return [k, unhex(v)]
        if k == "n":
            return ["n", model_joined(v)]
        if k == "s":
            p, wt, port, nm = v.split("/")
            return ["s", int(p), int(wt), int(port), model_joined(nm)]
        if v == ".":
            return ["t", []]
        return ["t", [[unhex(x) for x in kv.split("~")] for kv in v.split("|")]]

    out = {"id": int(w[1]), "flags": int(w[2]), "qd": [], "an": [], "ns": [], "ar": []}
    if w[3] != "_":
        for r in w[3].split(";"):
            n, t, c = r.split(":")
            out["qd"].append([model_joined(n), int(t), int(c)])
    for sec, word in (("an", w[4]), ("ns", w[5]), ("ar", w[6])):
        if word == "_":
            continue
        for r in word.split(";"):
            n, t, c, ttl, ln, x = r.split(":")
            out[sec].append([model_joined(n), int(t), int(c), int(ttl), int(ln), rd(x)])
    return "ok", out


# ---------------------------------------------------------------------------------------------
# the direct oracle (real code only)

def oracle_name(dns, case):
    """case: labels (text), api, pre, post (hex).  Returns [(sig, observed, required, what)]."""
    labels, api = case["labels"], case["api"]
    pre, post = bytes.fromhex(case["pre"]), bytes.fromhex(case["post"])
    want = [nfc(l) for l in labels]
    out = []
    try:
        enc = bytes(dns.qname_encode(api_value(labels, api)))
    except Exception as e:  # noqa
        return [("dns:name-encode-raises", repr(e), "bytes", "qname_encode raised on a legal name")]
    in_domain = all(1 <= len(b) <= 63 and b[:4] != b"xn--" for b in want)
    # format: whatever the input, the bytes must be a legal uncompressed name whose labels are
    # (truncated) prefixes of the given labels
    try:
        got, end = ref_parse_name(enc, 0)
        cut = want[:want.index(b"")] if b"" in want else want
        fine = end == len(enc) and len(got) == len(cut) and all(
            len(g) <= 63 and w.startswith(g) and (g == w or len(w) > 63) for g, w in zip(got, cut))
    except RefError as e:
        got, fine = repr(e), False
    if not fine:
        out.append(("dns:name-format", enc.hex(), "length-prefixed labels of <= 63 bytes + root label",
                    "qname_encode output is not a legal RFC 1035 name for the given labels"))
    if not in_domain:
        return out
    if enc != ref_name(want):
        out.append(("dns:name-ref", enc.hex(), ref_name(want).hex(), "qname_encode differs from the RFC 1035 layout"))
    st, s, tell = impl_parse_name(dns, pre + enc + post, len(pre))
    expect = ".".join(unicodedata.normalize("NFC", l) for l in labels)
    if st != "ok" or type(s) is not str or s != expect or tell != len(pre) + len(enc):
        out.append(("dns:name-roundtrip", [st, s, tell], ["ok", expect, len(pre) + len(enc)],
                    "parse_domain_name(qname_encode(name)) is not the name / leaves the stream elsewhere"))
    return out


def oracle_cname(dns, case):
    msg = bytes.fromhex(case["msg"])
    out = []
    for off, labels, end in case["names"]:
        expect = ".".join(bytes.fromhex(l).decode("utf-8") for l in labels)
        st, s, tell = impl_parse_name(dns, msg, off)
        if st != "ok" or s != expect or tell != end:
            out.append(("dns:name-pointer", [off, st, s, tell], [off, "ok", expect, end],
                        "a well-formed compressed name is not decoded to its labels"))
            break
    return out


def oracle_msg(dns, case):
    m, apis = case["m"], case["apis"]
    out = []
    try:
        data = bytes(build_real(dns, m, apis).pack())
    except Exception as e:  # noqa
        return [("dns:msg-pack-raises", repr(e), "bytes", "DnsMessage.pack raised on a message of the domain")]
    ref = ref_message(m)
    if data != ref:
        out.append(("dns:msg-ref", data.hex(), ref.hex(), "DnsMessage.pack differs from the RFC 1035 layout"))
    st, msg = impl_unpack(dns, data)
    got = typed_msg(dns, msg) if st == "ok" else st
    want = expected_typed(m)
    if got != want:
        out.append(("dns:msg-roundtrip", got, want, "DnsMessage.unpack(pack(m)) is not m (typed comparison)"))
    return out


def oracle_variant(dns, case):
    data = bytes.fromhex(case["bytes"])
    st, msg = impl_unpack(dns, data)
    got = typed_msg(dns, msg) if st == "ok" else st
    if got != case["expect"]:
        return [("dns:msg-variant", got, case["expect"],
                 "a format-legal message (compression / TXT forms the encoder never emits) is decoded differently "
                 "from the reference decoder")]
    return []


def oracle_txt(dns, case):
    """format_txt_dict / parse_txt_dict round trip (the library's own TXT encoder)."""
    kvs = [(bytes.fromhex(k).decode(), bytes.fromhex(v)) for k, v in case["kvs"]]
    try:
        data = dns.format_txt_dict({k: v for k, v in kvs})
    except Exception as e:  # noqa
        return [("dns:txt-format-raises", repr(e), "bytes", "format_txt_dict raised")]
    out = []
    ref = ref_rdata(["t", case["kvs"]])
    if bytes(data) != ref:
        out.append(("dns:txt-ref", bytes(data).hex(), ref.hex(), "format_txt_dict differs from RFC 6763 6"))
    try:
        d = dns.parse_txt_dict(io.BytesIO(data), len(data))
        got = [[k, v.hex(), type(v).__name__] for k, v in d.items()]
    except Exception as e:  # noqa
        got = "err:" + err_class(e)
    want = [[k.lower(), v.hex(), "bytes"] for k, v in kvs]
    if got != want:
        out.append(("dns:txt-roundtrip", got, want, "parse_txt_dict(format_txt_dict(d)) is not d"))
    return out


ORACLES = {"name": oracle_name, "cname": oracle_cname, "msg": oracle_msg, "variant": oracle_variant,
           "txt": oracle_txt}


# ---------------------------------------------------------------------------------------------
# case construction

def make_cname(rng):
    start = rng.bytes_(rng.choice([0, 12, 12, 200, 256, 300, 1000, 0x3F00]))
    comp = Compressor(rng, start)
    names, base = [], None
    k = rng.randint(2, 6)
    for i in range(k):
        if base is not None and rng.chance(0.7):
            keep = rng.randint(0, len(base))
            labels = [gen_label(rng) for _ in range(rng.choice([0, 1, 1, 2]))] + base[len(base) - keep:]
        else:
            labels = gen_name(rng)
        labels = [l if label_ok(l) else "d" for l in labels]
        base = labels
        off = len(comp.buf)
        lb = [nfc(l) for l in labels]
        comp.name(lb)
        names.append([off, [l.hex() for l in lb], len(comp.buf)])
        comp.buf += rng.bytes_(rng.choice([0, 0, 4, 10]))
    return {"kind": "cname", "msg": bytes(comp.buf).hex(), "names": names, "pointers": comp.pointers}


def make_variant(rng):
    """Reference-encoded message with compression everywhere and legal TXT variations."""
    m = gen_msg(rng, small=rng.chance(0.5))
    comp = Compressor(rng, b"", p_use=0.9)
    comp.buf += struct.pack(">6H", m["id"], m["flags"], len(m["qd"]), len(m["an"]), len(m["ns"]), len(m["ar"]))
    exp = expected_typed(m)
    for n, t, c in m["qd"]:
        comp.name([nfc(l) for l in n])
        comp.buf += struct.pack(">HH", t, c)
    for sec in ("an", "ns", "ar"):
        for i, (n, t, c, ttl, rd) in enumerate(m[sec]):
            comp.name([nfc(l) for l in n])
            hdr = len(comp.buf)
            comp.buf += struct.pack(">HHIH", t, c, ttl, 0)
            start = len(comp.buf)
            if rd[0] == "n":
                comp.name([nfc(l) for l in rd[1]])
            elif rd[0] == "s":
                comp.buf += struct.pack(">HHH", rd[1], rd[2], rd[3])
                comp.name([nfc(l) for l in rd[4]])
            elif rd[0] == "t":
                kvs = []
                for k, v in rd[1]:
                    kb, vb = bytes.fromhex(k), bytes.fromhex(v)
                    r = rng.random()
                    if r < 0.25:
                        kb = bytes(ch - 32 if 97 <= ch <= 122 and rng.chance(0.5) else ch for ch in kb)
                    if r > 0.85:
                        s, vb = kb, b""                          # boolean attribute: no '='
                    else:
                        s = kb + b"=" + vb
                    comp.buf += bytes([len(s)]) + s
                    kvs.append([bytes(kb).lower().hex(), vb.hex()])
                    if rng.chance(0.15):
                        junk = b"=" + rng.bytes_(rng.randint(0, 3))  # missing key: ignored
                        comp.buf += bytes([len(junk)]) + junk
                exp[sec][i][5] = ["t", kvs]
            else:
                comp.buf += ref_rdata(rd)
            ln = len(comp.buf) - start
            comp.buf[hdr + 8:hdr + 10] = struct.pack(">H", ln)
            exp[sec][i][4] = ln
    data = bytes(comp.buf)
    return {"kind": "variant", "bytes": data.hex(), "expect": exp, "pointers": comp.pointers}


STRUCT_BYTES = [0, 1, 2, 3, 4, 5, 12, 16, 33, 0x3F, 0x40, 0x41, 0x7F, 0x80, 0xBF, 0xC0, 0xC1, 0xFF]


def mutate(rng, data):
    b = bytearray(data)
    for _ in range(rng.choice([1, 1, 1, 2, 3])):
        r = rng.random()
        if not b:
            b += rng.bytes_(rng.randint(1, 4))
        elif r < 0.35:
            b[rng.randrange(len(b))] = rng.choice(STRUCT_BYTES)
        elif r < 0.50:
            del b[rng.randrange(len(b)):]
        elif r < 0.65:
            i = rng.randrange(len(b))
            t = rng.choice([i, max(i - 1, 0), min(i + 2, 0x3FFF), rng.randrange(len(b)), 12, 0])
            b[i:i + 2] = bytes([0xC0 | (t >> 8), t & 0xFF])
        elif r < 0.80 and len(b) >= 12:
            i = rng.choice([4, 6, 8, 10])
            b[i:i + 2] = struct.pack(">H", rng.choice([0, 1, 2, 3, 7, 0xFFFF]))
        elif r < 0.90:
            i = rng.randrange(len(b))
            b[i] = (b[i] + rng.choice([1, -1, 2, 128])) % 256
        else:
            i = rng.randrange(len(b))
            b[i:i] = rng.bytes_(rng.randint(1, 3))
    return bytes(b)


# ---------------------------------------------------------------------------------------------

def report(ctx, case, problems):
    for sig, observed, required, what in problems:
        ctx.fail(sig, case, observed, required, what)


def run(ctx):
    import logging
    from pyatv.support import dns

    logging.getLogger("pyatv.support.dns").setLevel(logging.CRITICAL)   # truncation warnings
    rng = ctx.rng.fork("dns")
    lines, checks = [], []          # checks[i](answer) for lines[i]

    def ask(line, fn):
        lines.append(line)
        checks.append(fn)

    def compare(case, where, impl, model):
        ctx.validated()
        if impl != model:
            ctx.disagree(case, impl, model, where="dns " + where)

    # ---- names through the encoder -------------------------------------------------------
    for _ in range(ctx.scale(1200, 12000)):
        dom = rng.chance(0.75)
        labels = gen_name(rng, dom)
        case = {"kind": "name", "labels": labels, "api": api_form(rng, labels),
                "pre": rng.bytes_(rng.choice([0, 0, 3, 12, 40])).hex(), "post": rng.bytes_(rng.choice([0, 0, 1, 5])).hex()}
        want = [nfc(l) for l in labels]
        nontrivial = any(len(b) >= 62 or any(c >= 0x80 for c in b) for b in want)
        ctx.case(case, nontrivial, sample=case if nontrivial else None)
        ctx.note("name:" + ("domain" if dom else "outside"))
        ctx.note("name-api:" + case["api"])
        for b in want:
            ctx.note("label-bytes:%s" % ("0" if not b else "1-61" if len(b) < 62 else str(len(b)) if len(b) <= 65 else ">65"))
        report(ctx, case, oracle_name(dns, case))
        try:
            enc = bytes(dns.qname_encode(api_value(labels, case["api"])))
        except Exception as e:  # noqa
            enc = None
            impl_enc = "err:" + err_class(e)
        if enc is not None:
            impl_enc = hx(enc)
        ask("encname " + name_word(want), lambda a, c=case, i=impl_enc: compare(c, "qname_encode bytes", i, a))
        if enc is not None:
            pre, post = bytes.fromhex(case["pre"]), bytes.fromhex(case["post"])
            buf = pre + enc + post
            st, s, tell = impl_parse_name(dns, buf, len(pre))

            def chk(a, c=case, st=st, s=s, tell=tell):
                w = a.split(" ")
                if w[0] == "err:idna":
                    ctx.note("idna-skipped")
                    return
                model = (w[0], model_joined(w[1]), int(w[2])) if w[0] == "ok" else (w[0], None, None)
                compare(c, "parse_domain_name on encoder output", (st, s, tell), model)
            ask(f"parsename {hx(buf)} {len(pre)}", chk)

    # ---- names with compression pointers (reference encoder) -----------------------------
    valid_buffers = []
    for _ in range(ctx.scale(300, 3000)):
        case = make_cname(rng)
        msg = bytes.fromhex(case["msg"])
        ctx.case(case, case["pointers"] > 0, sample=None)
        ctx.note("cname-pointers:%d" % min(case["pointers"], 4))
        ctx.note("cname-offset:" + ("<256" if len(msg) < 256 else "<0x4000" if len(msg) < 0x4000 else ">=0x4000"))
        report(ctx, case, oracle_cname(dns, case))
        if len(msg) < 400:
            valid_buffers.append((msg, [n[0] for n in case["names"]]))
        for off, labels, end in case["names"]:
            st, s, tell = impl_parse_name(dns, msg, off)

            def chk(a, c=case, off=off, st=st, s=s, tell=tell):
                w = a.split(" ")
                model = (w[0], model_joined(w[1]), int(w[2])) if w[0] == "ok" else (w[0], None, None)
                compare({"kind": "cname", "msg": c["msg"], "offset": off}, "parse_domain_name on compressed name",
                        (st, s, tell), model)
            ask(f"parsename {hx(msg)} {off}", chk)

    # ---- malformed names ------------------------------------------------------------------
    for _ in range(ctx.scale(1200, 12000)):
        if valid_buffers and rng.chance(0.8):
            base, offs = rng.choice(valid_buffers)
        else:
            base, offs = rng.bytes_(rng.randint(0, 24)), [0]
        buf = mutate(rng, base)
        off = rng.choice(offs + [rng.randrange(len(buf) + 2)])
        st, s, tell = impl_parse_name(dns, buf, off)
        case = {"kind": "badname", "msg": buf.hex(), "offset": off}
        ctx.case(case, st != "ok")
        ctx.note("badname:" + st)

        def chk(a, c=case, st=st, s=s, tell=tell):
            w = a.split(" ")
            if w[0] == "err:idna":
                ctx.note("idna-skipped")
                return
            model = (w[0], model_joined(w[1]), int(w[2])) if w[0] == "ok" else (w[0], None, None)
            compare(c, "parse_domain_name on malformed input", (st, s, tell), model)
        ask(f"parsename {hx(buf)} {off}", chk)

    # ---- messages ---------------------------------------------------------------------------
    valid_msgs = []
    for _ in range(ctx.scale(350, 3500)):
        m = gen_msg(rng)
        apis = [api_form(rng, x) for x in ([q[0] for q in m["qd"]] + [y for r in m["an"] for y in (r[0], r[4][1])]
                                           + [r[0] for r in m["ns"]] + [r[0] for r in m["ar"]])]
        # api order must match build_real: qd names, then (name, rd) per answer, then ns, ar
        case = {"kind": "msg", "m": m, "apis": apis}
        nrec = len(m["an"]) + len(m["ns"]) + len(m["ar"])
        ctx.case(case, nrec > 0)
        for sec in ("ns", "ar"):
            for r in m[sec]:
                ctx.note("rdata:" + r[4][0])
                if r[4][0] == "t":
                    for k, v in r[4][1]:
                        ln = len(k) // 2 + 1 + len(v) // 2
                        ctx.note("txt-string:" + ("255" if ln == 255 else "254" if ln == 254 else "<254"))
        report(ctx, case, oracle_msg(dns, case))
        try:
            data = bytes(build_real(dns, m, apis).pack())
            impl_pack = hx(data)
        except Exception as e:  # noqa
            data, impl_pack = None, "err:" + err_class(e)
        ask(pack_line(m), lambda a, c=case, i=impl_pack: compare(c, "DnsMessage.pack bytes", i, a))
        if data is not None:
            if len(data) <= 160:
                valid_msgs.append(data)
            st, msg = impl_unpack(dns, data)
            impl = (st, typed_msg(dns, msg) if st == "ok" else None)
            ask("unpack " + hx(data), lambda a, c=case, i=impl: compare(c, "DnsMessage.unpack on encoder output", i, parse_model_msg(a)))

    # ---- the library's TXT encoder ---------------------------------------------------------
    for _ in range(ctx.scale(150, 1500)):
        case = {"kind": "txt", "kvs": gen_txt(rng)}
        ctx.case(case, bool(case["kvs"]))
        report(ctx, case, oracle_txt(dns, case))

    # ---- format-legal variants -------------------------------------------------------------
    for _ in range(ctx.scale(300, 3000)):
        case = make_variant(rng)
        data = bytes.fromhex(case["bytes"])
        ctx.case(case, case["pointers"] > 0)
        ctx.note("variant-pointers:%d" % min(case["pointers"], 4))
        # the reference decoder must agree with the expectation the generator built (self-check of
        # the harness: a mismatch here is a harness bug, reported as a disagreement, not a violation)
        try:
            if ref_unpack(data) != case["expect"]:
                ctx.disagree(case, "reference decoder", "generator expectation", where="dns harness self-check")
        except (RefError, struct.error, UnicodeError) as e:
            ctx.disagree(case, repr(e), "generator expectation", where="dns harness self-check")
        report(ctx, case, oracle_variant(dns, case))
        if len(data) <= 160:
            valid_msgs.append(data)
        st, msg = impl_unpack(dns, data)
        impl = (st, typed_msg(dns, msg) if st == "ok" else None)
        ask("unpack " + hx(data), lambda a, c=case, i=impl: compare({"kind": "variant", "bytes": c["bytes"]},
            "DnsMessage.unpack on reference-compressed message", i, parse_model_msg(a)))

    # ---- malformed messages ---------------------------------------------------------------
    for _ in range(ctx.scale(1200, 12000)):
        base = rng.choice(valid_msgs) if valid_msgs and rng.chance(0.9) else rng.bytes_(rng.randint(0, 40))
        data = mutate(rng, base)
        st, msg = impl_unpack(dns, data)
        impl = (st, typed_msg(dns, msg) if st == "ok" else None)
        case = {"kind": "badmsg", "bytes": data.hex()}
        ctx.case(case, st != "ok")
        ctx.note("badmsg:" + st)

        def chk(a, c=case, i=impl):
            if a == "err:idna":
                ctx.note("idna-skipped")
                return
            compare(c, "DnsMessage.unpack on malformed input", i, parse_model_msg(a))
        ask("unpack " + hx(data), chk)

    answers = ctx.lean(lines, driver=DRIVER)
    for a, fn in zip(answers, checks):
        fn(a)


def replay(ctx, failure):
    from pyatv.support import dns
    case = failure["case"]
    fn = ORACLES.get(case.get("kind"))
    return bool(fn and fn(dns, case))
