"""C04 / TLV8 — correspondence + direct oracle.

Real code driven: pyatv.auth.hap_tlv8.write_tlv / read_tlv.
Model lines (Driver/C04Tlv8.lean): `w <tag> <hex> …` -> hex;  `r <hex>` -> `ok <tag> <hex> …` | `err:IndexError`.

Case kinds
  enc      a dict (distinct tags 0..255, value lengths biased to 0/1/254/255/256/510/511/765…):
           encoder bytes, decoder on them, round trip, reference encoder
  variant  the same dict written with arbitrary legal fragment sizes (1..255, zero-length
           fragments in between; fragments of one tag adjacent) -> decoder must give the dict
  lenient  fragments of different tags interleaved (decoder leniency; model comparison only)
  bad      truncated / random stream (model comparison: error class or value)
protocols.md only says the pairing data "is TLV8 data according to HAP" (no layout), so the
reference below is written from the HAP specification's TLV8 rules: item = type byte, length
byte, value; values longer than 255 bytes are split into consecutive items of the same type,
every fragment but the last being 255 bytes; a zero-length value is a type byte and length 0.
"""

PROPS_FILES = ["PyatvModel/Props/C04Tlv8.lean"]
LEAN_TARGETS = ["PyatvModel.Props.C04Tlv8", "PyatvModel.C04.Tlv8.Driver"]
DRIVER = "Driver/C04Tlv8.lean"
RULE = ("dicts of 0..5 items, distinct tags (HAP TlvValue members, 0, 255, random; also IntEnum keys), value "
        "lengths drawn from {0,1,2,32,254,255,256,257,509,510,511,765,766,1020,random<=1100} (thorough: up to "
        "60 fragments); re-fragmented legal variants; interleaved variants; truncated and random streams. "
        "non-trivial = some value empty or >= 255 bytes, or a variant/malformed case; distinct = (kind, items / bytes)")
ASSUMPTIONS = [
    "tlv8: read_tlv recurses once per TLV item, so streams with more items than Python's recursion limit "
    "(~990) raise RecursionError; the model recursion is unbounded and generated cases stay below 100 items",
    "tlv8: dict keys are ints (or IntEnum) in 0..255 and values are bytes, as write_tlv's docstring requires",
]
TRUSTED = ["harness/c04_tlv8.py reference TLV8 encoder/decoder (written from the HAP TLV8 rules)"]

LENGTHS = [0, 0, 1, 2, 32, 254, 255, 256, 257, 509, 510, 511, 765, 766, 1020]


def _hex(b):
    return bytes(b).hex() if b else "-"


def _obs(fn, *a):
    try:
        return ("ok", fn(*a))
    except Exception as e:
        return ("err", type(e).__name__)


def ref_enc(items):
    out = bytearray()
    for tag, value in items:
        frags = [value[i:i + 255] for i in range(0, len(value), 255)] or [b""]
        for f in frags:
            out += bytes([tag, len(f)]) + f
    return bytes(out)


def ref_dec(data):
    """HAP reading: consecutive items of one type are one value.  -> list of (tag, value) or None."""
    items, pos, prev = [], 0, None
    while pos < len(data):
        if pos + 2 > len(data) or pos + 2 + data[pos + 1] > len(data):
            return None
        tag, ln = data[pos], data[pos + 1]
        val = data[pos + 2:pos + 2 + ln]
        if prev == tag:
            items[-1] = (tag, items[-1][1] + val)
        else:
            items.append((tag, val))
        prev = tag
        pos += 2 + ln
    return items


def _gen_items(ctx, rng, big=False):
    from pyatv.auth.hap_tlv8 import TlvValue

    known = [int(v) for v in TlvValue]
    n = rng.choice([0, 1, 1, 2, 2, 3, 4, 5])
    tags = []
    while len(tags) < n:
        t = rng.choice([rng.choice(known), rng.choice([0, 255, 254, 1]), rng.randint(0, 255)])
        if t not in tags:
            tags.append(t)
    items = []
    for t in tags:
        ln = rng.choice(LENGTHS + [rng.randint(0, 40), rng.randint(0, 1100)])
        if big and rng.chance(0.02):
            ln = 255 * rng.randint(3, 60) + rng.choice([-1, 0, 1])
        items.append([t, rng.bytes_(ln).hex()])
    return items


def _refragment(rng, items, interleave=False):
    """Legal alternative writing: arbitrary fragment sizes."""
    per_tag = []
    for tag, hx in items:
        value = bytes.fromhex(hx)
        frags, pos = [], 0
        while pos < len(value):
            size = rng.choice([1, 2, 255, 254, rng.randint(1, 255)])
            frags.append(value[pos:pos + size])
            pos += size
            if rng.chance(0.15):
                frags.append(b"")
        if not frags or rng.chance(0.1):
            frags.insert(rng.randint(0, len(frags)), b"")
        per_tag.append([bytes([tag, len(f)]) + f for f in frags])
    if not interleave:
        return b"".join(b"".join(fs) for fs in per_tag)
    out = bytearray()
    queues = [list(fs) for fs in per_tag]
    while any(queues):
        q = rng.choice([q for q in queues if q])
        out += q.pop(0)
    return bytes(out)


def gen_cases(ctx):
    rng = ctx.rng.fork("tlv8")
    cases = [{"kind": "enc", "items": [[1, ""]]},                      # D4 witness
             {"kind": "enc", "items": [[1, ""], [2, "78"]]},
             {"kind": "enc", "items": []},
             {"kind": "enc", "items": [[6, "01"], [3, "ab" * 255]]},
             {"kind": "enc", "items": [[5, "cd" * 256], [255, ""]]},
             {"kind": "enc", "items": [[0, "ef" * 510]]}]
    for _ in range(ctx.scale(300, 2500)):
        cases.append({"kind": "enc", "items": _gen_items(ctx, rng, big=ctx.thorough), "enum": rng.chance(0.3)})
    for _ in range(ctx.scale(150, 1200)):
        items = _gen_items(ctx, rng)
        cases.append({"kind": "variant", "items": items, "data": _refragment(rng, items).hex()})
    for _ in range(ctx.scale(60, 400)):
        items = _gen_items(ctx, rng)
        cases.append({"kind": "lenient", "data": _refragment(rng, items, interleave=True).hex()})
    for _ in range(ctx.scale(150, 1200)):
        if rng.chance(0.7):
            data = ref_enc([(t, bytes.fromhex(h)) for t, h in _gen_items(ctx, rng)])
            data = data[: rng.randint(0, len(data))] if data else data
        else:
            data = rng.bytes_(rng.randint(1, 40))
        cases.append({"kind": "bad", "data": data.hex()})
    return cases


def _typed_items(d):
    """typed canonical dump of a decoded dict, or a description of what is wrong with it"""
    if type(d) is not dict:
        return "not-a-dict:" + type(d).__name__
    out = []
    for k, v in d.items():
        if type(k) is not int or not isinstance(v, (bytes, bytearray)):
            return f"bad-types:{type(k).__name__}/{type(v).__name__}"
        out.append((k, bytes(v)))
    return out


def _mkdict(case):
    from pyatv.auth.hap_tlv8 import TlvValue

    members = {int(v): v for v in TlvValue}
    d = {}
    for t, hx in case["items"]:
        key = members[t] if case.get("enum") and t in members else t
        d[key] = bytes.fromhex(hx)
    return d


def oracle(case):
    from pyatv.auth import hap_tlv8

    out = []
    if case["kind"] == "enc":
        items = [(t, bytes.fromhex(h)) for t, h in case["items"]]
        enc = _obs(hap_tlv8.write_tlv, _mkdict(case))
        if enc[0] != "ok" or not isinstance(enc[1], (bytes, bytearray)):
            return [("tlv8:encode-raises", repr(enc), "bytes", "write_tlv did not return bytes")]
        dec = _obs(hap_tlv8.read_tlv, bytes(enc[1]))
        got = _typed_items(dec[1]) if dec[0] == "ok" else "err:" + dec[1]
        if not (isinstance(got, list) and sorted(got) == sorted(items)):
            cls = "empty-value" if any(v == b"" for _t, v in items) else "nonempty"
            out.append((f"tlv8:roundtrip:{cls}", repr(got)[:300], repr(sorted(items))[:300],
                        "read_tlv(write_tlv(d)) != d"))
        if bytes(enc[1]) != ref_enc(items):
            lens = sorted({len(v) for _t, v in items})
            cls = "empty-value" if 0 in lens else ("multiple-of-255" if any(l and l % 255 == 0 for l in lens) else "other")
            out.append((f"tlv8:ref-encode:{cls}", bytes(enc[1]).hex()[:300], ref_enc(items).hex()[:300],
                        "write_tlv differs from the reference (HAP) encoding"))
    elif case["kind"] == "variant":
        items = [(t, bytes.fromhex(h)) for t, h in case["items"]]
        data = bytes.fromhex(case["data"])
        dec = _obs(hap_tlv8.read_tlv, data)
        got = _typed_items(dec[1]) if dec[0] == "ok" else "err:" + dec[1]
        want = ref_dec(data)
        assert want is not None and sorted(want) == sorted(items), "harness bug: variant is not an encoding of items"
        if not (isinstance(got, list) and sorted(got) == sorted(items)):
            out.append(("tlv8:ref-decode", repr(got)[:300], repr(sorted(items))[:300],
                        "read_tlv differs from the reference decoder on a legally re-fragmented stream"))
    return out


def run(ctx, only=None):
    from pyatv.auth import hap_tlv8

    cases = only if only is not None else gen_cases(ctx)
    lines, plan = [], []
    for c in cases:
        if c["kind"] == "enc":
            enc = _obs(hap_tlv8.write_tlv, _mkdict(c))
            ok = enc[0] == "ok" and isinstance(enc[1], (bytes, bytearray))
            stream = bytes(enc[1]) if ok else ref_enc([(t, bytes.fromhex(h)) for t, h in c["items"]])
            lines.append(" ".join(["w"] + [f"{t} {h or '-'}" for t, h in c["items"]]))
            plan.append((c, enc if ok else ("err", str(enc[1])), stream))
        else:
            stream = bytes.fromhex(c["data"])
            plan.append((c, None, stream))
        lines.append("r " + _hex(stream))
    answers = iter(ctx.lean(lines, driver=DRIVER))
    for c, enc, stream in plan:
        kind = c["kind"]
        ctx.note("tlv8:kind:" + kind)
        if kind == "enc":
            m_enc = next(answers)
            impl = _hex(enc[1]) if enc[0] == "ok" else "err:" + enc[1]
            if impl != m_enc:
                ctx.disagree(_short(c), impl[:400], m_enc[:400], where="tlv8 write_tlv")
            ctx.validated()
            for _t, h in c["items"]:
                ln = len(h) // 2
                ctx.note("tlv8:len:" + ("0" if ln == 0 else "<255" if ln < 255 else "255k" if ln % 255 == 0 else ">255"))
        m_dec = next(answers)
        dec = _obs(hap_tlv8.read_tlv, stream)
        if dec[0] == "ok":
            t = _typed_items(dec[1])
            impl = " ".join(["ok"] + [f"{k} {_hex(v)}" for k, v in t]) if isinstance(t, list) else "err:" + t
        else:
            impl = "err:" + dec[1]
        if impl != m_dec:
            ctx.disagree(_short(c), impl[:400], m_dec[:400], where="tlv8 read_tlv")
        ctx.validated()
        ctx.note("tlv8:dec:" + impl.split(" ")[0])
        nontrivial = kind != "enc" or any(len(h) == 0 or len(h) >= 510 for _t, h in c["items"])
        ctx.case([kind, c.get("items"), c.get("data"), c.get("enum", False)], nontrivial, sample=_short(c))
        for sig, observed, required, what in oracle(c):
            ctx.fail(sig, c, observed, required, what)


def _short(c):
    s = dict(c)
    if "items" in s:
        s["items"] = [[t, h if len(h) <= 24 else f"{h[:16]}…({len(h) // 2} bytes)"] for t, h in s["items"]]
    if "data" in s and len(s["data"]) > 80:
        s["data"] = s["data"][:64] + f"…({len(s['data']) // 2} bytes)"
    return s


def replay(ctx, failure):
    return bool(oracle(failure["case"]))
