"""C08 — pairing is all-or-nothing: exhaustive fault enumeration on the real handlers.

Real code driven (through the public facade `pyatv.pair(...)`, in-process, no sockets):
  MrpPairingHandler, CompanionPairingHandler, AirPlayPairingHandler (HAP and legacy, on an
  AirPlay service and on a RAOP service), DmapPairingHandler — with everything below them
  (procedures in */auth*.py, hap_srp, error_handler, MrpProtocol/CompanionProtocol/
  HttpConnection, the DMAP aiohttp application).

Peers: the repo's own fake devices (tests/fake_device: FakeMrpService, FakeCompanionService,
FakeAirPlayService behind pyatv's BasicHttpServer) connected through an in-memory pipe that
replaces `loop.create_connection` / `loop.create_server` of a virtual-time loop.  The pipe
counts the peer's replies (one `transport.write` of the fake device = one message) and applies
one fault (kind) at one await point (index).  For DMAP the roles are inverted: the handler is
the server and the harness plays the device sending the `/pair` request.

Await points of a handler = connection establishment + every reply the handler waits for.
Model line:  `run <script> <idx|-> <kind|->`  ->  `<outcome> <svc> <settings> <paired>`
             `trace <script>`                ->  comma separated step names
"""
import asyncio
import binascii
import logging
import plistlib

from harness.core import vloop

RULE = ("round 5: error replies with HTTP status 400/401/403/404/405/470/500/503 at every HTTP reply incl. /pair-pin-start; "
        "two handlers alive in one process and one event loop (mrp+mrp, companion+companion, airplay-hap+raop-hap, "
        "mrp+companion; thorough: four more pairs), one honest and one faulty (or both honest), interleaved by start "
        "delays and per-connection latencies (5 profiles), each judged on its own; round 4: every documented HAP error code with/without the BackOff item at every TLV reply (thorough: all 14 for "
        "NN; otherwise the back-off reply and one seed-chosen other); wrong-type containers naming the expected "
        "keys (plist roots, OPACK pairing data / root, TLV as text body); configuration sweep (DMAP pairing guid and "
        "remote name shapes x right code / wrong code / missing field; presented name for the other handlers, "
        "fault-free and wrong PIN); PIN sweep: the compared secret at boundary values (0000, 0001, 9999) and random ones, right PIN (typed as int "
        "and as 4-digit string) and wrong PINs / wrong pairing codes (neighbours, random, junk) for MRP, Companion, "
        "AirPlay-HAP, RAOP-HAP and DMAP (DMAP: all request faults per PIN); "
        "exhaustive: every pairing handler configuration (mrp, companion, companion with stored credentials, "
        "airplay-hap, airplay-legacy, raop-hap, raop-legacy, dmap) x previously stored credentials {none, old} x "
        "every await point (connect + every reply) x every fault kind/variant applicable at that point (error reply, "
        "wrong PIN, dropped reply, garbage frame/body, each required field missing, disconnect), plus the fault-free "
        "run; non-trivial = a fault was injected after at least one successful reply or the run is fault-free; "
        "initial state: (service.credentials, settings credentials) over {none, A, B}^2 - quick tier: NN and AA in "
        "full (mrp, airplay-hap: AA only; raop-hap: NN only), one fault per await point (alternating connection/pairing class) for NA, AN, AB and one seed-chosen "
        "other combination; thorough: all nine in full; malformed VALUES of every inner field (empty, proper prefix, "
        "extended; edited in the sealed plaintext and, for identifier / long-term key, reported consistently by the "
        "device); operation sequences on one handler (pin() twice, finish() after a failed finish(), begin() twice; "
        "DMAP: scripted and random sequences of pin()/request/finish() with boundary PINs); faults inside sealed sub-messages (pair-setup M6, pair-verify M2): each required inner "
        "field missing, empty and garbage plaintext, sealed correctly by the fake device; "
        "distinct = (handler, initial state, index, kind, variant)")
ASSUMPTIONS = [
    "\"pairing or connection error\" = exceptions.PairingError, ConnectionFailedError, ConnectionLostError or a builtin "
    "OSError (ConnectionRefusedError from the unwrapped http_connect in AirPlayPairingHandler.begin, TimeoutError); "
    "any other class (AuthenticationError, KeyError, ...) is reported as escaping",
    "one transport.write of the fake device is one reply message (true for tests/fake_device and BasicHttpServer)",
    "a reply that never arrives is observed through the handlers' own timeouts on a virtual clock",
    "DMAP: only faults on the inbound /pair request are enumerated; loss of the HTTP response after the PIN was "
    "verified cannot be observed by an HTTP server and is outside the enumeration",
    "garbage = undecodable frame / undecodable TLV or plist body; well-formed replies carrying wrong cryptographic "
    "values are the subject of C06, not of this property",
]
TRUSTED = ["in-memory pipe, fault injector and scripted DMAP device of harness/c08.py",
           "tests/fake_device fake accessories of the repository (peer side)"]

KINDS = ["error", "wrongpin", "dropped", "garbage", "missing", "disconnect"]

OLD_HAP_CREDS = None  # filled lazily from pyatv.auth.server_auth.CLIENT_CREDENTIALS
OLD_LEGACY_CREDS = "1122334455667788:" + "ab" * 32
OLD_DMAP_CREDS = "0x0000000000000042"


# ------------------------------------------------------------------------------------------
# in-memory transport
# ------------------------------------------------------------------------------------------
class _Sock:
    def __init__(self, local, remote):
        self._l, self._r = local, remote

    def getsockname(self):
        return self._l

    def getpeername(self):
        return self._r

    def setsockopt(self, *a):
        pass

    def getsockopt(self, *a):
        return 0

    def fileno(self):
        return -1

    family = 2


class PipeTransport(asyncio.Transport):
    def __init__(self, link, side):
        super().__init__()
        self.link = link
        self.side = side
        self.closed = False
        local, remote = ("127.0.0.1", 50000), ("127.0.0.1", link.port)
        if side == "s":
            local, remote = remote, local
        self._extra = {"socket": _Sock(local, remote), "peername": remote, "sockname": local}

    def get_extra_info(self, name, default=None):
        return self._extra.get(name, default)

    def write(self, data):
        if not self.closed:
            self.link.wrote(self.side, bytes(data))

    def writelines(self, seq):
        self.write(b"".join(seq))

    def can_write_eof(self):
        return False

    def is_closing(self):
        return self.closed

    def close(self):
        if not self.closed:
            self.closed = True
            self.link.closed_by(self.side)

    abort = close

    def pause_reading(self):
        pass

    def resume_reading(self):
        pass

    def is_reading(self):
        return True

    def set_write_buffer_limits(self, high=None, low=None):
        pass

    def get_write_buffer_size(self):
        return 0

    def set_protocol(self, protocol):
        self.link.protos[self.side] = protocol

    def get_protocol(self):
        return self.link.protos[self.side]


class Link:
    """Duplex in-memory connection client <-> fake device with one injectable fault on the
    device -> client direction.  `mutate(index, data)` returns bytes to deliver, None (drop),
    or the string "disconnect"."""

    def __init__(self, loop, port, client_proto, server_proto, world):
        self.loop = loop
        self.port = port
        self.world = world
        self.protos = {"c": client_proto, "s": server_proto}
        self.tr = {"c": PipeTransport(self, "c"), "s": PipeTransport(self, "s")}
        self.lost = {"c": False, "s": False}

    def start(self):
        self.protos["s"].connection_made(self.tr["s"])
        self.protos["c"].connection_made(self.tr["c"])

    def _deliver(self, side, data):
        if self.lost[side] or self.tr[side].closed:
            return
        try:
            self.protos[side].data_received(data)
        except Exception as ex:  # asyncio: "Fatal error: protocol.data_received() call failed."
            self.world.events.append("fatal:" + type(ex).__name__)
            self._lose(side, ex)
            other = "s" if side == "c" else "c"
            self.loop.call_soon(self._lose, other, None)

    def _lose(self, side, exc):
        if self.lost[side]:
            return
        self.lost[side] = True
        self.tr[side].closed = True
        try:
            self.protos[side].connection_lost(exc)
        except Exception as ex:
            self.world.events.append("lost-raised:" + type(ex).__name__)

    def wrote(self, side, data):
        if side == "c":
            self.world.on_client_write(self, data)
            self._later(self._deliver, "s", data)
            return
        out = self.world.on_server_write(self, data)
        if out == "disconnect":
            self.disconnect()
        elif out is not None:
            self._later(self._deliver, "c", out)

    def _later(self, fn, *args):
        lat = getattr(self.world, "latency", 0)
        if lat:
            self.loop.call_later(lat, fn, *args)
        else:
            self.loop.call_soon(fn, *args)

    def disconnect(self):
        """The device goes away: both ends see the connection drop."""
        self.loop.call_soon(self._lose, "c", None)
        self.loop.call_soon(self._lose, "s", None)

    def closed_by(self, side):
        other = "s" if side == "c" else "c"
        self.loop.call_soon(self._lose, side, None)
        self.loop.call_soon(self._lose, other, None)


class _FakeServer:
    def __init__(self, loop, port):
        self.sockets = [_Sock(("0.0.0.0", port), ("0.0.0.0", 0))]
        self._loop = loop
        self._port = port

    def close(self):
        self._loop.listeners.pop(self._port, None)

    async def wait_closed(self):
        return None

    def is_serving(self):
        return self._port in self._loop.listeners

    def get_loop(self):
        return self._loop

    async def start_serving(self):
        return None


class PipeLoop(vloop.VirtualLoop):
    """Virtual-time loop without sockets: connections go to registered in-process listeners."""

    def __init__(self, world):
        super().__init__()
        self.world = world
        self.worlds = {}              # port -> World when several exchanges run in one process
        self.listeners = {}

    async def create_connection(self, protocol_factory, host=None, port=None, **kwargs):
        world = self.worlds.get(port, self.world)
        world.events.append("connect")
        if world.refuse_connect or port not in self.listeners:
            raise ConnectionRefusedError(111, "Connect call failed (%r, %r)" % (host, port))
        client = protocol_factory()
        server = self.listeners[port]()
        link = Link(self, port, client, server, world)
        world.links.append(link)
        link.start()
        return link.tr["c"], client

    async def create_server(self, protocol_factory, host=None, port=None, **kwargs):
        self.listeners[port] = protocol_factory
        return _FakeServer(self, port)

    def run_in_executor(self, executor, func, *args):
        fut = self.create_future()
        try:
            fut.set_result(func(*args))
        except Exception as ex:  # pragma: no cover
            fut.set_exception(ex)
        return fut


# ------------------------------------------------------------------------------------------
# reply codecs: decode one device->client message, describe it, re-encode a mutated one
# ------------------------------------------------------------------------------------------
def _tlv_names():
    from pyatv.auth.hap_tlv8 import TlvValue
    return {int(TlvValue.Salt): "salt", int(TlvValue.PublicKey): "pubkey", int(TlvValue.Proof): "proof",
            int(TlvValue.EncryptedData): "encrypted"}


def _required_tlv(phase, seq):
    """Fields the HAP pair-setup / pair-verify replies must carry (HAP specification, the
    same fields pyatv's own *ServerAuth classes send)."""
    from pyatv.auth.hap_tlv8 import TlvValue as T
    table = {("setup", 2): [T.Salt, T.PublicKey], ("setup", 4): [T.Proof], ("setup", 6): [T.EncryptedData],
             ("verify", 2): [T.PublicKey, T.EncryptedData], ("verify", 4): []}
    return [int(x) for x in table.get((phase, seq), [])]


def _garbage_tlv(rng, required):
    """random bytes that the real TLV reader does not turn into a dict with a required field"""
    from pyatv.auth.hap_tlv8 import read_tlv
    for _ in range(100):
        blob = bytes([rng.randrange(0x80, 0x100)]) + rng.bytes_(rng.randrange(5, 40))
        try:
            parsed = read_tlv(blob)
        except Exception:
            return blob
        if not any(k in parsed for k in required + [7]):
            return blob
    return b"\xff"


class Reply:
    """What the injector knows about one reply: its protocol, whether it carries pairing
    TLV data (phase/seq), its required fields."""

    def __init__(self, proto, label, tlv=None, phase=None, fields=(), raw=None):
        self.proto = proto
        self.label = label          # e.g. "mrp:device-info", "setup:m2", "legacy:step1"
        self.tlv = tlv              # dict or None
        self.phase = phase
        self.fields = list(fields)  # names of required fields that can go missing
        self.raw = raw


class MrpCodec:
    name = "mrp"
    wire = True

    def decode(self, data):
        from pyatv.auth.hap_tlv8 import TlvValue, read_tlv
        from pyatv.protocols.mrp import protobuf
        from pyatv.support.variant import read_variant
        length, raw = read_variant(data)
        msg = protobuf.ProtocolMessage()
        msg.ParseFromString(raw[:length])
        if msg.type == protobuf.CRYPTO_PAIRING_MESSAGE:
            tlv = read_tlv(msg.inner().pairingData)
            seq = tlv.get(int(TlvValue.SeqNo), b"\x00")[0]
            phase = self.phase(seq)
            names = _tlv_names()
            return Reply("mrp", f"{phase}:m{seq}", tlv, phase,
                         [names[k] for k in _required_tlv(phase, seq)] + ["pairingdata"], msg)
        return Reply("mrp", "mrp:device-info", None, None, [], msg)

    def __init__(self):
        self._seen6 = False

    def phase(self, seq):
        ph = "verify" if self._seen6 else "setup"
        if seq == 6:
            self._seen6 = True
        return ph

    def encode(self, msg):
        from pyatv.support.variant import write_variant
        data = msg.SerializeToString()
        return write_variant(len(data)) + data

    def with_tlv(self, reply, tlv_bytes):
        reply.raw.inner().pairingData = tlv_bytes
        return self.encode(reply.raw)

    def garbage_frame(self, rng):
        from pyatv.support.variant import write_variant
        blob = b"\xff\xff\xff" + rng.bytes_(rng.randrange(4, 30))
        return write_variant(len(blob)) + blob


class CompanionCodec:
    """Companion replies are mutated at the fake device's `send_to_client(frame_type, dict)`
    (before its optional encryption), so the channel encrypted after a pair-verify with the
    stored credentials is covered as well.  A mutated reply is ("frame", frame_type, dict) or
    ("raw", bytes)."""
    name = "companion"
    wire = False

    def describe(self, ftype, payload):
        from pyatv.auth.hap_tlv8 import TlvValue, read_tlv
        from pyatv.protocols.companion.connection import FrameType
        tlv = read_tlv(payload["_pd"])
        seq = tlv.get(int(TlvValue.SeqNo), b"\x00")[0]
        phase = "verify" if ftype in (FrameType.PV_Start, FrameType.PV_Next) else "setup"
        names = _tlv_names()
        return Reply("companion", f"{phase}:m{seq}", tlv, phase,
                     [names[k] for k in _required_tlv(phase, seq)] + ["pairingdata"], (ftype, payload))

    def with_tlv(self, reply, tlv_bytes):
        ftype, payload = reply.raw
        payload = dict(payload)
        if tlv_bytes:
            payload["_pd"] = tlv_bytes
        else:
            payload.pop("_pd", None)
        return ("frame", ftype, payload)

    def garbage_frame(self, rng):
        blob = b"\xff\xfe" + rng.bytes_(rng.randrange(4, 30))
        return ("raw", bytes([4]) + len(blob).to_bytes(3, "big") + blob)


class HttpCodec:
    """AirPlay/RAOP: HAP (TLV body) and legacy (binary plist body) over HTTP."""
    name = "http"
    wire = True

    def __init__(self):
        self.n = 0

    def decode(self, data):
        from pyatv.auth.hap_tlv8 import TlvValue, read_tlv
        from pyatv.support.http import parse_response
        resp, _rest = parse_response(data)
        self.n += 1
        body = resp.body if isinstance(resp.body, bytes) else (resp.body or "").encode()
        ctype = ""
        if body[:6] == b"bplist":
            plist = plistlib.loads(body)
            label = "legacy:" + "+".join(sorted(plist))
            return Reply("http", label, None, "plist", sorted(plist), (resp, plist))
        if body and resp.code == 200:
            tlv = read_tlv(body)
            seq = tlv.get(int(TlvValue.SeqNo), b"\x00")[0]
            names = _tlv_names()
            return Reply("http", f"setup:m{seq}", tlv, "setup",
                         [names[k] for k in _required_tlv("setup", seq)], (resp, None))
        return Reply("http", "http:empty-%d" % resp.code, None, None, [], (resp, None))

    def encode(self, resp, code=None, body=None):
        from pyatv.support.http import HttpResponse, format_response
        headers = {k: v for k, v in dict(resp.headers).items() if k.lower() != "content-length"}
        new = HttpResponse(resp.protocol, resp.version, code or resp.code,
                           resp.message if code is None else "Injected", headers,
                           resp.body if body is None else body)
        return format_response(new)

    def with_tlv(self, reply, tlv_bytes):
        return self.encode(reply.raw[0], body=tlv_bytes if tlv_bytes else b"")

    def garbage_frame(self, rng):
        return b"\x00\xff" + rng.bytes_(rng.randrange(4, 30)).replace(b"\r", b"?") + b"\r\n\r\n"


def variants_for(reply, is_proof_reply):
    """(kind, variant) pairs applicable to a reply."""
    out = [("dropped", "-"), ("disconnect", "-"), ("garbage", "frame")]
    if reply.tlv is not None:
        out += [("error", "tlv"), ("garbage", "tlv")]
        out += [("missing", f) for f in reply.fields]
        # every documented HAP error code, alone and with the BackOff (retry delay) item next to it
        for code in ERROR_CODES:
            out += [("error", "tlv:%s" % code), ("error", "tlv:%s+backoff" % code)]
    if reply.proto == "companion" and reply.tlv is not None:
        # well-formed OPACK of the wrong type where the pairing data / the message dict should be
        out += [("garbage", "pd:str"), ("garbage", "pd:int"), ("garbage", "pd:array"), ("garbage", "root:array")]
    if reply.proto == "http":
        out += [("error", "http%d" % c) for c in HTTP_ERROR_CODES]     # http500 first
        if reply.tlv is not None:
            out.append(("garbage", "body:text"))      # the TLV delivered as a text body
        if reply.phase == "plist":
            out.append(("garbage", "body"))
            out += [("missing", f) for f in reply.fields]
            # well-formed binary plists whose ROOT is not a dict but names the expected keys
            out += [("garbage", "root:" + t) for t in ("str", "array", "int", "data", "nested")]
    if is_proof_reply:
        out.append(("wrongpin", "-"))
    for field in INNER_FIELDS.get(reply.label, []):
        out.append(("missing", "inner:" + field))
    if reply.label in INNER_FIELDS:
        out += [("missing", "inner:all"), ("garbage", "inner")]
    # malformed VALUES of the inner fields: empty, truncated (proper prefix), extended.  "inner:" =
    # only the sealed plaintext is edited (the signature inside is stale); "device:" = the fake
    # device itself reports the malformed identifier / public key, so everything it signs and
    # seals is consistent with it.  (A different well-formed value is C06's subject, not a fault.)
    for field in INNER_FIELDS.get(reply.label, []):
        for shape in SHAPES:
            out.append(("garbage", "inner:%s=%s" % (field, shape)))
            if field == "signature":
                continue
            if reply.label == "setup:m6" and field == "identifier" and shape != "empty":
                continue    # a device consistently using another non-empty name is another identity, no fault
            out.append(("garbage", "device:%s=%s" % (field, shape)))
    return out


SHAPES = ["empty", "prefix", "extended"]
HTTP_ERROR_CODES = [500, 400, 401, 403, 404, 405, 470, 503]


def is_status_variant(kind, variant):
    return kind == "error" and str(variant).startswith("http") and variant != "http500"
ERROR_CODES = ["Unknown", "Authentication", "BackOff", "MaxPeers", "MaxTries", "Unavailable", "Busy"]


def is_code_variant(kind, variant):
    return kind == "error" and str(variant).startswith("tlv:")


def is_value_variant(variant):
    return "=" in str(variant)


def reshape(value, shape, rng):
    value = bytes(value)
    if shape == "empty":
        return b""
    if shape == "prefix":
        return value[: max(1, len(value) // 2)] if len(value) > 1 else b""
    return value + rng.bytes_(rng.randrange(1, 5))


# Replies whose EncryptedData is a sealed sub-TLV, the fields the HAP specification requires
# inside it, and the nonce the device seals it with (pair-setup M6, pair-verify M2).
INNER_FIELDS = {"setup:m6": ["identifier", "pubkey", "signature"], "verify:m2": ["identifier", "signature"]}
INNER_NONCE = {"setup:m6": b"PS-Msg06", "verify:m2": b"PV-Msg02"}


def mutate_inner(plain, variant, rng):
    """The fault applied to the PLAINTEXT of a sub-message before the fake device seals it."""
    from pyatv.auth.hap_tlv8 import TlvValue, read_tlv, write_tlv
    tags = {"identifier": int(TlvValue.Identifier), "pubkey": int(TlvValue.PublicKey),
            "signature": int(TlvValue.Signature)}
    if variant == "inner":
        return _garbage_tlv(rng, list(tags.values()))
    field = variant.split(":", 1)[1]
    if "=" in field:
        field, shape = field.split("=")
        tlv = read_tlv(plain)
        tlv[tags[field]] = reshape(tlv.get(tags[field], b""), shape, rng)
        return write_tlv(tlv)
    if field == "all":
        return b""
    tlv = read_tlv(plain)
    return write_tlv({k: v for k, v in tlv.items() if k != tags[field]})


def mutate(codec, reply, kind, variant, rng):
    """bytes to deliver instead of the reply / None = nothing arrives / "disconnect"."""
    from pyatv.auth.hap_tlv8 import ErrorCode, TlvValue, write_tlv
    if kind == "dropped":
        return None
    if kind == "disconnect":
        return "disconnect"
    if kind == "garbage" and variant == "frame":
        return codec.garbage_frame(rng)
    if kind == "error" and variant.startswith("http"):
        return codec.encode(reply.raw[0], code=int(variant[4:]), body=b"")
    if kind == "garbage" and variant == "body":
        return codec.encode(reply.raw[0], body=b"bplist00" + b"\xff" + rng.bytes_(rng.randrange(8, 40)))
    if reply.phase == "plist" and kind == "missing":
        plist = {k: v for k, v in reply.raw[1].items() if k != variant}
        return codec.encode(reply.raw[0], body=plistlib.dumps(plist, fmt=plistlib.FMT_BINARY))
    if reply.phase == "plist" and kind == "garbage" and variant.startswith("root:"):
        keys = sorted(reply.raw[1])
        root = {"str": "pairing failed: " + " does not match ".join(keys), "array": ["invalid"] + keys, "int": 7,
                "data": " ".join(keys).encode(), "nested": [dict(reply.raw[1])]}[variant[5:]]
        return codec.encode(reply.raw[0], body=plistlib.dumps(root, fmt=plistlib.FMT_BINARY))
    if kind == "garbage" and variant == "body:text":
        resp = reply.raw[0]
        from pyatv.support.http import HttpResponse, format_response
        headers = {k: v for k, v in dict(resp.headers).items() if k.lower() not in ("content-length", "content-type")}
        headers["Content-Type"] = "text/plain"
        return format_response(HttpResponse(resp.protocol, resp.version, resp.code, resp.message, headers,
                                            "pairing data: " + binascii.hexlify(resp.body).decode()))
    if kind == "garbage" and variant in ("pd:str", "pd:int", "pd:array", "root:array"):
        ftype, payload = reply.raw
        names = ["salt", "publickey", "proof", "encrypteddata"]
        if variant == "root:array":
            return ("frame", ftype, ["_pd"] + names)
        wrong = {"pd:str": " ".join(names), "pd:int": 6, "pd:array": names}[variant]
        return ("frame", ftype, dict(payload, _pd=wrong))
    seqno = reply.tlv.get(int(TlvValue.SeqNo), b"\x00")
    if kind == "error":
        code, backoff = "Authentication", False
        if variant.startswith("tlv:"):
            code, _, extra = variant[4:].partition("+")
            backoff = extra == "backoff"
        items = {TlvValue.SeqNo: seqno, TlvValue.Error: bytes([ErrorCode[code]])}
        if backoff:
            items[TlvValue.BackOff] = rng.randrange(1, 600).to_bytes(2, "little")
        return codec.with_tlv(reply, write_tlv(items))
    if kind == "garbage":
        return codec.with_tlv(reply, _garbage_tlv(rng, [k for k in reply.tlv if k != int(TlvValue.SeqNo)]))
    if kind == "missing":
        if variant == "pairingdata":
            return codec.with_tlv(reply, b"")
        drop = {v: k for k, v in _tlv_names().items()}[variant]
        return codec.with_tlv(reply, write_tlv({k: v for k, v in reply.tlv.items() if k != drop}))
    raise ValueError((kind, variant))


# ------------------------------------------------------------------------------------------
# the world: fault plan, event log, reply counter
# ------------------------------------------------------------------------------------------
class World:
    def __init__(self, codec, fault, rng):
        self.codec = codec
        self.fault = fault            # None or (index, kind, variant); index 0 = connect
        self.rng = rng
        self.events = []              # connect / send / recv / storeService / storeSettings / setPaired
        self.links = []
        self.replies = []             # Reply descriptors in arrival order
        self.refuse_connect = bool(fault and fault[0] == 0)
        self.injected = False
        self.inverted = False         # DMAP: the handler is the listening side
        self.inner = bool(fault and str(fault[2]).startswith("inner"))
        self.device = bool(fault and str(fault[2]).startswith("device:"))
        self.inner_done = False
        self._restore = None

    def on_client_write(self, link, data):
        if not self.inverted:
            self.events.append("send")
        if self.device and not self.inner_done and len(self.replies) + 1 == self.fault[0]:
            self._malform_device(link.protos["s"])

    def _malform_device(self, proto):
        """The fake device reports a malformed identifier / long-term public key while it builds
        the reply with the fault's index (and signs / seals consistently with it)."""
        peer = getattr(proto, "handler", proto)          # BasicHttpServer -> FakeAirPlayService
        field, shape = self.fault[2].split(":", 1)[1].split("=")
        self.inner_done = True
        if field == "identifier":
            orig = peer.unique_id
            peer.unique_id = reshape(orig, shape, self.rng)
            self._restore = lambda: setattr(peer, "unique_id", orig)
        else:
            had = "keys" in peer.__dict__
            orig = peer.keys
            peer.keys = orig._replace(auth_pub=reshape(orig.auth_pub, shape, self.rng))
            self._restore = (lambda: setattr(peer, "keys", orig)) if had else (lambda: peer.__dict__.pop("keys", None))

    def on_server_write(self, link, data):
        if self.inverted:
            if not self.events or self.events[-1] != "send":
                self.events.append("send")
            return data
        if not self.codec.wire:
            return data               # faults were applied at the peer's send_to_client
        try:
            reply = self.codec.decode(data)
        except Exception as ex:
            reply = Reply(self.codec.name, "undecodable:" + type(ex).__name__)
        act = self.plan(reply)
        return data if act == "pass" else act

    def plan(self, reply):
        """Register one reply of the device; returns "pass" or what to deliver instead."""
        idx = len(self.replies) + 1
        self.replies.append(reply)
        if self._restore is not None:
            self._restore()
            self._restore = None
        if self.fault and self.fault[0] == idx and (self.inner or self.device):
            self.injected = self.inner_done      # the sub-message was altered before sealing
            self.events.append("fault")
            return "pass"
        if self.fault and self.fault[0] == idx and self.fault[1] != "wrongpin":
            self.injected = True
            self.events.append("fault")
            return mutate(self.codec, reply, self.fault[1], self.fault[2], self.rng)
        self.events.append("recv")
        return "pass"


def _instrument(obj, attr, events, name):
    """Log every assignment of obj.<attr> (dynamic subclass overriding __setattr__)."""
    cls = type(obj)

    class Sub(cls):  # pylint: disable=too-few-public-methods
        def __setattr__(self, key, value):
            if key == attr and (name != "setPaired" or value):
                events.append(name)
            super().__setattr__(key, value)

    Sub.__name__ = cls.__name__
    Sub.__qualname__ = cls.__qualname__
    object.__setattr__(obj, "__class__", Sub)


# ------------------------------------------------------------------------------------------
# handler configurations
# ------------------------------------------------------------------------------------------
PORT = 7000

CONFIGS = {
    # name: (protocol, settings slot, codec, airplay features, script name in the Lean model)
    "mrp": ("MRP", "mrp", MrpCodec, None),
    "companion": ("Companion", "companion", CompanionCodec, None),
    "airplay-hap": ("AirPlay", "airplay", HttpCodec, "0x00000000,0x00010000"),
    "airplay-legacy": ("AirPlay", "airplay", HttpCodec, ""),
    "raop-hap": ("RAOP", "raop", HttpCodec, "0x00000000,0x00010000"),
    "raop-legacy": ("RAOP", "raop", HttpCodec, ""),
}


def _old_creds(name, which="A"):
    """two different, valid older credentials per handler"""
    from pyatv.auth.server_auth import CLIENT_CREDENTIALS
    if name == "dmap":
        return OLD_DMAP_CREDS if which == "A" else "0x0000000000000043"
    if name.endswith("legacy"):
        return OLD_LEGACY_CREDS if which == "A" else "8899AABBCCDDEEFF:" + "cd" * 32
    if which == "A":
        return CLIENT_CREDENTIALS
    parts = CLIENT_CREDENTIALS.split(":")
    parts[1] = parts[1][:-2] + ("00" if parts[1][-2:] != "00" else "11")   # another long-term key
    parts[3] = parts[3][:-2] + "42"                                         # another client id
    return ":".join(parts)


def norm_prior(prior):
    """initial state as two letters (service, settings) over N(one) / A / B"""
    if isinstance(prior, str):
        return prior
    return "AA" if prior else "NN"


def prior_values(name, prior):
    st = norm_prior(prior)
    return tuple(None if ch == "N" else _old_creds(name, ch) for ch in st)


PRIOR_COMBOS = [a + b for a in "NAB" for b in "NAB"]


def _peer_factory(name, loop, state_box, device_pin=None, world=None):
    """`device_pin` (4-digit string) = the PIN the fake device displays; None = its default."""
    if name == "mrp":
        from pyatv.protocols.mrp.server_auth import new_server_session
        from tests.fake_device.mrp import FakeMrpService, FakeMrpState
        state = state_box.setdefault("state", FakeMrpState())

        def make_mrp():
            peer = FakeMrpService(state, None, loop)
            if device_pin is not None:
                peer.session, peer.salt = new_server_session(peer.keys, device_pin)
            return peer

        return make_mrp
    if name == "companion":
        from tests.fake_device.companion import FakeCompanionService, FakeCompanionState
        state = state_box.setdefault("state", FakeCompanionState())
        world = world or loop.world

        class Peer(FakeCompanionService):
            def send_to_client(self, frame_type, data):
                try:
                    reply = world.codec.describe(frame_type, data)
                except Exception as ex:
                    reply = Reply("companion", "undecodable:" + type(ex).__name__)
                act = world.plan(reply)
                if act == "pass":
                    return super().send_to_client(frame_type, data)
                if act is None:
                    return None
                if act == "disconnect":
                    return world.links[-1].disconnect()
                if act[0] == "raw":
                    return self.transport.write(act[1])
                return super().send_to_client(act[1], act[2])

        def make_companion():
            from pyatv.protocols.companion.server_auth import new_server_session
            peer = Peer(state)
            if device_pin is not None:
                peer.session, peer.salt = new_server_session(peer.keys, device_pin)
            return peer

        return make_companion
    from pyatv.support.http import BasicHttpServer
    from tests.fake_device.airplay import FakeAirPlayService, FakeAirPlayState
    state = state_box.setdefault("state", FakeAirPlayState())
    service = FakeAirPlayService(state, None, loop)
    if device_pin is not None:
        service.pin = device_pin
    return lambda: BasicHttpServer(service)


def _pins(name):
    from pyatv.auth.server_auth import PIN_CODE
    from tests.fake_device.airplay import DEVICE_PIN
    if name.startswith(("airplay", "raop")):
        return DEVICE_PIN, 9999
    return PIN_CODE, PIN_CODE + 1


def _settings_creds(settings):
    p = settings.protocols
    return {k: getattr(p, k).credentials for k in ("airplay", "companion", "dmap", "mrp", "raop")}


def _err_class(exc):
    """pairing / connection / other:<name> — the property's "pairing or connection error"."""
    from pyatv import exceptions
    if exc is None:
        return None
    if isinstance(exc, exceptions.PairingError):
        return "pairing"
    if isinstance(exc, (exceptions.ConnectionFailedError, exceptions.ConnectionLostError, OSError)):
        return "connection"
    return "other:" + type(exc).__name__


async def _pair_client(name, prior, fault, world, loop, pins=None, ops=None, config=None, port=None):
    """begin(); pin(); finish() on the real handler obtained from pyatv.pair()."""
    import pyatv
    from pyatv.conf import AppleTV, ManualService
    from pyatv.const import Protocol
    from pyatv.storage.memory_storage import MemoryStorage
    from unittest.mock import patch

    proto_name, slot, _codec, features = CONFIGS[name]
    protocol = getattr(Protocol, proto_name)
    props = {"features": features} if features else {}
    service = ManualService("c08_id_%s" % (port or PORT), protocol, port or PORT, props)
    old, old_settings = prior_values(name, prior)
    service.credentials = old
    conf = AppleTV("127.0.0.1", "C08 device")
    conf.add_service(service)
    storage = MemoryStorage()
    settings = await storage.get_settings(conf)
    setattr(getattr(settings.protocols, slot), "credentials", old_settings)
    for other in ("airplay", "companion", "dmap", "mrp", "raop"):
        if other != slot:
            getattr(settings.protocols, other).credentials = "untouched-" + other

    good_pin, bad_pin = _pins(name)
    pin = bad_pin if (fault and fault[1] == "wrongpin") else good_pin
    if pins is not None:
        pin = pins[1]             # what the user types: int or 4-digit string

    obs = {"prior": old, "prior_settings": old_settings, "slot": slot}
    patches = []
    if name.endswith("legacy"):
        from tests.fake_device.airplay import DEVICE_AUTH_KEY, DEVICE_IDENTIFIER

        def predetermined_key(num):
            return binascii.unhexlify(DEVICE_IDENTIFIER if num == 8 else DEVICE_AUTH_KEY)

        patches.append(patch("pyatv.protocols.airplay.srp.urandom", side_effect=predetermined_key))
    for p in patches:
        p.start()
    handler = None
    try:
        kwargs = {}
        if config and "name" in config:
            # the name the handler presents itself with: `name=` for Companion / AirPlay / RAOP,
            # settings.info.name for MRP (sent in DEVICE_INFORMATION)
            if name == "mrp":
                settings.info.name = config["name"]
            else:
                kwargs["name"] = config["name"]
        handler = await pyatv.pair(conf, protocol, loop, storage=storage, **kwargs)
        _instrument(service, "credentials", world.events, "storeService")
        _instrument(getattr(settings.protocols, slot), "credentials", world.events, "storeSettings")
        _instrument(handler, "_has_paired", world.events, "setPaired")
        del world.events[:]
        obs["paired_before"] = bool(handler.has_paired)
        exc, where = None, None
        if ops is not None:
            # an explicit sequence of operations on the one handler object
            steps = obs["steps"] = []
            for op in ops:
                exc, where = None, op[0]
                try:
                    if op[0] == "begin":
                        await handler.begin()
                    elif op[0] == "pin":
                        handler.pin(good_pin if op[1] == "right" else bad_pin if op[1] == "wrong" else op[1])
                    elif op[0] == "finish":
                        await handler.finish()
                except Exception as ex:  # observation
                    exc = ex
                steps.append({"op": list(op), "err": _err_class(exc), "exc_name": type(exc).__name__ if exc else None,
                              "paired": bool(handler.has_paired), "svc": service.credentials,
                              "settings": getattr(settings.protocols, slot).credentials,
                              "replies": len(world.replies)})
        else:
            try:
                await handler.begin()
            except Exception as ex:  # observation
                exc, where = ex, "begin"
            obs["paired_mid"] = bool(handler.has_paired)
            obs["svc_mid"] = service.credentials
            if exc is None:
                handler.pin(pin)
                try:
                    await handler.finish()
                except Exception as ex:  # observation
                    exc, where = ex, "finish"
        obs.update(exc=exc, where=where, err=_err_class(exc), exc_name=type(exc).__name__ if exc else None,
                   exc_text=str(exc)[:160] if exc else None,
                   paired=bool(handler.has_paired), svc=service.credentials,
                   settings=_settings_creds(settings),
                   stored_settings=_settings_creds(storage.settings[0]) if storage.settings else None)
    finally:
        for p in patches:
            p.stop()
        if handler is not None:
            try:
                await handler.close()
            except Exception as ex:  # observation only
                obs["close_exc"] = type(ex).__name__
    return obs


def run_one(name, prior, fault, rng, pins=None, ops=None, config=None):
    """Execute one case on the real code; returns the observation dict (never raises for
    exceptions of the code under test).  `pins` = (PIN of the device as 4-digit string, PIN
    handed to handler.pin()) or None for the fake devices' defaults; for DMAP
    (PIN handed to handler.pin(), pairing code the device sends: ("pin", n) | ("raw", text))."""
    if name == "dmap":
        return run_dmap(prior, fault, rng, pins, ops, config)
    codec = CONFIGS[name][2]()
    world = World(codec, fault, rng)
    loop = PipeLoop(world)
    state_box = {}

    async def main():
        loop.listeners[PORT] = _peer_factory(name, loop, state_box, pins[0] if pins else None)
        return await _pair_client(name, prior, fault, world, loop, pins, ops, config)

    logging.disable(logging.CRITICAL)
    unhook = _hook_sealing(world) if world.inner else (lambda: None)
    try:
        asyncio.set_event_loop(loop)
        try:
            obs = loop.run_until_complete(main())
        except vloop.Deadlock as ex:
            obs = {"harness_error": "deadlock: %s" % ex}
        obs["events"] = list(world.events)
        obs["replies"] = world.replies
        obs["injected"] = world.injected or bool(fault and (fault[0] == 0 or fault[1] == "wrongpin"))
        peer = state_box.get("state")
        obs["peer_paired"] = bool(getattr(peer, "has_paired", False)) if peer is not None else None
        obs["peer_verified"] = bool(peer.has_authenticated) if (name == "mrp" and peer is not None) else None
        return obs
    finally:
        unhook()
        logging.disable(logging.NOTSET)
        try:
            pending = [t for t in asyncio.all_tasks(loop) if not t.done()]
            for t in pending:
                t.cancel()
            if pending:
                loop.run_until_complete(asyncio.gather(*pending, return_exceptions=True))
        except Exception:
            pass
        asyncio.set_event_loop(None)
        loop.close()


def run_pair(specs, rng, delays=(0.0, 0.0), latencies=(0.0, 0.0)):
    """Two pairing handlers alive in ONE process and ONE event loop, their exchanges running
    concurrently (own fake device, own port, own fault plan each): `specs` = two
    (name, prior, fault); `delays` = virtual seconds before each starts, `latencies` = one-way
    delivery time of each connection, which together decide how the messages interleave.
    Returns the two observations."""
    worlds = []
    for i, (name, _prior, fault) in enumerate(specs):
        w = World(CONFIGS[name][2](), fault, rng.fork("w%d" % i))
        w.latency = latencies[i]
        worlds.append(w)
    loop = PipeLoop(worlds[0])
    boxes = [{}, {}]

    async def one(i):
        name, prior, fault = specs[i]
        port = PORT + i
        loop.worlds[port] = worlds[i]
        loop.listeners[port] = _peer_factory(name, loop, boxes[i], None, worlds[i])
        if delays[i]:
            await asyncio.sleep(delays[i])
        try:
            return await _pair_client(name, prior, fault, worlds[i], loop, port=port)
        except Exception as ex:  # the harness itself
            return {"harness_error": "%s: %s" % (type(ex).__name__, ex)}

    async def main():
        return await asyncio.gather(one(0), one(1))

    logging.disable(logging.CRITICAL)
    try:
        asyncio.set_event_loop(loop)
        try:
            out = loop.run_until_complete(main())
        except vloop.Deadlock as ex:
            out = [{"harness_error": "deadlock: %s" % ex}, {"harness_error": "deadlock: %s" % ex}]
        for i, obs in enumerate(out):
            name, _prior, fault = specs[i]
            obs["events"] = list(worlds[i].events)
            obs["replies"] = worlds[i].replies
            obs["injected"] = worlds[i].injected or bool(fault and (fault[0] == 0 or fault[1] == "wrongpin"))
            peer = boxes[i].get("state")
            obs["peer_verified"] = bool(peer.has_authenticated) if (name == "mrp" and peer is not None) else None
        return out
    finally:
        logging.disable(logging.NOTSET)
        try:
            pending = [t for t in asyncio.all_tasks(loop) if not t.done()]
            for t in pending:
                t.cancel()
            if pending:
                loop.run_until_complete(asyncio.gather(*pending, return_exceptions=True))
        except Exception:
            pass
        asyncio.set_event_loop(None)
        loop.close()


def _hook_sealing(world):
    """While the fake device builds the reply with the fault's index, alter the plaintext of the
    sub-message it seals (nonce PS-Msg06 / PV-Msg02); everything else is encrypted as usual."""
    from pyatv.support import chacha20
    cls = chacha20.Chacha20Cipher
    orig = cls.encrypt
    nonces = set(INNER_NONCE.values())

    def encrypt(self, data, nonce=None, aad=None):
        if (nonce is not None and bytes(nonce) in nonces and not world.inner_done
                and len(world.replies) + 1 == world.fault[0]):
            world.inner_done = True
            data = mutate_inner(bytes(data), world.fault[2], world.rng)
        return orig(self, data, nonce, aad)

    cls.encrypt = encrypt

    def unhook():
        cls.encrypt = orig

    return unhook


# ------------------------------------------------------------------------------------------
# DMAP: the handler is the server, the harness plays the device
# ------------------------------------------------------------------------------------------
DMAP_GUID = "0x00000000000000A1"
DMAP_PIN = 1234


class _Device(asyncio.Protocol):
    def __init__(self):
        self.data = b""
        self.transport = None
        self.done = asyncio.Event()

    def connection_made(self, transport):
        self.transport = transport

    def data_received(self, data):
        self.data += data
        if b"\r\n\r\n" in self.data:
            self.done.set()

    def connection_lost(self, exc):
        self.done.set()


def _dmap_code(guid, pin, published=None):
    """pairing code as the device computes it: from the `Pair` value the handler published over
    Zeroconf (or, without it, from the guid the handler was configured with)"""
    import hashlib
    pair = published if published is not None else guid[2:].upper()
    merged = pair + "".join(ch + "\x00" for ch in str(pin).zfill(4))
    return hashlib.md5(merged.encode("utf-8", "surrogatepass")).hexdigest().upper()


def dmap_variants():
    return [("wrongpin", "-"), ("missing", "pairingcode"), ("missing", "servicename"), ("garbage", "frame"),
            ("garbage", "query"), ("dropped", "-"), ("disconnect", "-")]


async def _dmap_device(loop, world, port, fault, rng, pins=None):
    """The device's side of the exchange: one GET /pair request (possibly faulty)."""
    kind, variant = (fault[1], fault[2]) if fault else (None, None)
    if kind == "dropped":
        world.events.append("fault")
        return None
    factory = loop.listeners.get(port)
    if factory is None:
        return "no-listener"
    device = _Device()
    link = Link(loop, port, device, factory(), world)
    world.links.append(link)
    link.start()
    published = getattr(world, "dmap_pair", None)
    code = _dmap_code(DMAP_GUID, 4321 if kind == "wrongpin" else DMAP_PIN, published)
    if pins is not None:
        code = _dmap_code(DMAP_GUID, pins[1][1], published) if pins[1][0] == "pin" else pins[1][1]
    query = {"pairingcode": code, "servicename": "c08device"}
    if kind == "missing":
        query.pop(variant)
    qs = "&".join(f"{k}={v}" for k, v in query.items())
    request = f"GET /pair?{qs} HTTP/1.1\r\nHost: 127.0.0.1:{port}\r\nConnection: close\r\n\r\n".encode()
    if kind == "garbage" and variant == "frame":
        request = b"\x00\xff" + rng.bytes_(20).replace(b"\n", b"?") + b"\r\n\r\n"
    if kind == "garbage" and variant == "query":
        request = request.replace(qs.encode(), b"%zz=%00&pairingcode")
    if kind == "disconnect":
        device.transport.write(request[: len(request) // 2])
        await asyncio.sleep(0)
        device.transport.close()
        world.events.append("fault")
        await asyncio.sleep(0.1)
        return "closed"
    world.events.append("fault" if kind else "recv")
    device.transport.write(request)
    try:
        await asyncio.wait_for(device.done.wait(), 30)
    except asyncio.TimeoutError:
        return "no-response"
    await asyncio.sleep(0.1)
    status = device.data.split(b"\r\n", 1)[0].decode("latin-1")
    return status


def run_dmap(prior, fault, rng, pins=None, ops=None, config=None):
    codec = type("DmapCodec", (), {"name": "dmap", "wire": True, "decode": staticmethod(lambda d: Reply("dmap", "http-response"))})()
    world = World(codec, None, rng)     # the pipe itself injects nothing; the device script does
    world.inverted = True
    loop = PipeLoop(world)

    async def main():
        import pyatv
        from pyatv.conf import AppleTV, ManualService
        from pyatv.const import Protocol
        from pyatv.storage.memory_storage import MemoryStorage
        from tests.zeroconf_stub import ZeroconfStub

        service = ManualService("c08_id", Protocol.DMAP, 3689, {})
        old, old_settings = prior_values("dmap", prior)
        service.credentials = old
        conf = AppleTV("127.0.0.1", "C08 device")
        conf.add_service(service)
        storage = MemoryStorage()
        settings = await storage.get_settings(conf)
        settings.protocols.dmap.credentials = old_settings
        for other in ("airplay", "companion", "mrp", "raop"):
            getattr(settings.protocols, other).credentials = "untouched-" + other
        zeroconf = ZeroconfStub([])
        obs = {"prior": old, "prior_settings": old_settings, "slot": "dmap"}
        config_ = dict({"pairing_guid": DMAP_GUID, "name": "c08 remote"}, **(config or {}))
        handler = await pyatv.pair(conf, Protocol.DMAP, loop, storage=storage, zeroconf=zeroconf,
                                   pairing_guid=config_["pairing_guid"], name=config_["name"],
                                   addresses=config_.get("addresses", ["127.0.0.1"]))
        try:
            _instrument(service, "credentials", world.events, "storeService")
            _instrument(settings.protocols.dmap, "credentials", world.events, "storeSettings")
            _instrument(handler, "_has_paired", world.events, "setPaired")
            del world.events[:]
            obs["paired_before"] = bool(handler.has_paired)
            exc, where = None, None
            try:
                await handler.begin()
                world.events.append("listen")
                if zeroconf.registered_services:
                    props = zeroconf.registered_services[0].properties
                    world.dmap_pair = (props.get(b"Pair") or b"").decode("utf-8", "surrogatepass")
            except Exception as ex:
                exc, where = ex, "begin"
            if exc is None and ops is not None:
                steps = obs["steps"] = []
                for op in ops:
                    exc, where, status = None, op[0], None
                    try:
                        if op[0] == "pin":
                            handler.pin(op[1])
                        elif op[0] == "request":
                            port = zeroconf.registered_services[0].port if zeroconf.registered_services else next(iter(loop.listeners), None)
                            status = await _dmap_device(loop, world, port, None, rng, (None, op[1]))
                        elif op[0] == "finish":
                            await handler.finish()
                    except Exception as ex:
                        exc = ex
                    steps.append({"op": [op[0], list(op[1]) if isinstance(op[1:], tuple) and len(op) > 1 and isinstance(op[1], (tuple, list)) else (op[1] if len(op) > 1 else None)],
                                  "err": _err_class(exc), "exc_name": type(exc).__name__ if exc else None,
                                  "status": status, "paired": bool(handler.has_paired), "svc": service.credentials,
                                  "settings": settings.protocols.dmap.credentials})
            elif exc is None:
                handler.pin(DMAP_PIN if pins is None else pins[0])
                port = zeroconf.registered_services[0].port if zeroconf.registered_services else next(iter(loop.listeners), None)
                obs["device"] = await _dmap_device(loop, world, port, fault, rng, pins)
                obs["paired_mid"] = bool(handler.has_paired)
                obs["svc_mid"] = service.credentials
                try:
                    await handler.finish()
                except Exception as ex:
                    exc, where = ex, "finish"
            obs.update(exc=exc, where=where, err=_err_class(exc), exc_name=type(exc).__name__ if exc else None,
                       exc_text=str(exc)[:160] if exc else None, paired=bool(handler.has_paired),
                       svc=service.credentials, settings=_settings_creds(settings),
                       stored_settings=_settings_creds(storage.settings[0]) if storage.settings else None)
        finally:
            try:
                await handler.close()
            except Exception as ex:
                obs["close_exc"] = type(ex).__name__
        return obs

    logging.disable(logging.CRITICAL)
    try:
        asyncio.set_event_loop(loop)
        try:
            obs = loop.run_until_complete(main())
        except vloop.Deadlock as ex:
            obs = {"harness_error": "deadlock: %s" % ex}
        obs["events"] = list(world.events)
        obs["replies"] = []
        obs["injected"] = bool(fault)
        obs["peer_paired"] = None
        return obs
    finally:
        logging.disable(logging.NOTSET)
        try:
            pending = [t for t in asyncio.all_tasks(loop) if not t.done()]
            for t in pending:
                t.cancel()
            if pending:
                loop.run_until_complete(asyncio.gather(*pending, return_exceptions=True))
        except Exception:
            pass
        asyncio.set_event_loop(None)
        loop.close()


# ------------------------------------------------------------------------------------------
# enumeration
# ------------------------------------------------------------------------------------------
HANDLERS = ["mrp", "companion", "airplay-hap", "airplay-legacy", "raop-hap", "raop-legacy", "dmap"]
PROOF_REPLY = {"setup:m4": True, "legacy:proof": True}


def fault_space(name, prior, rng, base=None):
    """Recon: fault-free run on the real code -> (observation, [(index, kind, variant)])."""
    if base is None:
        base = run_one(name, prior, None, rng.fork("recon"))
    if name == "dmap":
        return base, [(0, k, v) for k, v in dmap_variants()]
    faults = [(0, "disconnect", "refused")]
    for i, reply in enumerate(base.get("replies", []), 1):
        for kind, variant in variants_for(reply, PROOF_REPLY.get(reply.label, False)):
            faults.append((i, kind, variant))
    return base, faults


def script_name(name, prior):
    return "companion-reauth" if (name == "companion" and norm_prior(prior)[0] != "N") else name


def label_of(name, base, idx):
    if name == "dmap":
        return "request"
    if idx == 0:
        return "connect"
    replies = base.get("replies", [])
    return replies[idx - 1].label if idx - 1 < len(replies) else "?"


def canon_obs(obs):
    """(outcome, svc changed, settings changed, paired) as the model prints it."""
    if obs.get("harness_error"):
        return "harness-error " + obs["harness_error"]
    err = obs.get("err")
    if err is None:
        outcome = "ok" if obs.get("paired") else "silent"
    elif err in ("pairing", "connection"):
        outcome = "error"
    else:
        outcome = "error:other"
    old = obs.get("prior")
    old_settings = obs.get("prior_settings", old)
    settings = obs.get("settings") or {}
    return "%s %d %d %d" % (outcome, obs.get("svc") != old, settings.get(obs.get("slot")) != old_settings,
                            bool(obs.get("paired")))


def canon_values(name, obs):
    """(outcome, service value, settings value, paired) with values 0 none / 1 A / 2 B / 9 other"""
    if obs.get("harness_error"):
        return "harness-error " + obs["harness_error"]
    ids = {None: "0", _old_creds(name, "A"): "1", _old_creds(name, "B"): "2"}
    settings = obs.get("settings") or {}
    return "%s %s %s %d" % (canon_obs(obs).split(" ")[0], ids.get(obs.get("svc"), "9"),
                            ids.get(settings.get(obs.get("slot")), "9"), bool(obs.get("paired")))


def canon_model(ans):
    parts = ans.split(" ")
    if len(parts) != 4:
        return ans
    if parts[0] in ("error:pairing", "error:connection"):
        parts[0] = "error"
    return " ".join(parts)


def oracle(name, obs, fault):
    """The property evaluated directly on the observation (independent of the model).
    Returns a list of (problem-tag, text)."""
    out = []
    if obs.get("harness_error"):
        return [("harness-error", obs["harness_error"])]
    old = obs.get("prior")
    old_settings = obs.get("prior_settings", old)
    slot = obs.get("slot")
    settings = obs.get("settings") or {}
    stored = obs.get("stored_settings") or settings
    others = [k for k, v in settings.items() if k != slot and v != "untouched-" + k]
    others += [k for k, v in stored.items() if k != slot and v != "untouched-" + k and k not in others]
    if fault is None:
        if obs.get("err") is not None:
            out.append(("success-raised:" + str(obs.get("exc_name")), "fault-free exchange raised %s: %s" % (obs.get("exc_name"), obs.get("exc_text"))))
            return out
        if not obs.get("paired"):
            out.append(("success-not-reported", "fault-free exchange completed but has_paired is false"))
        if not obs.get("svc") or obs.get("svc") in (old, old_settings):
            out.append(("success-service-not-written", "service.credentials not written after a complete exchange"))
        if settings.get(slot) != obs.get("svc") or stored.get(slot) != obs.get("svc"):
            out.append(("success-settings-not-written", "settings.protocols.%s.credentials differs from service.credentials" % slot))
        if others:
            out.append(("other-settings-changed", "credentials of other protocols changed: %s" % others))
        events = obs.get("events", [])
        awaits = [i for i, e in enumerate(events) if e in ("recv", "connect")]
        writes = [i for i, e in enumerate(events) if e in ("storeService", "storeSettings", "setPaired")]
        if awaits and writes and min(writes) < max(awaits):
            out.append(("write-before-exchange-complete", "%s happened before the last reply was received: %s" % (events[min(writes)], events)))
        if name != "dmap" and (obs.get("paired_mid") or obs.get("svc_mid") != old):
            out.append(("write-in-begin", "has_paired / credentials already set when begin() returned"))
        if name == "mrp" and obs.get("peer_verified") is False:
            out.append(("verification-round-missing", "MRP pairing reported success but the device never saw a completed pair-verify"))
        return out
    if not obs.get("injected"):
        out.append(("fault-not-injected", "harness could not inject the fault (exchange has no such message)"))
        return out
    err = obs.get("err")
    if err is None:
        out.append(("no-error-raised", "neither begin() nor finish() raised although the exchange failed"))
    elif err not in ("pairing", "connection"):
        out.append(("error-class:" + str(obs.get("exc_name")), "%s escaped from %s(): not a pairing or connection error (%s)" % (obs.get("exc_name"), obs.get("where"), obs.get("exc_text"))))
    if obs.get("paired"):
        out.append(("has-paired-true", "has_paired is true after a failed exchange"))
    if obs.get("svc") != old:
        out.append(("service-credentials-changed", "service.credentials %r -> %r after a failed exchange" % (old, obs.get("svc"))))
    if settings.get(slot) != old_settings or stored.get(slot) != old_settings:
        out.append(("settings-credentials-changed", "settings.protocols.%s.credentials %r -> %r after a failed exchange" % (slot, old_settings, settings.get(slot))))
    if others:
        out.append(("other-settings-changed", "credentials of other protocols changed: %s" % others))
    return out


def probe_error_handler():
    """pyatv.support.error_handler(func, PairingError) on the exception each fault kind produces
    inside a procedure: timeout / missing key / error TLV / undecodable data / lost connection."""
    from pyatv import exceptions
    from pyatv.support import error_handler
    inner = {"dropped": asyncio.TimeoutError("no response"), "missing": KeyError("salt"),
             "error": exceptions.AuthenticationError("error tlv"), "wrongpin": exceptions.AuthenticationError("pin"),
             "garbage": ValueError("undecodable"), "disconnect": exceptions.ConnectionLostError("lost")}
    out = []
    for kind, exc in inner.items():
        async def raiser(exc=exc):
            raise exc

        async def call():
            try:
                await error_handler(raiser, exceptions.PairingError)
            except Exception as ex:  # observation
                return ex
            return None

        out.append((kind, _err_class(vloop.run(call)) or "none"))
    return out


def case_rng(ctx, name, prior, fault, rep=0):
    return ctx.rng.fork(name, norm_prior(prior), *(fault or ("none",)), rep)


def evaluate(ctx, name, prior, fault, base, rep=0, pins=None):
    """One case on the real code + oracle; returns (case, obs)."""
    obs = run_one(name, prior, fault, case_rng(ctx, name, prior, fault, rep), pins)
    idx, kind, variant = fault if fault else (None, None, None)
    label = label_of(name, base or obs, idx) if fault else "-"
    case = {"handler": name, "prior": norm_prior(prior), "index": idx, "message": label, "kind": kind,
            "variant": variant, "rep": rep}
    if pins is not None:
        case["pins"] = [pins[0], list(pins[1]) if isinstance(pins[1], (tuple, list)) else pins[1]]
    summary = {k: obs.get(k) for k in ("err", "exc_name", "exc_text", "where", "paired", "svc", "prior", "prior_settings", "events")}
    summary["settings"] = (obs.get("settings") or {}).get(obs.get("slot"))
    for tag, text in oracle(name, obs, fault):
        sig = "%s:%s:%s:%s" % (name, label if fault else "fault-free", kind or "none", tag)
        ctx.fail(sig, case, summary,
                 "fault -> pairing/connection error raised, stored credentials untouched, has_paired false; "
                 "fault-free -> credentials written to service and settings, has_paired true", text)
    return case, obs


def reduced_faults(ctx, name, combo, faults):
    """One fault per await point for the initial states that are not enumerated in full in the
    quick tier: alternately the dropped reply (a connection error) and a seed-chosen other kind
    (a pairing error), so that each combination sees both error classes in begin() and finish()."""
    by_index = {}
    for f in faults:
        by_index.setdefault(f[0], []).append(f)
    rng = ctx.rng.fork("reduced", name, combo)
    flip = rng.randrange(2)
    out = []
    for i in sorted(by_index):
        dropped = [f for f in by_index[i] if f[1] == "dropped" or f[2] == "refused"]
        others = [f for f in by_index[i] if f not in dropped]
        pool = dropped if ((i + flip) % 2 == 0 and dropped) else (others or dropped)
        out.append(rng.choice(pool))
    return out


def run(ctx, only=None):
    ctx.exhaustive = True
    lines, pending = [], []
    reps = ctx.scale(1, 3)
    ids = {"N": "0", "A": "1", "B": "2"}
    extra = ctx.rng.fork("combos").choice(["NB", "BN", "BA", "BB"])
    for name in HANDLERS:
        for prior in PRIOR_COMBOS:
            if only is not None and (name, norm_prior(only["prior"])) != (only["handler"], prior):
                continue
            if only is None and not ctx.thorough and prior not in ("NN", "AA", "NA", "AN", "AB", extra):
                continue
            full = ctx.thorough or prior in ("NN", "AA")
            if not ctx.thorough and (name, prior) in (("raop-hap", "AA"), ("airplay-hap", "NN"), ("mrp", "NN")):
                # quick tier: same script enumerated in full with the other initial state (mrp AA,
                # airplay-hap AA) / by the same handler class (raop-hap NN): one fault per await point
                full = False
            script = script_name(name, prior)
            if only is not None and only.get("concurrent") is not None:
                c = only["concurrent"]
                specs = [(n, p, tuple(f) if f else None) for n, p, f in c["specs"]]
                out = run_pair(specs, ctx.rng.fork("replay"), tuple(c["delays"]), tuple(c["latencies"]))
                for (n, p, f), obs in zip(specs, out):
                    for tag, text in oracle(n, obs, f):
                        ctx.fail("%s:concurrent:%s:%s" % (n, f[1] if f else "none", tag), only, None, "", text)
                return
            if only is not None and only.get("config") is not None:
                fault = None if only["index"] is None else (only["index"], only["kind"], only["variant"])
                pins = only.get("pins")
                evaluate_config(ctx, name, prior, only["config"], fault, tuple(pins) if pins else None)
                continue
            if only is not None and only.get("ops") is not None:
                ops = [tuple(tuple(x) if isinstance(x, list) else x for x in o) for o in only["ops"]]
                obs = run_one(name, prior, None, ctx.rng.fork("seq", name, repr(ops)), ops=ops)
                check_steps(ctx, name, prior, ops, obs)
                if name == "dmap":
                    cur = None
                    for o, st in zip(ops, obs.get("steps") or []):
                        if o[0] == "pin":
                            cur = o[1]
                        elif o[0] == "request":
                            ok = str(st.get("status", "")).split(" ")[1:2] == ["200"]
                            if ok != (cur is None or (o[1][0] == "pin" and o[1][1] == cur)):
                                seq_fail(ctx, name, prior, ops, "wrong-code-accepted" if ok else "right-code-refused",
                                         "request judged against a PIN that was not current", obs.get("steps") or [])
                continue
            if only is not None:
                base, faults = fault_space(name, prior, ctx.rng.fork(name, prior))
                fault = None if only["index"] is None else (only["index"], only["kind"], only["variant"])
                evaluate(ctx, name, prior, fault, base, only.get("rep", 0), only.get("pins"))
                continue
            init = "%s %s" % (ids[prior[0]], ids[prior[1]])
            # --- fault-free run (also the recon of the fault space): trace, applicability, success
            case, obs = evaluate(ctx, name, prior, None, None)
            base, faults = fault_space(name, prior, None, base=obs)
            BASES[(name, script_name(name, prior))] = base
            ctx.case(["free", name, prior], True, sample={"handler": name, "prior": prior, "events": obs.get("events")})
            ctx.note("handler:" + name)
            ctx.note("initial:" + prior)
            trace = [e for e in obs.get("events", []) if e != "listen"]
            lines.append("trace " + script)
            pending.append(("trace", case, ",".join(trace) or "-"))
            lines.append("runinit %s - - %s" % (script, init))
            pending.append(("runinit", case, canon_values(name, obs)))
            per_index = {}
            for (i, k, _v) in faults:
                per_index.setdefault(i, set()).add(k)
            n_await = (max(per_index) + 1) if per_index else 0
            for i in range(n_await + 1):
                lines.append("app %s %d" % (script, i))
                want = ",".join(sorted(per_index[i])) if i in per_index else "none"
                pending.append(("app", dict(case, index=i), want))
            # --- every await point x every applicable fault kind / variant (quick tier: in full for
            #     the initial states NN and AA, one fault per await point for the seven others)
            if (not ctx.thorough and prior == "NN") or (ctx.thorough and prior not in ("NN", "AA", "AB", "BA")):
                # faults inside sealed sub-messages: quick tier with stored credentials (AA) only,
                # thorough tier for the initial states NN, AA, AB, BA
                faults = [f for f in faults if not str(f[2]).startswith(("inner", "device:"))]
            if not ctx.thorough and prior == "NN":
                # wrong-type containers: quick tier with stored credentials (AA) only
                faults = [f for f in faults if not str(f[2]).startswith(("root:", "pd:", "body:text"))]
            if not ctx.thorough:
                # quick tier: of the stale-plaintext value edits one seed-chosen shape per inner field
                vrng = ctx.rng.fork("shapes", name, prior)
                shape_of = {}
                def keep_shape(f):
                    v = str(f[2])
                    if not (v.startswith("inner:") and "=" in v):
                        return True
                    field = (f[0], v.split("=")[0])
                    if field not in shape_of:
                        shape_of[field] = vrng.choice(SHAPES)
                    return v.endswith("=" + shape_of[field])
                faults = [f for f in faults if keep_shape(f)]
            # HTTP status of an error reply: thorough tier all eight codes at every reply for NN and AA; quick
            # tier with AA all eight at the first reply (/pair-pin-start) and 404 + one seed-chosen code later
            if not (ctx.thorough and prior in ("NN", "AA")):
                hrng = ctx.rng.fork("status", name, prior)
                keep_h = []
                for i in sorted({f[0] for f in faults if is_status_variant(f[1], f[2])}):
                    codes = [f for f in faults if f[0] == i and is_status_variant(f[1], f[2])]
                    if prior == "NN" and not ctx.thorough:
                        continue
                    if prior == "AA" and i == 1:
                        keep_h += codes
                    else:
                        keep_h.append(next(f for f in codes if f[2] == "http404"))
                        keep_h.append(hrng.choice([f for f in codes if f[2] != "http404"]))
                faults = [f for f in faults if not is_status_variant(f[1], f[2]) or f in keep_h]
            # error codes x BackOff item: all 14 per TLV reply in the thorough tier for NN and AA; otherwise
            # per TLV reply the documented back-off reply (Error=BackOff + BackOff item) and one seed-chosen other
            if not (ctx.thorough and prior == "NN"):
                crng = ctx.rng.fork("codes", name, prior)
                keep = []
                for i in sorted({f[0] for f in faults if is_code_variant(f[1], f[2])}):
                    codes = [f for f in faults if f[0] == i and is_code_variant(f[1], f[2])]
                    if ctx.thorough or prior == "AA":
                        keep.append(next(f for f in codes if f[2] == "tlv:BackOff+backoff"))
                        if ctx.thorough or (i + crng.randrange(2)) % 2 == 0:
                            keep.append(crng.choice([f for f in codes if f[2] != "tlv:BackOff+backoff"]))
                    elif prior != "NN":
                        keep.append(crng.choice(codes))
                faults = [f for f in faults if not is_code_variant(f[1], f[2]) or f in keep]
            for fault in (faults if full else reduced_faults(ctx, name, prior, faults)):
                nrep = reps if (fault[1] == "garbage" and full and fault[2] in ("frame", "tlv", "body", "inner")) else 1
                for rep in range(nrep):
                    case, obs = evaluate(ctx, name, prior, fault, base, rep)
                    ctx.case([name, prior, list(fault), rep], fault[0] >= 2 or name == "dmap",
                             sample={"case": case, "raised": obs.get("exc_name"), "where": obs.get("where"),
                                     "paired": obs.get("paired")})
                    ctx.note("kind:" + fault[1] + (":inner" if str(fault[2]).startswith("inner") else ""))
                    ctx.note("class:" + str(obs.get("err")))
                    lines.append("runinit %s %d %s %s" % (script, fault[0], fault[1], init))
                    pending.append(("runinit", case, canon_values(name, obs)))
    if only is not None:
        return
    pin_sweep(ctx, lines, pending)
    sequence_sweep(ctx, lines, pending)
    config_sweep(ctx, lines, pending)
    concurrent_sweep(ctx, lines, pending)
    # --- error_handler itself: what class reaches the caller for each kind of inner failure
    for kind, cls in probe_error_handler():
        lines.append("errclass handler " + kind)
        pending.append(("errclass", {"handler": "error_handler", "kind": kind}, cls))
    answers = ctx.lean(lines)
    for (what, case, impl), ans, line in zip(pending, answers, lines):
        model = ans
        if what in ("run", "runinit"):
            model = canon_model(ans)
        elif what == "trace":
            model = ",".join(x for x in ans.split(",") if x != "guard")
        elif what == "app" and ans not in ("none", "-", "bad-op"):
            model = ",".join(sorted(ans.split(",")))
        ctx.validated()
        if model != impl:
            ctx.disagree(dict(case, line=line), impl, ans, where=what)


BASES = {}     # (handler, script) -> observation of a fault-free run (reply labels), filled by run()


def recon(ctx, name, prior):
    key = (name, script_name(name, prior))
    if key not in BASES:
        BASES[key] = run_one(name, prior, None, ctx.rng.fork(name, prior, "recon"))
    return BASES[key]


PIN_HANDLERS = ["mrp", "companion", "airplay-hap", "raop-hap"]   # legacy AirPlay: recorded transcript, one PIN


def pin_values(ctx, name):
    """boundary values of the compared secret + random ones"""
    rng = ctx.rng.fork("pins", name)
    vals = [0, 1, 9999, rng.randrange(2, 9999)]
    if ctx.thorough:
        vals += [10, 1000, rng.randrange(2, 9999), rng.randrange(2, 9999)]
    out = []
    for v in vals:
        if v not in out:
            out.append(v)
    return out


def wrong_pins(ctx, name, pin):
    rng = ctx.rng.fork("wrong", name, pin)
    cand = [(pin + 1) % 10000, rng.randrange(0, 10000)]
    if ctx.thorough:
        cand += [(pin - 1) % 10000, (pin * 10) % 10000, (pin + 1000) % 10000, 0, 9999, rng.randrange(0, 10000)]
    out = []
    for w in cand:
        if w != pin and w not in out:
            out.append(w)
    return out


def pin_sweep(ctx, lines, pending):
    """Every secret the handlers compare, at its boundary values: the PIN (0 = "0000", 1 = "0001",
    9999, random): right PIN -> success; every wrong PIN / wrong pairing code -> the wrong-PIN
    fault.  HAP handlers: the fake device displays the PIN, the user types it as int and as
    4-digit string.  DMAP: the PIN is given to pin(), the device sends the pairing code."""
    for name in PIN_HANDLERS:
        for prior in (("NN", "AA", "BA") if ctx.thorough else ("AB",)):
            script = script_name(name, prior)
            base = recon(ctx, name, prior)
            proof = next((i for i, r in enumerate(base.get("replies", []), 1) if PROOF_REPLY.get(r.label)), None)
            if proof is None:
                ctx.disagree({"handler": name}, "no proof reply in the real exchange", "proof index expected", where="pins")
                continue
            for pin in pin_values(ctx, name):
                dev = "%04d" % pin
                plans = [(None, (dev, pin), pin), (None, (dev, dev), pin)]
                if not ctx.thorough:
                    plans = plans[pin % 2:][:1]      # quick tier: 0000 / random typed as int, 0001 / 9999 as string
                wrongs = wrong_pins(ctx, name, pin)
                for j, w in enumerate(wrongs):
                    typed = ("%04d" % w) if j == len(wrongs) - 1 else w
                    plans.append(((proof, "wrongpin", "device=%s typed=%r" % (dev, typed)), (dev, typed), w))
                for fault, pins, typed_val in plans:
                    case, obs = evaluate(ctx, name, prior, fault, base, 0, pins)
                    ctx.case(["pin", name, prior, list(pins), bool(fault)], True,
                             sample={"case": case, "raised": obs.get("exc_name"), "paired": obs.get("paired")})
                    ctx.note("pin:" + ("boundary" if pin in (0, 1, 9999) else "other") + (":wrong" if fault else ":right"))
                    lines.append("runpin %s %d %d" % (script, pin, typed_val))
                    pending.append(("run", case, canon_obs(obs)))
    for prior in ("NN", "AB"):
        for pin in pin_values(ctx, "dmap"):
            plans = [(None, (pin, ("pin", pin)), "runpin dmap %d %d" % (pin, pin))]
            for w in wrong_pins(ctx, "dmap", pin):
                plans.append(((0, "wrongpin", "pin=%d code-of=%d" % (pin, w)), (pin, ("pin", w)), "runpin dmap %d %d" % (pin, w)))
            for raw in ("WRONG", "", "0" * 32):
                plans.append(((0, "wrongpin", "pin=%d code=%r" % (pin, raw)), (pin, ("raw", raw)), "run dmap 0 wrongpin"))
            for kind, variant in dmap_variants():
                if kind != "wrongpin":
                    plans.append(((0, kind, variant), (pin, ("pin", pin)), "run dmap 0 " + kind))
            for fault, pins, line in plans:
                case, obs = evaluate(ctx, "dmap", prior, fault, None, 0, pins)
                ctx.case(["pin", "dmap", prior, pin, list(fault or ())], True,
                         sample={"case": case, "paired": obs.get("paired"), "device_got": obs.get("device")})
                ctx.note("pin:" + ("boundary" if pin in (0, 1, 9999) else "other") + (":" + fault[1] if fault else ":right"))
                lines.append(line)
                pending.append(("run", case, canon_obs(obs)))


# ------------------------------------------------------------------------------------------
# two handlers alive and running concurrently in one process
# ------------------------------------------------------------------------------------------
PAIRS = [("mrp", "mrp"), ("companion", "companion"), ("airplay-hap", "raop-hap"), ("mrp", "companion"),
         ("airplay-hap", "airplay-hap"), ("companion", "airplay-hap"), ("airplay-legacy", "raop-hap"), ("raop-hap", "mrp")]
# (start delays, one-way latencies) in virtual seconds: lock-step; the first a little ahead at every
# message; the second a little ahead; different speeds (the order flips during the exchange)
PROFILES = [((0.0, 0.0), (0.0, 0.0)), ((0.0, 0.004), (0.01, 0.01)), ((0.004, 0.0), (0.01, 0.01)),
            ((0.0, 0.0), (0.01, 0.007)), ((0.0, 0.02), (0.009, 0.004))]


def concurrent_sweep(ctx, lines, pending):
    """One honest exchange and one faulty exchange (or two honest ones), interleaved at message
    granularity in one event loop; each is judged on its own by the same oracle and compared
    with the model's run of its own script: what happens on the other connection must not matter."""
    ids = {"N": "0", "A": "1", "B": "2"}
    rng = ctx.rng.fork("concurrent")
    pairs = PAIRS if ctx.thorough else PAIRS[:4]
    for na, nb in pairs:
        pa, pb = "AB", "BA"
        base = recon(ctx, nb, pb)
        _b, faults = fault_space(nb, pb, None, base=base)
        cand = [f for f in faults if (f[1], f[2]) in (("error", "tlv"), ("dropped", "-"), ("wrongpin", "-"),
                                                      ("error", "http404"), ("disconnect", "-"), ("missing", "pairingdata"))]
        last = max(f[0] for f in cand)
        must = [f for f in cand if f[0] == last and f[1] == "error"][:1] + [f for f in cand if f[1] == "wrongpin"][:1]
        rest = [f for f in cand if f not in must]
        if ctx.thorough:
            chosen = [None] + must + rest
        else:
            chosen = [None] + must + [rng.choice(rest)]
        for fault in chosen:
            profiles = PROFILES if (ctx.thorough and (fault is None or fault in must)) else rng.sample(PROFILES, 2)
            for delays, lats in profiles:
                for honest_first in ((True, False) if (fault in must and ctx.thorough) else (rng.chance(0.5),)):
                    specs = [(na, pa, None), (nb, pb, fault)]
                    if not honest_first:
                        specs.reverse()
                    out = run_pair(specs, rng.fork(na, nb, repr(fault), repr(delays), repr(lats)), delays, lats)
                    for (name, prior, flt), obs in zip(specs, out):
                        idx, kind, variant = flt if flt else (None, None, None)
                        label = label_of(name, obs, idx) if flt else "-"
                        case = {"handler": name, "prior": prior, "index": idx, "message": label, "kind": kind,
                                "variant": variant, "rep": 0,
                                "concurrent": {"specs": [[n, p, list(f) if f else None] for n, p, f in specs],
                                               "delays": list(delays), "latencies": list(lats)}}
                        summary = {k: obs.get(k) for k in ("err", "exc_name", "exc_text", "where", "paired", "svc", "prior", "prior_settings")}
                        for tag, text in oracle(name, obs, flt):
                            ctx.fail("%s:%s:%s:%s" % (name, label if flt else "fault-free", kind or "none", tag), case, summary,
                                     "each of two concurrent exchanges obeys the property on its own",
                                     text + " [while %s ran concurrently]" % (specs[1 - specs.index((name, prior, flt))][0],))
                        script = script_name(name, prior)
                        init = "%s %s" % (ids[prior[0]], ids[prior[1]])
                        lines.append("runinit %s %s %s %s" % (script, "-" if flt is None else flt[0], "-" if flt is None else flt[1], init))
                        pending.append(("runinit", case, canon_values(name, obs)))
                    ctx.case(["concurrent", na, nb, list(fault or ()), list(delays), list(lats), honest_first], True,
                             sample={"pair": [na, nb], "fault": list(fault or ()), "delays": list(delays), "latencies": list(lats),
                                     "results": [(o.get("err"), o.get("paired")) for o in out]})
                    ctx.note("concurrent:%s+%s" % (na, nb))


# ------------------------------------------------------------------------------------------
# handler configuration values
# ------------------------------------------------------------------------------------------
CONFIG_NAMES = ["\u00dcn\u00ef\u00a9\u00f8d\u00e9 \U0001f4fa \u540d\u524d", "", "x" * 300, "bad\udc80name", "a\x00b", "caf\u00e9\u0301 \u202eevil"]
CONFIG_GUIDS = [None, "0x0000000000000001", "0xFFFFFFFFFFFFFFFF", "0x0123456789ABCDEF0123456789ABCDEF",
                "0xNOTHEXNOTHEX0000", "0xabcdef0123456789", "0x", "0123456789ABCDEF", "0x-000000000000001"]


def evaluate_config(ctx, name, prior, config, fault, pins=None):
    """A run with an unusual but accepted configuration value.  Whether the exchange succeeded
    is read off the exchange itself (DMAP: the device got 200; others: no exception), then the
    property is applied: succeeded -> stored in both places and reported; failed -> raised,
    nothing stored, not reported.  An exception of begin() before any traffic (the configuration
    itself was refused) is not an exchange failure: only the state is judged."""
    obs = run_one(name, prior, fault, ctx.rng.fork("config", name, repr(config), repr(fault)), pins, None, config)
    label = "request" if name == "dmap" else "config"
    case = {"handler": name, "prior": prior, "index": fault[0] if fault else None, "kind": fault[1] if fault else None,
            "variant": fault[2] if fault else None, "message": label, "rep": 0,
            "config": {k: v for k, v in config.items()}}
    if pins is not None:
        case["pins"] = [pins[0], list(pins[1]) if isinstance(pins[1], (tuple, list)) else pins[1]]
    if name == "dmap":
        exchange_ok = fault is None and str(obs.get("device", "")).split(" ")[1:2] == ["200"]
    else:
        exchange_ok = fault is None and obs.get("err") is None and not obs.get("harness_error")
    events = obs.get("events") or []
    refused = obs.get("where") == "begin" and not any(e in ("connect", "recv", "fault", "send") for e in events)
    pseudo = None if exchange_ok else (fault or (0, "config", "-"))
    o2 = dict(obs, injected=True)
    summary = {k: obs.get(k) for k in ("err", "exc_name", "exc_text", "where", "paired", "svc", "prior", "prior_settings", "device")}
    for tag, text in oracle(name, o2, pseudo):
        if refused and (tag.startswith("error-class") or tag == "no-error-raised"):
            continue
        ctx.fail("%s:%s:%s:%s" % (name, label, (fault[1] if fault else "config"), tag), case, summary,
                 "exchange succeeded -> credentials in service and settings, has_paired; failed -> pairing/connection "
                 "error, nothing stored, has_paired false", text + " [configuration %r]" % (config,))
    return case, obs, exchange_ok


def config_sweep(ctx, lines, pending):
    prior = "AB"
    rng = ctx.rng.fork("config")
    # --- DMAP: pairing guid and remote name of every accepted shape, right code / wrong code / missing field
    configs = [{"pairing_guid": g} for g in CONFIG_GUIDS] + [{"name": n} for n in CONFIG_NAMES]
    configs += [{"name": n, "addresses": []} for n in CONFIG_NAMES[2:4]]       # nothing to publish on
    configs += [{"pairing_guid": CONFIG_GUIDS[3], "name": CONFIG_NAMES[0]}]
    for config in configs:
        for fault in (None, (0, "wrongpin", "-"), (0, "missing", "servicename")):
            pins = (0, ("pin", 0)) if fault is None and rng.chance(0.5) else None
            case, obs, ok = evaluate_config(ctx, "dmap", prior, config, fault, pins)
            ctx.case(["config", "dmap", repr(config), list(fault or ())], True,
                     sample={"config": repr(config), "device_got": obs.get("device"), "paired": obs.get("paired")})
            ctx.note("config:dmap:" + ("ok" if ok else "failed"))
            if obs.get("where") == "begin":
                continue                                  # configuration refused before any exchange
            status = str(obs.get("device", "")).split(" ")[1:2]
            word = ("r1" if fault is None else "r2" if fault[1] == "wrongpin" else "rx")
            if fault is None and status != ["200"]:
                word = "b1"                               # right code, answer could not be built
            lines.append("dmapseq p1,%s,f" % word)
            stored = obs.get("svc") not in (obs.get("prior"),) and obs.get("svc") == (obs.get("settings") or {}).get("dmap")
            pending.append(("dmapseq", case, "%d %d %s" % (bool(obs.get("paired")), stored, "1" if status == ["200"] else "0")))
    # --- the others: the name the handler presents itself with (kwarg `name`; MRP: settings.info.name)
    for name in [h for h in HANDLERS if h != "dmap"]:
        names = list(CONFIG_NAMES) if ctx.thorough else [CONFIG_NAMES[3], rng.choice([n for n in CONFIG_NAMES if n != CONFIG_NAMES[3]])]
        for i, n in enumerate(names):
            plans = [None]
            if ctx.thorough or i == 1:
                base = recon(ctx, name, prior)
                proof = next((j for j, r in enumerate(base.get("replies", []), 1) if PROOF_REPLY.get(r.label)), None)
                if proof:
                    plans.append((proof, "wrongpin", "-"))
            for fault in plans:
                case, obs, ok = evaluate_config(ctx, name, prior, {"name": n}, fault)
                ctx.case(["config", name, n, list(fault or ())], True,
                         sample={"handler": name, "name": repr(n)[:40], "raised": obs.get("exc_name"), "paired": obs.get("paired")})
                ctx.note("config:%s:%s" % (name, "ok" if ok else "failed"))


# ------------------------------------------------------------------------------------------
# sequences of operations on ONE handler object
# ------------------------------------------------------------------------------------------
def seq_fail(ctx, name, prior, ops, tag, text, steps, fault=None):
    case = {"handler": name, "prior": prior, "index": fault[0] if fault else None, "kind": fault[1] if fault else None,
            "variant": fault[2] if fault else None, "message": "sequence", "rep": 0,
            "ops": [list(o) if not isinstance(o, list) else o for o in ops]}
    ctx.fail("%s:sequence:%s:%s" % (name, "+".join(o[0] for o in ops), tag), case,
             [{k: st.get(k) for k in ("op", "err", "exc_name", "status", "paired")} for st in steps],
             "after any sequence of pin()/begin()/finish()/requests: credentials written and has_paired only through "
             "a completed exchange with the PIN current at that time; a failing call raises and changes nothing", text)


def check_steps(ctx, name, prior, ops, obs, fault=None, expect_last=None):
    """Property invariants over a sequence (no model involved): a call that raises leaves
    everything as it was before the call (has_paired false unless an earlier call of this very
    sequence had succeeded); credentials / has_paired appear only at a finish() that returned
    (DMAP: has_paired at an accepted request); the three places agree after a success."""
    steps = obs.get("steps")
    if obs.get("harness_error") or steps is None:
        seq_fail(ctx, name, prior, ops, "harness-error", str(obs.get("harness_error")), steps or [], fault)
        return
    old, old_settings = obs.get("prior"), obs.get("prior_settings")
    prev = {"paired": False, "svc": old, "settings": old_settings}
    for st in steps:
        opname = st["op"][0]
        changed = [k for k in ("paired", "svc", "settings") if st[k] != prev[k]]
        if st["err"] is not None:
            if st["err"] not in ("pairing", "connection"):
                seq_fail(ctx, name, prior, ops, "error-class:" + str(st["exc_name"]),
                         "%s() raised %s: not a pairing or connection error" % (opname, st["exc_name"]), steps, fault)
            if changed:
                seq_fail(ctx, name, prior, ops, "failed-call-changed-state",
                         "%s() raised but changed %s" % (opname, changed), steps, fault)
        elif changed:
            legit = (opname == "finish") or (name == "dmap" and opname == "request" and changed == ["paired"]
                                             and str(st.get("status", "")).split(" ")[1:2] == ["200"])
            if not legit:
                seq_fail(ctx, name, prior, ops, "state-changed-outside-finish",
                         "%s changed by %s" % (changed, opname), steps, fault)
            if opname == "finish" and not (st["paired"] and st["svc"] and st["svc"] == st["settings"]
                                           and st["svc"] not in (old, old_settings)):
                seq_fail(ctx, name, prior, ops, "inconsistent-success",
                         "finish() returned: has_paired=%s service=%r settings=%r" % (st["paired"], st["svc"], st["settings"]),
                         steps, fault)
        prev = {k: st[k] for k in prev}
    last = steps[-1] if steps else None
    if expect_last == "success" and last is not None and not (last["err"] is None and last["paired"] and last["svc"] not in (None, old)):
        seq_fail(ctx, name, prior, ops, "right-pin-failed", "the exchange with the right PIN did not pair: %s %s" % (last["err"], last["exc_name"]), steps, fault)
    if expect_last == "failure" and last is not None and not (last["err"] in ("pairing", "connection") and not last["paired"]
                                                              and last["svc"] == old and last["settings"] == old_settings):
        seq_fail(ctx, name, prior, ops, "wrong-pin-accepted", "the exchange with a wrong PIN current at finish() did not fail cleanly", steps, fault)


def sequence_sweep(ctx, lines, pending):
    prior = "AB"
    # --- MRP / Companion / AirPlay / RAOP: pin() twice, finish() after a failed finish(), begin() twice
    for name in [h for h in HANDLERS if h != "dmap"]:
        script = script_name(name, prior)
        plans = [
            ([("begin",), ("pin", "wrong"), ("pin", "right"), ("finish",)], None, "success"),
            ([("begin",), ("pin", "right"), ("pin", "wrong"), ("finish",)], None, "failure"),
            ([("begin",), ("pin", "wrong"), ("finish",), ("pin", "right"), ("finish",)], None, None),
            ([("begin",), ("pin", "wrong"), ("finish",), ("finish",)], None, None),
            ([("begin",), ("begin",), ("pin", "right"), ("finish",)], None, None),
        ]
        if ctx.thorough:
            plans += [([("begin",), ("pin", "right"), ("finish",), ("finish",)], None, None),
                      ([("begin",), ("pin", "right"), ("finish",), ("begin",), ("pin", "wrong"), ("finish",)], None, None),
                      ([("pin", "right"), ("finish",), ("begin",), ("pin", "right"), ("finish",)], None, None)]
        for ops, fault, expect in plans:
            obs = run_one(name, prior, fault, ctx.rng.fork("seq", name, repr(ops)), ops=ops)
            check_steps(ctx, name, prior, ops, obs, fault, expect)
            ctx.case(["seq", name, [list(o) for o in ops]], True, sample={"handler": name, "ops": [list(o) for o in ops],
                     "results": [(st["op"][0], st["err"], st["paired"]) for st in obs.get("steps", [])]})
            ctx.note("sequence:" + "+".join(o[0] for o in ops))
            if expect is not None and obs.get("steps"):
                last = obs["steps"][-1]
                good, bad = _pins(name)
                typed = good if ops[-2][1] == "right" else bad
                o2 = dict(obs, err=last["err"], paired=last["paired"], svc=last["svc"])
                o2["settings"] = dict(obs.get("settings") or {}, **{obs["slot"]: last["settings"]})
                lines.append("runpin %s %d %d" % (script, good, typed))
                pending.append(("run", {"handler": name, "ops": [list(o) for o in ops]}, canon_obs(o2)))
    # --- DMAP: pin() several times, requests in between, finish() repeatedly
    rng = ctx.rng.fork("seq", "dmap")
    pins = pin_values(ctx, "dmap-seq")
    seqs = []
    for a in pins[:3] if not ctx.thorough else pins:
        b = rng.choice([p for p in pins if p != a])
        x = rng.choice([p for p in range(10000) if p not in (a, b)])
        P, R, F = (lambda v: ("pin", v)), (lambda v: ("request", ("pin", v))), ("finish",)
        junk = ("request", ("raw", "WRONG"))
        seqs += [[P(a), R(x), P(b), R(a), F], [P(a), R(b), P(b), R(b), F], [P(a), junk, R(a), F, F],
                 [P(a), P(b), R(a), F], [P(a), P(b), R(b), F], [P(a), R(a), P(b), R(x), F]]
    for _ in range(ctx.scale(6, 40)):
        vals = rng.sample(pins, 2) + [rng.randrange(10000)]
        n = rng.randrange(3, 8)
        seq = [("pin", rng.choice(vals))]
        for _i in range(n):
            r = rng.random()
            seq.append(("pin", rng.choice(vals)) if r < 0.35 else ("finish",) if r < 0.5
                       else ("request", ("raw", "WRONG")) if r < 0.6 else ("request", ("pin", rng.choice(vals))))
        seqs.append(seq + [("finish",)])
    for ops in seqs:
        obs = run_one("dmap", prior, None, rng.fork(repr(ops)), ops=ops)
        check_steps(ctx, "dmap", prior, ops, obs)
        steps = obs.get("steps") or []
        ctx.case(["seq", "dmap", [list(o) for o in ops]], True,
                 sample={"handler": "dmap", "ops": [list(o) for o in ops], "status": [st.get("status") for st in steps]})
        ctx.note("sequence:dmap")
        words = ["p%d" % o[1] if o[0] == "pin" else "f" if o[0] == "finish"
                 else ("r%d" % o[1][1] if o[1][0] == "pin" else "rx") for o in ops]
        bits = "".join("1" if str(st.get("status", "")).split(" ")[1:2] == ["200"] else "0"
                       for st in steps if st["op"][0] == "request")
        last = steps[-1] if steps else {}
        stored = bool(last) and last.get("svc") not in (obs.get("prior"),) and last.get("svc") == last.get("settings")
        impl = "%d %d %s" % (bool(last.get("paired")), stored, bits or "-")
        # the property itself on the sequence: a request is accepted iff its code is that of the PIN current then
        cur, want = None, ""
        for o in ops:
            if o[0] == "pin":
                cur = o[1]
            elif o[0] == "request":
                want += "1" if (cur is None or (o[1][0] == "pin" and o[1][1] == cur)) else "0"
        if bits != want:
            i = next(j for j in range(min(len(bits), len(want)) + 1) if bits[j:j + 1] != want[j:j + 1])
            seq_fail(ctx, "dmap", prior, ops, "wrong-code-accepted" if bits[i:i + 1] == "1" else "right-code-refused",
                     "request #%d answered %s, the code %s that of the PIN current at that time" %
                     (i + 1, "200" if bits[i:i + 1] == "1" else "an error", "is not" if want[i:i + 1] == "0" else "is"), steps)
        lines.append("dmapseq " + ",".join(words))
        pending.append(("dmapseq", {"handler": "dmap", "ops": [list(o) for o in ops]}, impl))


def replay(ctx, failure):
    c2 = type(ctx)(ctx.prop, ctx.tier, ctx.seed, ctx.driver.driver_rel)
    run(c2, only=failure["case"])
    return any(f["sig"] == failure["sig"] for f in c2.failures) or bool(c2.failures)


def match_finding(failure, entry):
    """A known finding names handler + message + failure mode; the fault kind may be any of
    the listed ones."""
    m = entry.get("match") or {}
    parts = failure["sig"].split(":")
    if len(parts) < 4:
        return False
    handler, message, kind, tag = parts[0], parts[1], parts[2], ":".join(parts[3:])
    # "config" = the exchange failed because the handler's own configuration made its answer
    # unencodable: the same finding (DMAP never raises), whatever made the exchange fail
    return (handler == m.get("handler") and message == m.get("message")
            and (kind in m.get("kinds", []) or kind == "config") and tag == m.get("problem"))
