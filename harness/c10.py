"""C10 — correspondence + direct oracle for the listener path of the facade.

Real code driven (nothing of it is replaced except, for the "connect" build, the table
`pyatv.PROTOCOLS`, whose setup functions are ours): the real `pyatv.connect()` wiring (Core per
protocol, takeover method, state dispatcher) or a hand-assembled device; a real `FacadeAppleTV` (hence the real
`FacadePushUpdater`, `FacadeAudio`, `FacadeKeyboard`, `Relayer`, `FacadeAppleTV.takeover`)
on a real `CoreStateDispatcher`, 1..3 protocols each with a real `ProtocolStateDispatcher`
and a minimal `AbstractPushUpdater` subclass (only the abstract `active/start/stop` are
filled in; `post_update` is the real one), under `harness.core.vloop`.  User listeners
record every call together with the index of the event during which it arrived.

Event tokens (same text goes to the Lean driver, see lean/PyatvModel/C10/Driver.lean):
  p.<proto>.<val> post_update | s start | t stop | k.<proto>.<mask> takeover | r release
  v./o./f.<proto>.<val> dispatch Volume / OutputDevices / KeyboardFocus | d drain
  a.<proto>.<0|1> the updater's own `active` flag turns off / on by itself
  u.<op>.<val> user-initiated operation through the facade: v set_volume(domain level) | x set_volume(33.33/80/100)
               | u volume_up | w volume_down | o/g/h set/add/remove_output_devices | t text_set/append/clear
Mode D = the loop drains after every event (the property's histories); mode U = drains only
at `d` (finer scheduling granularity; model/implementation correspondence and the
scheduling-independent part of the oracle only).
"""
import asyncio
import itertools
import zlib

RULE = ("suite A: every history of exactly L events over {post p v (p registered, v in 3 values), start, stop, "
        "takeover p, release} for 1, 2 and 3 protocols (L per tier), loop drained after every event; suite B: the "
        "same for Volume / OutputDevices / KeyboardFocus dispatches from two protocols (+ Keyboard takeover/release); "
        "histories containing a takeover run (quick: two out of three, thorough: every second one) on a device built by the real pyatv.connect() with the takeover "
        "performed through the Core that connect() handed to that protocol (core.takeover), or on a hand-assembled "
        "FacadeAppleTV with facade.takeover(protocol, ...); histories without takeover alternate between the two builds; "
        "suite M (first chunk, with the corpus): 2-3 device objects alive in one process, built like a single one, events "
        "interleaved, each device compared with the single-device model on its own events (Lean: devices_independent); "
        "chunk-wise evaluation that stops generating once a chunk produced an oracle failure; pyatv loggers at DEBUG "
        "(runner default) except every second chunk of suites A/B at WARNING; "
        "suite U: user-initiated operations (set_volume incl. off-grid levels, volume_up/down, set/add/remove_output_devices, "
        "text_*) interleaved with the device's reports, the report after an operation being the requested, another or the "
        "unchanged value (the fake protocol only records the request), exhaustive short histories; "
        "suite F: updaters whose own `active` flag turns off/on by itself (independently of start/stop), exhaustive "
        "histories for one and two protocols incl. takeover; suite D: for every Playing domain (each constructor field varied alone over three values, once without and once "
        "with an explicit hash shared by the three states; hash alone; colliding calculated hashes; unset/empty; mixed) "
        "every short post sequence; suite E: user listeners (push / volume / output devices / focus) that raise on their "
        "k-th call, k = 1..3, after recording it, exhaustive short histories per kind; suite A rotates through all Playing "
        "domains; suite C: seeded random histories mixing everything (random domain, 40 % with raising listeners), registered sets drawn from the 5 protocols, half of them "
        "with drains only at explicit points; plus fixed witnesses. non-trivial = at least one listener call was "
        "delivered AND at least one produced state/value was suppressed (duplicate, not serving, stopped, unchanged); "
        "distinct = (mode, registered sets, Playing field, event list)")
ASSUMPTIONS = [
    "asyncio runs call_soon callbacks in FIFO order (the model's queue is FIFO); not proved, exercised by the real loop",
    "granularity: the property's histories are sequences of events each followed by a drain of the loop (mode D). "
    "At finer granularity (mode U) everything except 'nothing after stop()' still holds; a play status already queued "
    "with call_soon when stop() is called IS delivered afterwards on the real code (theorem stop_undrained_delivers, "
    "replayed each run and recorded under notes.undrained_post_then_stop) — not counted as a violation",
    "the protocol updaters' own `active` flag is protocol state: start()/stop() set it through the updater's "
    "start()/stop(), and it may change by itself (scripted `a.p.b` events: poller died / restarted); the facade's delivery "
    "decisions do not depend on it on the pinned code (Lean: selfact_irrelevant); the oracle keeps demanding nothing after "
    "stop(), only from the serving protocol, only on change, and does not demand delivery from an updater that reports "
    "itself inactive",
    "user-initiated operations are relayed to a protocol instance that records the request and applies nothing by "
    "itself; what the device reports afterwards is a separate scripted event. The oracle applies to the reports only "
    "(only on change, (old,new) = what was reported before / now); on the pinned code the operations touch no listener "
    "state (Lean: userop_irrelevant)",
    "the user's listener objects stay alive (StateProducer keeps weak references); they record every call and, when "
    "scripted, raise on their k-th call after recording it — the exception goes to the loop's exception handler and, "
    "as on the pinned code (value stored / _previous_state set before the listener is called), changes nothing in the "
    "model state; later notifications must still be correct",
    "at the property's granularity the oracle also demands delivery: a state differing (in any field, decided by the "
    "harness's own value index, not by Playing.__eq__) from the one the serving, started updater produced before must "
    "reach the user; a dispatched volume / device list (focus: from the Keyboard-serving protocol) differing from the "
    "last notified value must be notified (Lean: drained_post_exact, drained_change_exact)",
    "'differs from the status previously delivered by that updater' is read as: differs from the state that updater "
    "produced immediately before (what post_update compares with); 'correct old value' as: the previous notification's "
    "new value (initially 0.0 / [] / Unknown)",
]
TRUSTED = ["harness/c10.py: minimal AbstractPushUpdater subclass, recording listeners, event executor",
           "harness.core.vloop virtual-time loop (ready queue untouched)"]

MASKS = {0: (False, False), 1: (True, False), 2: (False, True), 3: (True, True)}


# ------------------------------------------------------------------------------------------
# real-code world
# ------------------------------------------------------------------------------------------

class _Env:
    """Imports of the code under test (lazy) and the value domains."""

    def __init__(self):
        from ipaddress import IPv4Address

        from pyatv import const, exceptions, interface
        from pyatv.conf import AppleTV as Conf
        from pyatv.core import (AbstractPushUpdater, CoreStateDispatcher, ProtocolStateDispatcher, SetupData,
                                UpdatedState)
        from pyatv.core import facade
        from pyatv.settings import Settings

        self.const, self.exceptions, self.interface = const, exceptions, interface
        self.facade, self.Settings, self.SetupData = facade, Settings, SetupData
        self.CoreStateDispatcher, self.ProtocolStateDispatcher = CoreStateDispatcher, ProtocolStateDispatcher
        self.UpdatedState = UpdatedState
        self.conf = Conf(IPv4Address("127.0.0.1"), "verif")
        from pyatv.core import MutableService

        from pyatv.storage.memory_storage import MemoryStorage

        self.storage = MemoryStorage()      # one storage for the one device: its Settings are created once
        self.settings = Settings()
        self.full_config = Conf(IPv4Address("127.0.0.1"), "verif")    # one service per protocol, for pyatv.connect()
        for proto in facade.DEFAULT_PRIORITIES:
            self.full_config.add_service(MutableService("id-" + proto.name, proto, 1234, {}))
        self.priorities = list(facade.DEFAULT_PRIORITIES)  # index = the model's protocol number

        class Updater(AbstractPushUpdater):
            def __init__(self, dispatcher):
                super().__init__(dispatcher)
                self._active = False

            @property
            def active(self):
                return self._active

            def start(self, initial_delay=0):
                self._active = True

            def stop(self):
                self._active = False

            def turn(self, active):
                """The protocol's own doing: the poller dies after an error / a task is cancelled
                (inactive while still holding the listener) or the protocol restarts it."""
                self._active = active

        class Kbd(interface.Keyboard):
            """Protocol keyboard: accepts the user's text operations, reports nothing by itself."""

            def __init__(self):
                super().__init__()
                self.requests = []

            @property
            def text_focus_state(self):
                return const.KeyboardFocusState.Unknown

            async def text_set(self, text):
                self.requests.append(("text_set", text))

            async def text_append(self, text):
                self.requests.append(("text_append", text))

            async def text_clear(self):
                self.requests.append(("text_clear",))

        class Aud(interface.Audio):
            """Protocol audio of a device that does not (necessarily) apply what is requested: it only
            records the request; what the device then *reports* is scripted separately (`v.`/`o.` events:
            the requested value, another one - rounding, a device-side limit - or the unchanged one)."""

            def __init__(self):
                super().__init__()
                self.requests = []

            @property
            def volume(self):
                return 0.0

            async def set_volume(self, level):
                self.requests.append(("set_volume", level))

            async def volume_up(self):
                self.requests.append(("volume_up",))

            async def volume_down(self):
                self.requests.append(("volume_down",))

            @property
            def output_devices(self):
                return []

            async def add_output_devices(self, *devices):
                self.requests.append(("add_output_devices", devices))

            async def remove_output_devices(self, *devices):
                self.requests.append(("remove_output_devices", devices))

            async def set_output_devices(self, *devices):
                self.requests.append(("set_output_devices", devices))

        self.Updater, self.Kbd, self.Aud = Updater, Kbd, Aud
        self.volumes = [0.0, 30.0, 60.0]
        self.focus = [const.KeyboardFocusState.Unknown, const.KeyboardFocusState.Unfocused,
                      const.KeyboardFocusState.Focused]
        self._build_domains()

    # -- Playing value domains ---------------------------------------------------------------
    def _build_domains(self):
        """Every constructor field of Playing varied on its own (three values), once without and
        once with an explicit hash shared by the three states; states equal in everything but
        the hash; states whose calculated hashes collide; a mixed domain.  Built from the real
        constructor signature, so a new field is picked up (or reported as skipped)."""
        import enum
        import inspect
        import typing

        playing = self.interface.Playing
        base = {"title": "t", "artist": "a", "album": "b", "total_time": 1000}
        domains, skipped = {}, []
        try:
            hints = typing.get_type_hints(playing.__init__)
        except Exception:
            hints = {}
        for name in inspect.signature(playing.__init__).parameters:
            if name == "self":
                continue
            ann = hints.get(name)
            args = [x for x in typing.get_args(ann) if x is not type(None)] or [ann]
            typ = args[0]
            if isinstance(typ, type) and issubclass(typ, enum.Enum):
                pool = list(typ)[:3]
            elif typ is str:
                pool = [f"{name}-0", f"{name}-1", f"{name}-2"]
            elif typ is int:
                pool = [100, 200, 300] if name == "total_time" else [5, 10, 20]
            else:
                skipped.append(name)
                continue
            if len(pool) < 3:
                skipped.append(name)
                continue
            domains[name] = [dict(base, **{name: x}) for x in pool]
            if name != "hash":
                domains[name + "+hash"] = [dict(base, hash="shared-hash", **{name: x}) for x in pool]
        domains["collide"] = [dict(title="ab", artist="c", album="d"), dict(title="a", artist="bc", album="d"),
                              dict(title="a", artist="b", album="cd")]
        domains["unset"] = [dict(), dict(title=""), dict(title="t")]
        if all(k in domains for k in ("device_state", "position", "repeat")):
            domains["mixed"] = [dict(domains["device_state"][0], position=5), dict(domains["device_state"][1], position=5, genre="g"),
                                dict(domains["repeat"][2], hash="shared-hash")]
        # keep only domains whose three states really differ in a public property (no use of __eq__)
        props = list(getattr(playing, "_PROPERTIES", [])) or [n for n in inspect.signature(playing.__init__).parameters if n != "self"]
        good = {}
        for name, kws in domains.items():
            try:
                views = [tuple(repr(getattr(playing(**kw), pr, None)) for pr in props) for kw in kws]
            except Exception:
                skipped.append(name)
                continue
            if len(set(views)) == 3:
                good[name] = kws
            else:
                skipped.append(name)
        self.domains, self.domains_skipped = good, skipped
        self.domain_names = sorted(good)

    def playing(self, domain, v):
        kws = self.domains.get(domain) or self.domains[self.domain_names[0]]
        return self.interface.Playing(**kws[v])

    def devices(self, v):
        od = self.interface.OutputDevice
        return [od("Dev A", "a"), od("Dev B", "b")][:v]

    def devices_val(self, lst):
        try:
            ids = [d.identifier for d in lst]
            return {(): 0, ("a",): 1, ("a", "b"): 2}[tuple(ids)]
        except Exception:
            return "?"

    def index_of(self, dom, x):
        try:
            return dom.index(x)
        except Exception:
            return "?"


class _SessionManager:
    async def close(self):
        return None


class ListenerFault(RuntimeError):
    """Raised by the recording listener on its k-th call (after recording it)."""


class _Listener:
    """PushListener + AudioListener + KeyboardListener that records every call and, if asked
    to, raises on its k-th call of a kind (the call is recorded first)."""

    def __init__(self, world):
        self.w = world
        self.calls = {}

    def _rec(self, kind, x, y):
        w = self.w
        w.log.append((w.idx, kind, x, y))
        n = self.calls[kind] = self.calls.get(kind, 0) + 1
        if w.raises.get(kind) == n:
            w.faults += 1
            raise ListenerFault(f"{kind} listener fails on call {n}")

    def playstatus_update(self, updater, playstatus):
        w = self.w
        p = next((i for i, u in w.updaters.items() if u is updater), "?")
        self._rec("P", p, w.posted.get(id(playstatus), "?"))

    def playstatus_error(self, updater, exception):
        self._rec("E", "?", "?")

    def volume_update(self, old_level, new_level):
        w = self.w
        self._rec("V", w.env.index_of(w.env.volumes, old_level), w.env.index_of(w.env.volumes, new_level))

    def outputdevices_update(self, old_devices, new_devices):
        w = self.w
        self._rec("O", w.env.devices_val(old_devices), w.env.devices_val(new_devices))

    def focusstate_update(self, old_state, new_state):
        w = self.w
        self._rec("F", w.env.index_of(w.env.focus, old_state), w.env.index_of(w.env.focus, new_state))


def parse_raises(s):
    """'P2,V1' -> {'P': 2, 'V': 1}: the listener of that kind raises on its k-th call."""
    return {x[0]: int(x[1:]) for x in s.split(",") if x} if s else {}


class _World:
    def __init__(self, env, domain, raises):
        self.env, self.domain = env, domain
        self.raises = parse_raises(raises)
        self.faults = 0
        self.loop_errors = []
        self.posted = {}
        self.keep = []
        self.idx = 0
        self.log = []
        self.refused = []
        self.errors = []
        self.updaters = {}
        self.dispatchers = {}
        self.handles = []
        self.userop_errors = 0
        self.cores = {}


async def _settle():
    # everything queued with call_soon before this point runs during the first yield (FIFO);
    # the extra yields only matter if changed code adds a hop
    await asyncio.sleep(0)
    await asyncio.sleep(0)
    await asyncio.sleep(0)


def _interfaces_for(env, w, i, reg_p, reg_k):
    ifaces = {env.interface.Audio: env.Aud()}
    if i in reg_p:
        ifaces[env.interface.PushUpdater] = w.updaters[i]
    if i in reg_k:
        ifaces[env.interface.Keyboard] = env.Kbd()
    return ifaces


async def _answer_true():
    return True


async def _build_direct(env, w, reg_p, reg_k):
    """A FacadeAppleTV put together by hand; takeovers go through facade.takeover(protocol, ...)."""
    core = env.CoreStateDispatcher()
    atv = env.facade.FacadeAppleTV(env.conf, _SessionManager(), core, env.settings)
    for i, proto in enumerate(env.priorities):
        w.dispatchers[i] = env.ProtocolStateDispatcher(proto, core)
        w.updaters[i] = env.Updater(w.dispatchers[i])      # registered only if i in reg_p
    for i in sorted(set(reg_p) | set(reg_k)):
        atv.add_protocol(env.SetupData(env.priorities[i], _answer_true, lambda: set(), lambda: {},
                                       _interfaces_for(env, w, i, reg_p, reg_k), set()))
    await atv.connect()
    return atv


class _Session:
    """Stands in for aiohttp.ClientSession (only stored)."""


async def _build_via_connect(env, w, reg_p, reg_k):
    """The device object as the real `pyatv.connect()` builds it (no network).  Only the table
    `pyatv.PROTOCOLS` is replaced — same keys in the same order, each `setup(core)` being ours:
    it keeps the Core that connect() created and wired for that protocol (state dispatcher,
    takeover method), builds the scripted updater on the core's dispatcher and yields the
    SetupData.  "takeover by protocol p" is then `cores[p].takeover(...)`, the way protocol
    code performs it."""
    import pyatv

    real = pyatv.PROTOCOLS

    def wrap(proto, methods):
        i = env.priorities.index(proto)

        def setup(core):
            w.cores[i] = core
            w.dispatchers[i] = core.state_dispatcher
            w.updaters[i] = env.Updater(core.state_dispatcher)
            if i in reg_p or i in reg_k:
                yield env.SetupData(proto, _answer_true, lambda: set(), lambda: {},
                                    _interfaces_for(env, w, i, reg_p, reg_k), set())

        return methods._replace(setup=setup)

    pyatv.PROTOCOLS = {proto: wrap(proto, m) for proto, m in real.items() if proto in env.priorities}
    try:
        return await pyatv.connect(env.full_config, asyncio.get_running_loop(), session=_Session(),
                                   storage=env.storage)
    finally:
        pyatv.PROTOCOLS = real


class _Device:
    """One device object alive in the process: its world, facade parts, listener and script."""

    def __init__(self, env, case):
        self.env = env
        self.mode, self.reg_p, self.reg_k, self.domain, self.toks, raises = case[:6]
        self.build = case[6] if len(case) > 6 and case[6] else "direct"
        self.w = _World(env, self.domain, raises)
        self.next = 0

    async def setup(self):
        env, w = self.env, self.w
        if self.build == "connect":
            self.atv = await _build_via_connect(env, w, self.reg_p, self.reg_k)
        else:
            self.atv = await _build_direct(env, w, self.reg_p, self.reg_k)
        self.listener = _Listener(w)
        self.push, self.audio, self.kbd = self.atv.push_updater, self.atv.audio, self.atv.keyboard
        self.push.listener = self.listener
        self.audio.listener = self.listener
        self.kbd.listener = self.listener

    @property
    def done(self):
        return self.next >= len(self.toks)

    async def step(self):
        """Execute this device's next event."""
        env, w, atv = self.env, self.w, self.atv
        idx, tok = self.next, self.toks[self.next]
        self.next += 1
        w.idx = idx
        us = env.UpdatedState
        f = tok.split(".")
        try:
            if f[0] == "p":
                obj = env.playing(self.domain, int(f[2]))      # a fresh object for every post
                w.keep.append(obj)
                w.posted[id(obj)] = int(f[2])
                w.updaters[int(f[1])].post_update(obj)
            elif f[0] == "s":
                self.push.start()
            elif f[0] == "t":
                self.push.stop()
            elif f[0] == "k":
                a, b = MASKS[int(f[2])]
                ifs = ([env.interface.PushUpdater] if a else []) + ([env.interface.Keyboard] if b else [])
                try:
                    if self.build == "connect":      # through the Core that connect() handed to protocol p
                        w.handles.append(w.cores[int(f[1])].takeover(*ifs))
                    else:
                        w.handles.append(atv.takeover(env.priorities[int(f[1])], *ifs))
                except env.exceptions.InvalidStateError:
                    w.refused.append(idx)
            elif f[0] == "r":
                if w.handles:
                    w.handles.pop()()
            elif f[0] == "v":
                w.dispatchers[int(f[1])].dispatch(us.Volume, env.volumes[int(f[2])])
            elif f[0] == "o":
                w.dispatchers[int(f[1])].dispatch(us.OutputDevices, env.devices(int(f[2])))
            elif f[0] == "f":
                w.dispatchers[int(f[1])].dispatch(us.KeyboardFocus, env.focus[int(f[2])])
            elif f[0] == "a":
                w.updaters[int(f[1])].turn(f[2] == "1")
            elif f[0] == "u":
                await self.user_op(f[1], int(f[2]))
            elif f[0] == "d":
                await _settle()
            else:
                raise ValueError(tok)
            if self.mode == "D":
                await _settle()
        except Exception as exc:  # changed code may raise: an observation, never a harness crash
            w.errors.append((idx, type(exc).__name__))
        if self.done:
            w.idx = len(self.toks)      # anything arriving from now on is recorded past the end

    async def user_op(self, op, v):
        """A user-initiated operation through the public facade (relayed to the serving protocol's
        instance).  Its own outcome is not part of the property: pyatv errors (nothing implements
        it, blocked, ...) are counted, not compared."""
        env, audio, kbd = self.env, self.audio, self.kbd
        ids = [d.identifier for d in env.devices(max(v, 1))]
        try:
            if op == "v":
                await audio.set_volume(env.volumes[v])
            elif op == "x":
                await audio.set_volume([33.33, 80.0, 100.0][v])     # levels a device rounds / limits
            elif op == "u":
                await audio.volume_up()
            elif op == "w":
                await audio.volume_down()
            elif op == "o":
                await audio.set_output_devices(*ids)
            elif op == "g":
                await audio.add_output_devices(*ids)
            elif op == "h":
                await audio.remove_output_devices(*ids)
            elif op == "t":
                await [kbd.text_set, kbd.text_append][v % 2]("abc") if v < 2 else await kbd.text_clear()
            else:
                raise ValueError(op)
        except (env.exceptions.NotSupportedError, env.exceptions.ProtocolError, env.exceptions.BlockedStateError,
                env.exceptions.InvalidStateError):
            self.w.userop_errors += 1

    def result(self):
        env, w, push, audio, kbd = self.env, self.w, self.push, self.audio, self.kbd
        try:
            main_p = env.priorities.index(push.main_protocol) if push.main_protocol is not None else None
            main_k = env.priorities.index(kbd.main_protocol) if kbd.main_protocol is not None else None
        except Exception as exc:
            main_p = main_k = "exc:" + type(exc).__name__
        try:
            active = 1 if push.active else 0
        except env.exceptions.NotSupportedError:
            active = None
        except Exception as exc:
            active = "exc:" + type(exc).__name__
        cur = (env.index_of(env.volumes, getattr(audio, "_volume", None)) if hasattr(audio, "_volume") else None,
               env.devices_val(getattr(audio, "_output_devices")) if hasattr(audio, "_output_devices") else None,
               env.index_of(env.focus, getattr(kbd, "_focus_state", None)) if hasattr(kbd, "_focus_state") else None)
        return {"log": w.log, "refused": w.refused, "errors": w.errors + [(-2, "loop:" + e) for e in w.loop_errors],
                "main_p": main_p, "main_k": main_k, "cur": cur, "active": active, "faults": w.faults}


async def _run_group(env, members, schedule):
    """Several device objects alive in one process, built the way a single one is; their events
    interleaved according to `schedule` (device indices; whatever is left over runs afterwards,
    device by device).  Returns one result per member."""
    devs = [_Device(env, c) for c in members]
    loop = asyncio.get_running_loop()

    def _on_loop_error(_loop, context):
        # what asyncio does with an exception escaping a call_soon callback: hand it to the
        # loop's exception handler.  Our own listener faults are expected; anything else is recorded.
        exc = context.get("exception")
        if not isinstance(exc, ListenerFault):
            for d in devs:
                d.w.loop_errors.append(type(exc).__name__ if exc is not None else str(context.get("message"))[:60])

    loop.set_exception_handler(_on_loop_error)
    for d in devs:
        await d.setup()
    for k in list(schedule) + [i for i, d in enumerate(devs) for _ in d.toks]:
        if 0 <= k < len(devs) and not devs[k].done:
            await devs[k].step()
    results = [d.result() for d in devs]     # state observed before the final drain
    for d in devs:
        d.w.idx = len(d.toks)
    await _settle()   # U-mode histories end with `d`; anything arriving now is recorded past the end
    return results


async def _run_case(env, case):
    """A single device, or (case[7] = (members, schedule, me)) one member of a multi-device group."""
    if len(case) > 7 and case[7]:
        members, schedule, me = case[7]
        members = list(members)
        members[me] = case[:7]
        return (await _run_group(env, members, schedule))[me]
    return (await _run_group(env, [case], []))[0]


def execute(env, cases):
    from harness.core import vloop

    async def _all():
        out = []
        for case in cases:
            try:
                r = await _run_case(env, case)
            except Exception as exc:
                r = {"log": [], "refused": [], "errors": [(-1, type(exc).__name__ + ":" + str(exc)[:80])],
                     "main_p": None, "main_k": None, "cur": (None, None, None), "active": None, "faults": 0}
            out.append(r)
        return out

    return vloop.run(_all)


# ------------------------------------------------------------------------------------------
# direct oracle: the property text evaluated on what the real listeners received
# ------------------------------------------------------------------------------------------

def oracle(case, res):
    """Returns (problems, delivered, suppressed).  problems: list of (sig, text)."""
    mode, reg_p, reg_k, _domain, toks, _raises = case[:6]
    problems = []
    by_idx = {}
    for ent in res["log"]:
        by_idx.setdefault(ent[0], []).append(ent)
    refused = set(res["refused"])
    started = False
    active = {}             # the updaters' own `active` flag (start/stop set it, `a.p.b` changes it)
    hist = {}               # updater -> produced states
    eff = []                # (event idx, p, v, consumed?) posts the property allows to be delivered
    holder = None           # takeover holder of the PushUpdater interface
    holder_k = None         # takeover holder of the Keyboard interface
    handles = []
    dispatched = {"V": [], "O": [], "F": []}    # (event idx, value, consumed?)
    expected_old = {"V": 0, "O": 0, "F": 0}
    delivered = suppressed = 0

    def serving():
        if holder is not None and holder in reg_p:
            return holder
        return min(reg_p) if reg_p else None

    def serving_k():
        if holder_k is not None and holder_k in reg_k:
            return holder_k
        return min(reg_k) if reg_k else None

    for idx in range(len(toks) + 1):
        tok = toks[idx] if idx < len(toks) else None
        f = tok.split(".") if tok else ["end"]
        if f[0] == "p":
            p, v = int(f[1]), int(f[2])
            h = hist.setdefault(p, [])
            allowed = started and (not h or h[-1] != v)
            h.append(v)
            eff.append([idx, p, v, not allowed])
        elif f[0] == "s":
            started = True
            active.update({q: True for q in reg_p})
        elif f[0] == "t":
            started = False
            active.update({q: False for q in reg_p})
        elif f[0] == "a":
            active[int(f[1])] = f[2] == "1"
        elif f[0] == "k":
            a, b = MASKS[int(f[2])]
            if idx not in refused:
                handles.append((a, b))
                if a:
                    holder = int(f[1])
                if b:
                    holder_k = int(f[1])
        elif f[0] == "r":
            if handles:
                a, b = handles.pop()
                if a:
                    holder = None
                if b:
                    holder_k = None
        elif f[0] in "vof":
            dispatched[f[0].upper()].append([idx, int(f[2]), False])
        got = by_idx.get(idx, [])
        if mode == "D" and f[0] == "p":
            # a state that differs from the one this updater produced before, produced while started by
            # the serving protocol, must reach the user (during this event, at this granularity)
            ent = eff[-1]
            # (not demanded of an updater that reports itself inactive: the text is silent about that)
            if (not ent[3] and ent[1] == serving() and ent[1] in reg_p and active.get(ent[1], False)
                    and not any(g[1] == "P" for g in got)):
                problems.append(("play:missing", f"event {idx} ({tok}): updater {ent[1]} serves, is started and produced a state "
                                 "different from its previous one, but the user's listener was not notified"))
        if mode == "D" and f[0] in "vof":
            kind = f[0].upper()
            v = int(f[2])
            if v != expected_old[kind] and not any(g[1] == kind for g in got) and (
                    kind != "F" or int(f[1]) == serving_k()):
                name = {"V": "volume", "O": "outputdevices", "F": "focus"}[kind]
                problems.append((f"{name}:missing", f"event {idx} ({tok}): value changed from {expected_old[kind]} to {v} "
                                 "but the listener was not called"))
                expected_old[kind] = v if kind != "F" else expected_old[kind]
        if idx == len(toks) and got:
            problems.append(("late", "listener called after the final drain: %r" % (got,)))
        for (_i, kind, x, y) in got:
            delivered += 1
            if kind == "P":
                p, v = x, y
                if p == "?" or v == "?":
                    problems.append(("play:unknown", f"event {idx}: play status from an unknown updater / with an unknown state"))
                    continue
                if mode == "D":
                    # the property's granularity: this delivery belongs to the event just executed
                    if f[0] != "p" or (int(f[1]), int(f[2])) != (p, v):
                        problems.append(("play:order", f"event {idx} ({tok}): received ({p},{v}) which is not the state just produced"))
                        continue
                    ent = eff[-1]
                    h = hist[p]
                    if ent[3] and len(h) >= 2 and h[-2] == v:
                        problems.append(("play:dup", f"event {idx} ({tok}): notified although equal to the state updater {p} produced before"))
                    elif ent[3] and not started:
                        problems.append(("play:after-stop", f"event {idx} ({tok}): notified while stopped / not started"))
                    elif ent[3]:
                        problems.append(("play:dup", f"event {idx} ({tok}): the same produced state was delivered twice"))
                    ent[3] = True
                else:
                    # finer granularity: deliveries must embed, in order, into the allowed posts made earlier
                    k = next((j for j, e in enumerate(eff) if not e[3] and e[0] < idx and (e[1], e[2]) == (p, v)), None)
                    if k is None:
                        problems.append(("play:order-or-dup", f"event {idx}: received ({p},{v}) which no earlier undelivered post "
                                         "made while started and different from its predecessor accounts for"))
                    else:
                        for e in eff[:k + 1]:
                            e[3] = True
                if p != serving():
                    problems.append(("play:not-main", f"event {idx} ({tok}): play status from protocol {p} reached the user while "
                                     f"protocol {serving()} serves (holder={holder}, registered={reg_p})"))
            elif kind in "VOF":
                old, new = x, y
                name = {"V": "volume", "O": "outputdevices", "F": "focus"}[kind]
                if old == new:
                    problems.append((f"{name}:no-change", f"event {idx} ({tok}): listener called with old == new == {old}"))
                if old != expected_old[kind]:
                    problems.append((f"{name}:wrong-old", f"event {idx} ({tok}): old={old} but the value before was {expected_old[kind]}"))
                cand = dispatched[kind]
                if mode == "D":
                    ok = bool(cand) and cand[-1][0] == idx and cand[-1][1] == new
                else:
                    k = next((j for j, e in enumerate(cand) if not e[2] and e[0] < idx and e[1] == new), None)
                    ok = k is not None
                    if ok:
                        for e in cand[:k + 1]:
                            e[2] = True
                if not ok:
                    problems.append((f"{name}:wrong-new", f"event {idx} ({tok}): new={new} is not the value that was dispatched"))
                expected_old[kind] = new
            else:
                problems.append(("unexpected-call", f"event {idx}: {kind}"))
    n_states = len(eff) + sum(len(v) for v in dispatched.values())
    suppressed = max(0, n_states - delivered)
    return problems, delivered, suppressed


# ------------------------------------------------------------------------------------------
# generators
# ------------------------------------------------------------------------------------------

def suite_a(ctx, env):
    """Exhaustive push histories at the property's granularity (the Playing domain rotates
    through all domains from history to history)."""
    plan = [([0], ctx.scale(5, 6)), ([0, 4], ctx.scale(4, 5)), ([1, 2, 4], ctx.scale(3, 4))]
    names = env.domain_names
    n = 0
    for reg, length in plan:
        alpha = [f"p.{p}.{v}" for p in reg for v in range(3)] + ["s", "t", "r"] + [f"k.{p}.1" for p in reg]
        for t in itertools.product(alpha, repeat=length):
            n += 1
            yield ("D", reg, reg, names[n % len(names)], list(t), "")


def suite_b(ctx, env):
    """Exhaustive volume / output-device / focus histories at the property's granularity."""
    length = ctx.scale(4, 5)
    dom = env.domain_names[0]
    for kind in "vo":
        alpha = [f"{kind}.{p}.{v}" for p in (0, 4) for v in range(3)]
        for t in itertools.product(alpha, repeat=length):
            yield ("D", [0], [0, 4], dom, list(t), "")
    alpha = [f"f.{p}.{v}" for p in (0, 4) for v in range(3)] + ["k.0.2", "k.4.2", "r"]
    for reg_k in ([0, 4], [0]):
        for t in itertools.product(alpha, repeat=length if reg_k == [0, 4] else length - 1):
            yield ("D", [0], reg_k, dom, list(t), "")


def suite_d(ctx, env):
    """Every Playing domain (each field alone, with and without a shared explicit hash, hash
    alone, colliding calculated hashes, ...): start, then every sequence of `length` posts over
    the three states by one updater; and the same from the second of two protocols."""
    length = ctx.scale(3, 4)
    for dom in env.domain_names:
        for t in itertools.product(range(3), repeat=length):
            yield ("D", [0], [], dom, ["s"] + [f"p.0.{v}" for v in t], "")
        for t in itertools.product(range(3), repeat=2):
            yield ("D", [1, 3], [], dom, ["s", "k.3.1"] + [f"p.3.{v}" for v in t] + ["r", "p.1.0", "p.1.1"], "")
            yield ("U", [2], [], dom, ["s"] + [f"p.2.{v}" for v in t] + ["d"], "")


def suite_e(ctx, env):
    """User listeners that raise on their k-th call (the call is recorded first): every later
    notification must still be correct.  Exhaustive short histories per listener kind."""
    length = ctx.scale(4, 5)
    doms = env.domain_names
    n = 0
    for k in (1, 2, 3):
        for kind in "vo":
            for t in itertools.product(range(3), repeat=length):
                yield ("D", [0], [0], doms[0], [f"{kind}.0.{v}" for v in t], f"{kind.upper()}{k}")
        for t in itertools.product(range(3), repeat=length):
            yield ("D", [0], [2], doms[0], [f"f.2.{v}" for v in t], f"F{k}")
        for t in itertools.product(range(3), repeat=length):
            n += 1
            yield ("D", [0, 4], [], doms[n % len(doms)], ["s"] + [f"p.0.{v}" for v in t], f"P{k}")
        # all listeners faulty at once, values interleaved
        for t in itertools.product(range(1, 3), repeat=3):
            toks = ["s"]
            for j, v in enumerate(t):
                toks += [f"v.0.{v}", f"o.4.{v}", f"f.0.{v}", f"p.0.{v}", f"v.4.{(v + j) % 3}", f"p.0.{(v + 1) % 3}"]
            yield ("D", [0], [0], doms[(n + k) % len(doms)], toks, f"P{k},V{k},O{k},F{k}")


def suite_f(ctx, env):
    """Updaters whose own `active` flag changes independently of the facade's start()/stop()
    (a.<p>.0 = turns inactive by itself while still holding the listener, a.<p>.1 = active
    again): exhaustive histories at the property's granularity, one and two protocols."""
    names = env.domain_names
    n = 0
    length = ctx.scale(5, 6)
    for reg, alpha in (([0], ["p.0.0", "p.0.1", "s", "t", "a.0.0", "a.0.1"]),
                       ([0, 4], ["p.4.1", "p.0.1", "s", "t", "a.4.0", "k.4.1"])):
        for t in itertools.product(alpha, repeat=length):
            if not any(x.startswith("a.") for x in t):
                continue            # covered by suite A
            n += 1
            yield ("D", reg, [], names[n % len(names)], list(t), "")


def group_cases(members, schedule):
    """One case per member of a multi-device group (each is checked against the single-device
    model run on that device's own events)."""
    members = [tuple(m[:7]) if len(m) > 6 else tuple(m) + ("direct",) for m in members]
    return [m + ((members, list(schedule), i),) for i, m in enumerate(members)]


def suite_m(ctx, env, rng):
    """Several device objects alive in one process (2, sometimes 3), each built the way a single
    one is (both builds), their events interleaved; every event followed by a drain."""
    fixed = [
        [("D", [0], [0], "title", "v.0.1 o.0.1 f.0.1 s p.0.1 v.0.2 p.0.2".split(), ""),
         ("D", [0], [0], "title", "s p.0.2 v.0.2 f.0.2 o.0.2 v.0.1 p.0.1".split(), "")],
        [("D", [0, 4], [0], "album", "s k.4.1 p.4.1 p.0.1 r p.0.2 t".split(), "", "connect"),
         ("D", [0, 4], [0], "album", "s p.0.1 p.4.1 k.4.3 f.4.1 f.0.2 p.4.2".split(), "", "connect"),
         ("D", [2], [], "hash", "p.2.1 s p.2.1 p.2.2 v.2.1".split(), "")],
    ]
    for members in fixed:
        n = sum(len(m[4]) for m in members)
        for schedule in ([i % len(members) for i in range(n * len(members))],
                         [i for i, m in enumerate(members) for _ in m[4]],
                         [i for i, m in reversed(list(enumerate(members))) for _ in m[4]]):
            yield from group_cases(members, schedule)
    for _ in range(ctx.scale(150, 2000)):
        k = 2 if rng.random() < 0.7 else 3
        members = []
        for _j in range(k):
            c = random_case(rng, ctx.scale(8, 12), env)
            toks = [x for x in c[4] if x != "d"]
            members.append(("D", c[1], c[2], c[3], toks, c[5], rng.choice(["connect", "direct"])))
        schedule = [i for i, m in enumerate(members) for _ in m[4]]
        rng.shuffle(schedule)
        yield from group_cases(members, schedule)


def suite_u(ctx, env):
    """User-initiated operations (set_volume with on- and off-grid levels, volume_up/down,
    set/add/remove_output_devices, text_*) interleaved with the device's reports, where the value
    reported afterwards is the requested one, another one or the unchanged one: exhaustive
    histories at the property's granularity."""
    length = ctx.scale(4, 5)
    dom = env.domain_names[0]
    for alpha, reg_k in (
            (["v.0.0", "v.0.1", "v.0.2", "u.v.0", "u.v.1", "u.v.2", "u.x.1", "u.u.0", "u.w.0"], [0]),
            (["o.0.0", "o.0.1", "o.0.2", "u.o.1", "u.o.2", "u.g.2", "u.h.1"], [0]),
            (["f.0.1", "f.0.2", "f.4.1", "u.t.0", "u.t.2", "v.4.1", "u.v.1"], [0, 4])):
        for t in itertools.product(alpha, repeat=length):
            if any(x.startswith("u.") for x in t):
                yield ("D", [0], reg_k, dom, list(t), "")


def random_raises(rng):
    if rng.random() < 0.6:
        return ""
    kinds = rng.sample("PVOF", rng.choice([1, 1, 2, 4]))
    return ",".join(f"{k}{rng.randint(1, 3)}" for k in sorted(kinds))


def random_case(rng, maxlen, env):
    mode = "D" if rng.random() < 0.5 else "U"
    n_p = rng.choice([1, 2, 2, 3])
    reg_p = sorted(rng.sample(range(5), n_p))
    reg_k = sorted(rng.sample(range(5), rng.choice([0, 1, 2, 2, 3])))
    domain = rng.choice(env.domain_names)
    n = rng.randint(4, maxlen)
    toks = ["s"] if rng.random() < 0.7 else []
    focus_on = rng.random() < 0.5      # half of the histories concentrate on play statuses
    while len(toks) < n:
        r = rng.random()
        if r < (0.30 if focus_on else 0.50):
            p = rng.choice(reg_p) if rng.random() < 0.92 else rng.randrange(5)
            toks.append(f"p.{p}.{rng.randrange(3)}")
        elif r < 0.58:
            kind = rng.choice("vof") if focus_on else rng.choice("vvof")
            p = rng.choice(reg_k) if (kind == "f" and reg_k and rng.random() < 0.7) else rng.randrange(5)
            toks.append(f"{kind}.{p}.{rng.randrange(3)}")
        elif r < 0.64:
            toks.append("s")
        elif r < 0.70:
            toks.append("t")
        elif r < 0.72:
            toks.append(f"u.{rng.choice('vvxuwoght')}.{rng.randrange(3)}")
        elif r < 0.75:
            toks.append(f"a.{rng.choice(reg_p) if rng.random() < 0.85 else rng.randrange(5)}.{rng.choice([0, 0, 1])}")
        elif r < 0.83:
            p = rng.choice(reg_p + reg_k) if rng.random() < 0.8 else rng.randrange(5)
            toks.append(f"k.{p}.{rng.choice([1, 1, 2, 3, 3, 0])}")
        elif r < 0.90:
            toks.append("r")
        elif mode == "U":
            toks.append("d")
    if mode == "U":
        toks.append("d")
    return (mode, reg_p, reg_k, domain, toks, random_raises(rng))


WITNESSES = [
    # Lean `demo` (Props/C10.lean) at both granularities
    ("U", [0, 4], [0], "title", "s p.0.1 d p.0.1 d k.4.1 p.0.2 p.4.2 d r p.0.1 d t p.0.2 d s p.0.1 d".split(), ""),
    ("D", [0, 4], [0], "device_state", "s p.0.1 p.0.1 k.4.1 p.0.2 p.4.2 r p.0.1 t p.0.2 s p.0.1".split(), ""),
    # stop_undrained_delivers
    ("U", [0], [], "title", "s p.0.1 t d".split(), ""),
    ("D", [0], [0], "title", "v.0.1 v.4.1 v.4.2 v.0.0 f.4.1 f.0.2 o.0.2 o.0.2 o.4.1".split(), ""),
    # the same status twice in a row from one updater, across a suppressed intermediate state
    ("D", [0, 4], [], "title", "s p.0.1 k.4.1 p.0.2 r p.0.1".split(), ""),
    # an updater that turned inactive by itself before stop(): nothing after stop(), also not as takeover holder
    ("D", [0, 4], [], "title", "s a.4.0 t k.4.1 p.4.1 p.0.2 r a.0.0 s p.0.1 t p.0.2".split(), ""),
    # the user asks for a level the device does not apply; the device reports its unchanged volume again
    ("D", [0], [0], "title", "v.0.1 u.v.2 v.0.1 u.x.0 v.0.1 v.0.2 o.0.1 u.o.2 o.0.1".split(), ""),
    # every listener raises on its first call; later notifications unaffected
    ("D", [0], [0], "title+hash", "s p.0.1 p.0.2 v.0.1 v.0.1 v.0.2 o.0.1 o.0.2 f.0.1 f.0.2".split(), "P1,V1,O1,F1"),
]
UNDRAINED = WITNESSES[2]
REPEAT = WITNESSES[4]


def line_for(case):
    mode, reg_p, reg_k, _domain, toks, _raises = case[:6]
    csv = lambda l: ",".join(map(str, l)) if l else "-"
    return f"run {mode} {csv(reg_p)} {csv(reg_k)} " + " ".join(toks)


def impl_answer(res):
    """Canonical text in the Lean driver's output format (tkP/tkK/qlen/lst are not observable
    through the public API and are compared as `*`)."""
    outs = []
    for (i, kind, x, y) in res["log"]:
        outs.append(f"{i}P{x}.{y}" if kind == "P" else f"{i}{kind}{x}.{y}")
    outs += [f"{i}!{name}" for (i, name) in res["errors"]]
    o = lambda x: "n" if x is None else str(x)
    cur = res["cur"]
    return [",".join(outs) or "-", ",".join(map(str, res["refused"])) or "-", o(res["main_p"]), o(res["main_k"]),
            cur[0], cur[1], cur[2], o(res.get("active"))]


def compare(ctx, case, res, ans):
    m = ans.split(" ")
    if len(m) != 12:
        ctx.disagree({"case": case_json(case)}, impl_answer(res), ans, where="driver answer malformed")
        return
    impl = impl_answer(res)
    model = [m[0], m[1], m[4], m[5], m[6], m[7], m[8], m[11]]
    for k in (4, 5, 6):                       # private facade fields: compare only when present
        if impl[k] is None:
            model[k] = impl[k] = "*"
        else:
            impl[k] = str(impl[k])
    if impl != model:
        ctx.disagree(case_json(case), " ".join(impl), " ".join(model),
                     where="outputs refused mainP mainK vol outs foc active")


def case_json(case, _nested=False):
    mode, reg_p, reg_k, domain, toks, raises = case[:6]
    j = {"mode": mode, "regP": list(reg_p), "regK": list(reg_k), "domain": domain, "events": " ".join(toks),
         "listener_raises_on_call": raises, "build": case[6] if len(case) > 6 else "direct"}
    if len(case) > 7 and case[7] and not _nested:
        members, schedule, me = case[7]
        j["devices_alive"] = [case_json(m, True) for m in members]   # all device objects of the process
        j["schedule"] = list(schedule)                                 # whose event runs next
        j["me"] = me                                                   # the device this case is about
    return j


def case_from_json(j):
    base = (j["mode"], list(j["regP"]), list(j["regK"]), j.get("domain", j.get("field", "title")), j["events"].split(),
            j.get("listener_raises_on_call", ""), j.get("build", "direct"))
    if j.get("devices_alive"):
        members = [case_from_json(m) for m in j["devices_alive"]]
        return base + ((members, list(j.get("schedule", [])), int(j.get("me", 0))),)
    return base


def with_builds(cases, both):
    """How the device object is built and takeovers are performed: "connect" = through the real
    pyatv.connect(), takeover by protocol p via the Core connect() gave p (core.takeover), the way
    protocols do it; "direct" = FacadeAppleTV assembled by hand, facade.takeover(p, ...).  Histories
    with a takeover go two out of three (quick) / every second one (thorough) through connect,
    the others every fourth / second one."""
    out = []
    for case in cases:
        # a deterministic pseudo-random number per history (an index would correlate with the last event)
        n = zlib.crc32(repr(tuple(case[:6])).encode()) >> 3
        if len(case) > 6:
            out.append(case)
        elif any(tok.startswith("k.") for tok in case[4]):
            out.append(tuple(case) + (("direct" if n % (2 if both else 3) == 0 else "connect"),))
        else:
            out.append(tuple(case) + (("connect" if n % (2 if both else 4) == 0 else "direct"),))
    return out


def evaluate(ctx, env, cases, suite, quiet_log=False):
    """Run one chunk on the real code and on the model, compare, apply the oracle.  `quiet_log`:
    run this chunk with the pyatv loggers at WARNING instead of the DEBUG level the runner set
    (logging is a run-time parameter: both settings are exercised; VERIF_LOG=off disables all)."""
    import logging

    cases = with_builds(cases, ctx.thorough)
    logger = logging.getLogger("pyatv")
    level = logger.level
    if quiet_log:
        logger.setLevel(logging.WARNING)
    try:
        results = execute(env, cases)
    finally:
        logger.setLevel(level)
    ctx.note("log_level:" + ("off" if logging.root.manager.disable >= logging.CRITICAL
                             else logging.getLevelName(logging.WARNING if quiet_log else logger.getEffectiveLevel())), len(cases))
    answers = ctx.lean([line_for(c) for c in cases])
    for case, res, ans in zip(cases, results, answers):
        problems, delivered, suppressed = oracle(case, res)
        ctx.note("suite:" + suite)
        ctx.note("mode:" + case[0])
        ctx.note("len:%02d" % len(case[4]))
        ctx.note("protocols:%d" % len(case[1]))
        ctx.note("delivered:%s" % ("0" if delivered == 0 else "1-2" if delivered < 3 else "3+"))
        ctx.note("domain:" + case[3])
        ctx.note("build:" + case[6])
        if len(case) > 7 and case[7]:
            ctx.note("devices_alive:%d" % len(case[7][0]))
        if case[5]:
            ctx.note("listener_faults_scripted")
            ctx.note("listener_faults_raised", res.get("faults", 0))
        ctx.case(case_json(case), delivered > 0 and suppressed > 0,
                 sample=dict(case_json(case), received=[list(e) for e in res["log"]]) if suite != "A" or delivered > 2 else None)
        compare(ctx, case, res, ans)
        ctx.validated()
        seen = set()
        for sig, text in problems:
            if sig in seen:
                continue
            seen.add(sig)
            ctx.fail(sig, case_json(case), {"received": [list(e) for e in res["log"]], "refused": res["refused"],
                                            "errors": res["errors"]}, "property C10", text)


def chunks(it, n):
    buf = []
    for x in it:
        buf.append(x)
        if len(buf) >= n:
            yield buf
            buf = []
    if buf:
        yield buf


def run(ctx, only=None):
    env = _Env()
    if only is not None:
        evaluate(ctx, env, only, "replay")
        return
    # fixed witnesses first (they are the Lean examples / the undrained-stop theorem)
    evaluate(ctx, env, WITNESSES, "witness")
    if ctx.failures:
        ctx.notes["stopped_early"] = "a fixed witness failed; no further cases generated"
        return
    res = execute(env, [UNDRAINED])[0]
    after_stop = [list(e) for e in res["log"] if e[0] >= 2]
    ctx.notes["undrained_post_then_stop"] = (
        "history start, post, stop() and only then a drain (finer than the property's granularity): the real code "
        + ("DELIVERS the queued play status after stop(): %r" % after_stop if after_stop else "delivers nothing after stop()")
        + "; Lean: stop_undrained_delivers; with a drain before stop() nothing is delivered (silent_after_stop)")
    res = execute(env, [REPEAT])[0]
    ctx.notes["repeat_across_suppressed_state"] = (
        "start, P0 posts 1, takeover by P4, P0 posts 2 (suppressed), release, P0 posts 1: the user's listener received %r "
        "— the same status twice in a row from one updater; allowed under the reading 'differs from the state that "
        "updater produced before' (see assumptions), not counted as a violation" % [list(e) for e in res["log"]])
    ctx.notes["playing_domains"] = "%d domains: %s; skipped: %s" % (
        len(env.domain_names), " ".join(env.domain_names), " ".join(env.domains_skipped) or "none")
    ctx.exhaustive = False      # suites A/B/D/E/F are exhaustive for their bounds, suites C/M are sampled
    rng = ctx.rng.fork("suite-c")
    n = ctx.scale(6000, 60000)
    maxlen = ctx.scale(10, 16)
    _drive(ctx, env, [
        ("M", itertools.chain(corpus_cases(), suite_m(ctx, env, ctx.rng.fork("suite-m"))), 400),
        ("D", suite_d(ctx, env), 2000),
        ("E", suite_e(ctx, env), 2000),
        ("U", suite_u(ctx, env), 15000),
        ("F", suite_f(ctx, env), 15000),
        ("A", suite_a(ctx, env), 15000),
        ("B", suite_b(ctx, env), 15000),
        ("C", (random_case(rng, maxlen, env) for _ in range(n)), 15000),
    ], ctx.scale(300, 1800))


def corpus_cases():
    """corpus/C10/*.json: minimised past failures (case JSON as written into replay files)."""
    import glob
    import json
    import os

    root = os.path.join(os.path.dirname(os.path.dirname(os.path.abspath(__file__))), "corpus", "C10")
    for path in sorted(glob.glob(os.path.join(root, "*.json"))):
        try:
            j = json.load(open(path))
            yield case_from_json(j.get("failure", {}).get("case") or j.get("case") or j)
        except Exception:
            continue


def _drive(ctx, env, stages, budget_s):
    """Chunk-wise: run a chunk on the real code, compare with the model, apply the oracle; stop
    generating as soon as a chunk produced an oracle failure (a broken tree gets its
    verdict in about the normal wall time even when it makes every further case slower), or when
    the wall-time budget is exhausted (noted in the evidence, never a verdict)."""
    import time

    t0 = time.time()
    for name, gen, size in stages:
        for k, batch in enumerate(chunks(gen, size)):
            evaluate(ctx, env, batch, name, quiet_log=(name in ("A", "B") and k % 2 == 1))
            if ctx.failures:       # (a mere model/implementation disagreement: keep looking for a failing input)
                ctx.notes["stopped_early"] = ("suite %s chunk %d produced a failure; no further cases generated "
                                              "(%d evaluated)" % (name, k, ctx.evaluations))
                return False
            if time.time() - t0 > budget_s:
                ctx.notes["budget_exhausted"] = "stopped after suite %s chunk %d: %d s wall time" % (name, k, budget_s)
                return False
    return True


def widen(ctx):
    """Used when a proof or the correspondence broke without a failing input: multi-device groups,
    suites D/E, F and A (quick bounds), B (thorough bounds) and a large random suite C."""
    env = _Env()
    ctx.widened = False
    a_cases = list(suite_a(ctx, env))
    f_cases = list(suite_f(ctx, env))
    u_cases = list(suite_u(ctx, env))
    ctx.widened = True
    rng = ctx.rng.fork("suite-c-widened")
    _drive(ctx, env, [
        ("M", itertools.chain(WITNESSES, corpus_cases(), suite_m(ctx, env, ctx.rng.fork("suite-m-widened"))), 400),
        ("D", suite_d(ctx, env), 2000),
        ("E", suite_e(ctx, env), 2000),
        ("U", u_cases, 15000),
        ("F", f_cases, 15000),
        ("A", a_cases, 15000),
        ("B", suite_b(ctx, env), 15000),
        ("C", (random_case(rng, 16, env) for _ in range(40000)), 15000),
    ], 1800)


def replay(ctx, failure):
    c2 = type(ctx)(ctx.prop, ctx.tier, ctx.seed, ctx.driver.driver_rel)
    env = _Env()
    case = case_from_json(failure["case"])
    res = execute(env, [case])[0]
    problems, _d, _s = oracle(case, res)
    return any(sig == failure["sig"] for sig, _ in problems) or (bool(problems) and not failure.get("sig"))


def shrink(ctx, failure):
    """Greedy event removal while the same oracle failure persists on the real code."""
    env = _Env()
    mode, reg_p, reg_k, field, toks, raises, build = case_from_json(failure["case"])
    sig = failure["sig"]

    def fails(ts, rs=None):
        case = (mode, reg_p, reg_k, field, ts, raises if rs is None else rs, build)
        res = execute(env, [case])[0]
        probs, _d, _s = oracle(case, res)
        hit = [t for s, t in probs if s == sig]
        return (hit[0], res) if hit else None

    cur = list(toks)
    best = fails(cur)
    if best is None:
        return failure
    # drop scripted listener faults that are not needed for the failure
    parts = [x for x in raises.split(",") if x]
    for x in list(parts):
        cand = [y for y in parts if y != x]
        r = fails(cur, ",".join(cand))
        if r is not None:
            parts, best = cand, r
    raises = ",".join(parts)
    changed = True
    while changed:
        changed = False
        for i in range(len(cur)):
            cand = cur[:i] + cur[i + 1:]
            if mode == "U" and (not cand or cand[-1] != "d"):
                continue        # a mode-U history ends with a drain
            r = fails(cand)
            if r is not None:
                cur, best, changed = cand, r, True
                break
    text, res = best
    return {"sig": sig, "case": case_json((mode, reg_p, reg_k, field, cur, raises, build)),
            "observed": {"received": [list(e) for e in res["log"]], "refused": res["refused"], "errors": res["errors"]},
            "required": "property C10", "what": text}
