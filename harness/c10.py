"""C10 — correspondence + direct oracle for the listener path of the facade.

Real code driven (nothing of it is replaced): a real `FacadeAppleTV` (hence the real
`FacadePushUpdater`, `FacadeAudio`, `FacadeKeyboard`, `Relayer`, `FacadeAppleTV.takeover`)
on a real `CoreStateDispatcher`, 1..3 protocols each with a real `ProtocolStateDispatcher`
and a minimal `AbstractPushUpdater` subclass (only the abstract `active/start/stop` are
filled in; `post_update` is the real one), under `harness.core.vloop`.  User listeners
record every call together with the index of the event during which it arrived.

Event tokens (same text goes to the Lean driver, see lean/PyatvModel/C10/Driver.lean):
  p.<proto>.<val> post_update | s start | t stop | k.<proto>.<mask> takeover | r release
  v./o./f.<proto>.<val> dispatch Volume / OutputDevices / KeyboardFocus | d drain
Mode D = the loop drains after every event (the property's histories); mode U = drains only
at `d` (finer scheduling granularity; model/implementation correspondence and the
scheduling-independent part of the oracle only).
"""
import asyncio
import itertools

RULE = ("suite A: every history of exactly L events over {post p v (p registered, v in 3 values), start, stop, "
        "takeover p, release} for 1, 2 and 3 protocols (L per tier), loop drained after every event; suite B: the "
        "same for Volume / OutputDevices / KeyboardFocus dispatches from two protocols (+ Keyboard takeover/release); "
        "suite C: seeded random histories mixing everything, registered sets drawn from the 5 protocols, half of them "
        "with drains only at explicit points; plus fixed witnesses. non-trivial = at least one listener call was "
        "delivered AND at least one produced state/value was suppressed (duplicate, not serving, stopped, unchanged); "
        "distinct = (mode, registered sets, Playing field, event list)")
ASSUMPTIONS = [
    "asyncio runs call_soon callbacks in FIFO order (the model's queue is FIFO); not proved, exercised by the real loop",
    "granularity: the property's histories are sequences of events each followed by a drain of the loop (mode D). "
    "At finer granularity (mode U) everything except 'nothing after stop()' still holds; a play status already queued "
    "with call_soon when stop() is called IS delivered afterwards on the real code (theorem stop_undrained_delivers, "
    "replayed each run and recorded under notes.undrained_post_then_stop) — not counted as a violation",
    "the user's listener objects stay alive (StateProducer keeps weak references) and only record",
    "'differs from the status previously delivered by that updater' is read as: differs from the state that updater "
    "produced immediately before (what post_update compares with); 'correct old value' as: the previous notification's "
    "new value (initially 0.0 / [] / Unknown)",
]
TRUSTED = ["harness/c10.py: minimal AbstractPushUpdater subclass, recording listeners, event executor",
           "harness.core.vloop virtual-time loop (ready queue untouched)"]

PLAYING_FIELDS = ["title", "device_state", "position", "artist", "repeat"]
MASKS = {0: (False, False), 1: (True, False), 2: (False, True), 3: (True, True)}


# ------------------------------------------------------------------------------------------
# real-code world
# ------------------------------------------------------------------------------------------

class _Env:
    """Imports of the code under test (lazy) and the value domains."""

    def __init__(self):
        from ipaddress import IPv4Address

        from pyatv import const, exceptions, interface
        from pyatv.conf import AppleTV as Conf
        from pyatv.core import (AbstractPushUpdater, CoreStateDispatcher, ProtocolStateDispatcher, SetupData,
                                UpdatedState)
        from pyatv.core import facade
        from pyatv.settings import Settings

        self.const, self.exceptions, self.interface = const, exceptions, interface
        self.facade, self.Settings, self.SetupData = facade, Settings, SetupData
        self.CoreStateDispatcher, self.ProtocolStateDispatcher = CoreStateDispatcher, ProtocolStateDispatcher
        self.UpdatedState = UpdatedState
        self.conf = Conf(IPv4Address("127.0.0.1"), "verif")
        self.priorities = list(facade.DEFAULT_PRIORITIES)  # index = the model's protocol number

        class Updater(AbstractPushUpdater):
            def __init__(self, dispatcher):
                super().__init__(dispatcher)
                self._active = False

            @property
            def active(self):
                return self._active

            def start(self, initial_delay=0):
                self._active = True

            def stop(self):
                self._active = False

        class Kbd(interface.Keyboard):
            @property
            def text_focus_state(self):
                return const.KeyboardFocusState.Unknown

        class Aud(interface.Audio):
            @property
            def volume(self):
                return 0.0

        self.Updater, self.Kbd, self.Aud = Updater, Kbd, Aud
        self.volumes = [0.0, 30.0, 60.0]
        self.focus = [const.KeyboardFocusState.Unknown, const.KeyboardFocusState.Unfocused,
                      const.KeyboardFocusState.Focused]

    def playing(self, field, v):
        i, c = self.interface, self.const
        if field == "title":
            return i.Playing(title="ABC"[v], artist="x")
        if field == "device_state":
            return i.Playing(device_state=[c.DeviceState.Idle, c.DeviceState.Playing, c.DeviceState.Paused][v], title="t")
        if field == "position":
            return i.Playing(title="t", total_time=100, position=[0, 10, 20][v])
        if field == "artist":
            return i.Playing(title="t", artist=[None, "a", "b"][v])
        return i.Playing(title="t", repeat=[c.RepeatState.Off, c.RepeatState.Track, c.RepeatState.All][v])

    def playing_val(self, field, obj):
        c = self.const
        try:
            x = getattr(obj, field)
            dom = {"title": list("ABC"),
                   "device_state": [c.DeviceState.Idle, c.DeviceState.Playing, c.DeviceState.Paused],
                   "position": [0, 10, 20], "artist": [None, "a", "b"],
                   "repeat": [c.RepeatState.Off, c.RepeatState.Track, c.RepeatState.All]}[field]
            return dom.index(x)
        except Exception:
            return "?"

    def devices(self, v):
        od = self.interface.OutputDevice
        return [od("Dev A", "a"), od("Dev B", "b")][:v]

    def devices_val(self, lst):
        try:
            ids = [d.identifier for d in lst]
            return {(): 0, ("a",): 1, ("a", "b"): 2}[tuple(ids)]
        except Exception:
            return "?"

    def index_of(self, dom, x):
        try:
            return dom.index(x)
        except Exception:
            return "?"


class _SessionManager:
    async def close(self):
        return None


class _Listener:
    """PushListener + AudioListener + KeyboardListener that only records."""

    def __init__(self, world):
        self.w = world

    def playstatus_update(self, updater, playstatus):
        w = self.w
        p = next((i for i, u in w.updaters.items() if u is updater), "?")
        w.log.append((w.idx, "P", p, w.env.playing_val(w.field, playstatus)))

    def playstatus_error(self, updater, exception):
        self.w.log.append((self.w.idx, "E", "?", "?"))

    def volume_update(self, old_level, new_level):
        w = self.w
        w.log.append((w.idx, "V", w.env.index_of(w.env.volumes, old_level), w.env.index_of(w.env.volumes, new_level)))

    def outputdevices_update(self, old_devices, new_devices):
        w = self.w
        w.log.append((w.idx, "O", w.env.devices_val(old_devices), w.env.devices_val(new_devices)))

    def focusstate_update(self, old_state, new_state):
        w = self.w
        w.log.append((w.idx, "F", w.env.index_of(w.env.focus, old_state), w.env.index_of(w.env.focus, new_state)))


class _World:
    def __init__(self, env, field):
        self.env, self.field = env, field
        self.idx = 0
        self.log = []
        self.refused = []
        self.errors = []
        self.updaters = {}
        self.dispatchers = {}
        self.handles = []


async def _settle():
    # everything queued with call_soon before this point runs during the first yield (FIFO);
    # the extra yields only matter if changed code adds a hop
    await asyncio.sleep(0)
    await asyncio.sleep(0)
    await asyncio.sleep(0)


async def _run_case(env, case):
    mode, reg_p, reg_k, field, toks = case
    w = _World(env, field)
    core = env.CoreStateDispatcher()
    atv = env.facade.FacadeAppleTV(env.conf, _SessionManager(), core, env.Settings())
    for i, proto in enumerate(env.priorities):
        w.dispatchers[i] = env.ProtocolStateDispatcher(proto, core)
        w.updaters[i] = env.Updater(w.dispatchers[i])      # registered only if i in reg_p
    for i in sorted(set(reg_p) | set(reg_k)):
        ifaces = {env.interface.Audio: env.Aud()}
        if i in reg_p:
            ifaces[env.interface.PushUpdater] = w.updaters[i]
        if i in reg_k:
            ifaces[env.interface.Keyboard] = env.Kbd()

        async def _connect():
            return True

        atv.add_protocol(env.SetupData(env.priorities[i], _connect, lambda: set(), lambda: {}, ifaces, set()))
    await atv.connect()
    listener = _Listener(w)
    push, audio, kbd = atv.push_updater, atv.audio, atv.keyboard
    push.listener = listener
    audio.listener = listener
    kbd.listener = listener
    us = env.UpdatedState
    for idx, tok in enumerate(toks):
        w.idx = idx
        f = tok.split(".")
        try:
            if f[0] == "p":
                w.updaters[int(f[1])].post_update(env.playing(field, int(f[2])))
            elif f[0] == "s":
                push.start()
            elif f[0] == "t":
                push.stop()
            elif f[0] == "k":
                a, b = MASKS[int(f[2])]
                ifs = ([env.interface.PushUpdater] if a else []) + ([env.interface.Keyboard] if b else [])
                try:
                    w.handles.append(atv.takeover(env.priorities[int(f[1])], *ifs))
                except env.exceptions.InvalidStateError:
                    w.refused.append(idx)
            elif f[0] == "r":
                if w.handles:
                    w.handles.pop()()
            elif f[0] == "v":
                w.dispatchers[int(f[1])].dispatch(us.Volume, env.volumes[int(f[2])])
            elif f[0] == "o":
                w.dispatchers[int(f[1])].dispatch(us.OutputDevices, env.devices(int(f[2])))
            elif f[0] == "f":
                w.dispatchers[int(f[1])].dispatch(us.KeyboardFocus, env.focus[int(f[2])])
            elif f[0] == "d":
                await _settle()
            else:
                raise ValueError(tok)
            if mode == "D":
                await _settle()
        except Exception as exc:  # changed code may raise: an observation, never a harness crash
            w.errors.append((idx, type(exc).__name__))
    try:
        main_p = env.priorities.index(push.main_protocol) if push.main_protocol is not None else None
        main_k = env.priorities.index(kbd.main_protocol) if kbd.main_protocol is not None else None
    except Exception as exc:
        main_p = main_k = "exc:" + type(exc).__name__
    cur = (env.index_of(env.volumes, getattr(audio, "_volume", None)) if hasattr(audio, "_volume") else None,
           env.devices_val(getattr(audio, "_output_devices")) if hasattr(audio, "_output_devices") else None,
           env.index_of(env.focus, getattr(kbd, "_focus_state", None)) if hasattr(kbd, "_focus_state") else None)
    w.idx = len(toks)
    await _settle()   # U-mode histories end with `d`; anything arriving now is recorded past the end
    return {"log": w.log, "refused": w.refused, "errors": w.errors, "main_p": main_p, "main_k": main_k, "cur": cur,
            "keep": (atv, listener)}


def execute(env, cases):
    from harness.core import vloop

    async def _all():
        out = []
        for case in cases:
            try:
                r = await _run_case(env, case)
                r.pop("keep", None)
            except Exception as exc:
                r = {"log": [], "refused": [], "errors": [(-1, type(exc).__name__ + ":" + str(exc)[:80])],
                     "main_p": None, "main_k": None, "cur": (None, None, None)}
            out.append(r)
        return out

    return vloop.run(_all)


# ------------------------------------------------------------------------------------------
# direct oracle: the property text evaluated on what the real listeners received
# ------------------------------------------------------------------------------------------

def oracle(case, res):
    """Returns (problems, delivered, suppressed).  problems: list of (sig, text)."""
    mode, reg_p, reg_k, _field, toks = case
    problems = []
    by_idx = {}
    for ent in res["log"]:
        by_idx.setdefault(ent[0], []).append(ent)
    refused = set(res["refused"])
    started = False
    hist = {}               # updater -> produced states
    eff = []                # (event idx, p, v, consumed?) posts the property allows to be delivered
    holder = None           # takeover holder of the PushUpdater interface
    handles = []
    dispatched = {"V": [], "O": [], "F": []}    # (event idx, value, consumed?)
    expected_old = {"V": 0, "O": 0, "F": 0}
    delivered = suppressed = 0

    def serving():
        if holder is not None and holder in reg_p:
            return holder
        return min(reg_p) if reg_p else None

    for idx in range(len(toks) + 1):
        tok = toks[idx] if idx < len(toks) else None
        f = tok.split(".") if tok else ["end"]
        if f[0] == "p":
            p, v = int(f[1]), int(f[2])
            h = hist.setdefault(p, [])
            allowed = started and (not h or h[-1] != v)
            h.append(v)
            eff.append([idx, p, v, not allowed])
        elif f[0] == "s":
            started = True
        elif f[0] == "t":
            started = False
        elif f[0] == "k":
            a, b = MASKS[int(f[2])]
            if idx not in refused:
                handles.append((a, b))
                if a:
                    holder = int(f[1])
        elif f[0] == "r":
            if handles:
                a, _b = handles.pop()
                if a:
                    holder = None
        elif f[0] in "vof":
            dispatched[f[0].upper()].append([idx, int(f[2]), False])
        got = by_idx.get(idx, [])
        if idx == len(toks) and got:
            problems.append(("late", "listener called after the final drain: %r" % (got,)))
        for (_i, kind, x, y) in got:
            delivered += 1
            if kind == "P":
                p, v = x, y
                if p == "?" or v == "?":
                    problems.append(("play:unknown", f"event {idx}: play status from an unknown updater / with an unknown state"))
                    continue
                if mode == "D":
                    # the property's granularity: this delivery belongs to the event just executed
                    if f[0] != "p" or (int(f[1]), int(f[2])) != (p, v):
                        problems.append(("play:order", f"event {idx} ({tok}): received ({p},{v}) which is not the state just produced"))
                        continue
                    ent = eff[-1]
                    h = hist[p]
                    if ent[3] and len(h) >= 2 and h[-2] == v:
                        problems.append(("play:dup", f"event {idx} ({tok}): notified although equal to the state updater {p} produced before"))
                    elif ent[3] and not started:
                        problems.append(("play:after-stop", f"event {idx} ({tok}): notified while stopped / not started"))
                    elif ent[3]:
                        problems.append(("play:dup", f"event {idx} ({tok}): the same produced state was delivered twice"))
                    ent[3] = True
                else:
                    # finer granularity: deliveries must embed, in order, into the allowed posts made earlier
                    k = next((j for j, e in enumerate(eff) if not e[3] and e[0] < idx and (e[1], e[2]) == (p, v)), None)
                    if k is None:
                        problems.append(("play:order-or-dup", f"event {idx}: received ({p},{v}) which no earlier undelivered post "
                                         "made while started and different from its predecessor accounts for"))
                    else:
                        for e in eff[:k + 1]:
                            e[3] = True
                if p != serving():
                    problems.append(("play:not-main", f"event {idx} ({tok}): play status from protocol {p} reached the user while "
                                     f"protocol {serving()} serves (holder={holder}, registered={reg_p})"))
            elif kind in "VOF":
                old, new = x, y
                name = {"V": "volume", "O": "outputdevices", "F": "focus"}[kind]
                if old == new:
                    problems.append((f"{name}:no-change", f"event {idx} ({tok}): listener called with old == new == {old}"))
                if old != expected_old[kind]:
                    problems.append((f"{name}:wrong-old", f"event {idx} ({tok}): old={old} but the value before was {expected_old[kind]}"))
                cand = dispatched[kind]
                if mode == "D":
                    ok = bool(cand) and cand[-1][0] == idx and cand[-1][1] == new
                else:
                    k = next((j for j, e in enumerate(cand) if not e[2] and e[0] < idx and e[1] == new), None)
                    ok = k is not None
                    if ok:
                        for e in cand[:k + 1]:
                            e[2] = True
                if not ok:
                    problems.append((f"{name}:wrong-new", f"event {idx} ({tok}): new={new} is not the value that was dispatched"))
                expected_old[kind] = new
            else:
                problems.append(("unexpected-call", f"event {idx}: {kind}"))
    n_states = len(eff) + sum(len(v) for v in dispatched.values())
    suppressed = max(0, n_states - delivered)
    return problems, delivered, suppressed


# ------------------------------------------------------------------------------------------
# generators
# ------------------------------------------------------------------------------------------

def suite_a(ctx):
    """Exhaustive push histories at the property's granularity."""
    plan = [([0], ctx.scale(5, 6)), ([0, 4], ctx.scale(4, 5)), ([1, 2, 4], ctx.scale(3, 4))]
    for k, (reg, length) in enumerate(plan):
        alpha = [f"p.{p}.{v}" for p in reg for v in range(3)] + ["s", "t", "r"] + [f"k.{p}.1" for p in reg]
        field = PLAYING_FIELDS[k % len(PLAYING_FIELDS)]
        for t in itertools.product(alpha, repeat=length):
            yield ("D", reg, reg, field, list(t))


def suite_b(ctx):
    """Exhaustive volume / output-device / focus histories at the property's granularity."""
    length = ctx.scale(4, 5)
    for kind in "vo":
        alpha = [f"{kind}.{p}.{v}" for p in (0, 4) for v in range(3)]
        for t in itertools.product(alpha, repeat=length):
            yield ("D", [0], [0, 4], "title", list(t))
    alpha = [f"f.{p}.{v}" for p in (0, 4) for v in range(3)] + ["k.0.2", "k.4.2", "r"]
    for reg_k in ([0, 4], [0]):
        for t in itertools.product(alpha, repeat=length):
            yield ("D", [0], reg_k, "title", list(t))


def random_case(rng, maxlen):
    mode = "D" if rng.random() < 0.5 else "U"
    n_p = rng.choice([1, 2, 2, 3])
    reg_p = sorted(rng.sample(range(5), n_p))
    reg_k = sorted(rng.sample(range(5), rng.choice([0, 1, 2, 2, 3])))
    field = rng.choice(PLAYING_FIELDS)
    n = rng.randint(4, maxlen)
    toks = ["s"] if rng.random() < 0.7 else []
    focus_on = rng.random() < 0.5      # half of the histories concentrate on play statuses
    while len(toks) < n:
        r = rng.random()
        if r < (0.30 if focus_on else 0.50):
            p = rng.choice(reg_p) if rng.random() < 0.92 else rng.randrange(5)
            toks.append(f"p.{p}.{rng.randrange(3)}")
        elif r < 0.58:
            kind = rng.choice("vof") if focus_on else rng.choice("vvof")
            p = rng.choice(reg_k) if (kind == "f" and reg_k and rng.random() < 0.7) else rng.randrange(5)
            toks.append(f"{kind}.{p}.{rng.randrange(3)}")
        elif r < 0.66:
            toks.append("s")
        elif r < 0.73:
            toks.append("t")
        elif r < 0.83:
            p = rng.choice(reg_p + reg_k) if rng.random() < 0.8 else rng.randrange(5)
            toks.append(f"k.{p}.{rng.choice([1, 1, 2, 3, 3, 0])}")
        elif r < 0.90:
            toks.append("r")
        elif mode == "U":
            toks.append("d")
    if mode == "U":
        toks.append("d")
    return (mode, reg_p, reg_k, field, toks)


WITNESSES = [
    # Lean `demo` (Props/C10.lean) at both granularities
    ("U", [0, 4], [0], "title", "s p.0.1 d p.0.1 d k.4.1 p.0.2 p.4.2 d r p.0.1 d t p.0.2 d s p.0.1 d".split()),
    ("D", [0, 4], [0], "device_state", "s p.0.1 p.0.1 k.4.1 p.0.2 p.4.2 r p.0.1 t p.0.2 s p.0.1".split()),
    # stop_undrained_delivers: must stay LAST-but-listed; looked up by name below
    ("U", [0], [], "title", "s p.0.1 t d".split()),
    ("D", [0], [0], "title", "v.0.1 v.4.1 v.4.2 v.0.0 f.4.1 f.0.2 o.0.2 o.0.2 o.4.1".split()),
    # the same status twice in a row from one updater, across a suppressed intermediate state
    ("D", [0, 4], [], "title", "s p.0.1 k.4.1 p.0.2 r p.0.1".split()),
]
UNDRAINED = WITNESSES[2]
REPEAT = WITNESSES[4]


def line_for(case):
    mode, reg_p, reg_k, _field, toks = case
    csv = lambda l: ",".join(map(str, l)) if l else "-"
    return f"run {mode} {csv(reg_p)} {csv(reg_k)} " + " ".join(toks)


def impl_answer(res):
    """Canonical text in the Lean driver's output format (tkP/tkK/qlen/lst are not observable
    through the public API and are compared as `*`)."""
    outs = []
    for (i, kind, x, y) in res["log"]:
        outs.append(f"{i}P{x}.{y}" if kind == "P" else f"{i}{kind}{x}.{y}")
    outs += [f"{i}!{name}" for (i, name) in res["errors"]]
    o = lambda x: "n" if x is None else str(x)
    cur = res["cur"]
    return [",".join(outs) or "-", ",".join(map(str, res["refused"])) or "-", o(res["main_p"]), o(res["main_k"]),
            cur[0], cur[1], cur[2]]


def compare(ctx, case, res, ans):
    m = ans.split(" ")
    if len(m) != 11:
        ctx.disagree({"case": case_json(case)}, impl_answer(res), ans, where="driver answer malformed")
        return
    impl = impl_answer(res)
    model = [m[0], m[1], m[4], m[5], m[6], m[7], m[8]]
    for k in (4, 5, 6):                       # private facade fields: compare only when present
        if impl[k] is None:
            model[k] = impl[k] = "*"
        else:
            impl[k] = str(impl[k])
    if impl != model:
        ctx.disagree(case_json(case), " ".join(impl), " ".join(model),
                     where="outputs refused mainP mainK vol outs foc")


def case_json(case):
    mode, reg_p, reg_k, field, toks = case
    return {"mode": mode, "regP": list(reg_p), "regK": list(reg_k), "field": field, "events": " ".join(toks)}


def case_from_json(j):
    return (j["mode"], list(j["regP"]), list(j["regK"]), j["field"], j["events"].split())


def evaluate(ctx, env, cases, suite):
    results = execute(env, cases)
    answers = ctx.lean([line_for(c) for c in cases])
    for case, res, ans in zip(cases, results, answers):
        problems, delivered, suppressed = oracle(case, res)
        ctx.note("suite:" + suite)
        ctx.note("mode:" + case[0])
        ctx.note("len:%02d" % len(case[4]))
        ctx.note("protocols:%d" % len(case[1]))
        ctx.note("delivered:%s" % ("0" if delivered == 0 else "1-2" if delivered < 3 else "3+"))
        ctx.case(case_json(case), delivered > 0 and suppressed > 0,
                 sample=dict(case_json(case), received=[list(e) for e in res["log"]]) if suite != "A" or delivered > 2 else None)
        compare(ctx, case, res, ans)
        ctx.validated()
        seen = set()
        for sig, text in problems:
            if sig in seen:
                continue
            seen.add(sig)
            ctx.fail(sig, case_json(case), {"received": [list(e) for e in res["log"]], "refused": res["refused"],
                                            "errors": res["errors"]}, "property C10", text)


def chunks(it, n):
    buf = []
    for x in it:
        buf.append(x)
        if len(buf) >= n:
            yield buf
            buf = []
    if buf:
        yield buf


def run(ctx, only=None):
    env = _Env()
    if only is not None:
        evaluate(ctx, env, only, "replay")
        return
    # fixed witnesses first (they are the Lean examples / the undrained-stop theorem)
    evaluate(ctx, env, WITNESSES, "witness")
    res = execute(env, [UNDRAINED])[0]
    after_stop = [list(e) for e in res["log"] if e[0] >= 2]
    ctx.notes["undrained_post_then_stop"] = (
        "history start, post, stop() and only then a drain (finer than the property's granularity): the real code "
        + ("DELIVERS the queued play status after stop(): %r" % after_stop if after_stop else "delivers nothing after stop()")
        + "; Lean: stop_undrained_delivers; with a drain before stop() nothing is delivered (silent_after_stop)")
    res = execute(env, [REPEAT])[0]
    ctx.notes["repeat_across_suppressed_state"] = (
        "start, P0 posts 1, takeover by P4, P0 posts 2 (suppressed), release, P0 posts 1: the user's listener received %r "
        "— the same status twice in a row from one updater; allowed under the reading 'differs from the state that "
        "updater produced before' (see assumptions), not counted as a violation" % [list(e) for e in res["log"]])
    for batch in chunks(suite_a(ctx), 20000):
        evaluate(ctx, env, batch, "A")
    for batch in chunks(suite_b(ctx), 20000):
        evaluate(ctx, env, batch, "B")
    ctx.exhaustive = False      # suites A/B are exhaustive for their bounds, suite C is sampled
    rng = ctx.rng.fork("suite-c")
    n = ctx.scale(8000, 60000)
    maxlen = ctx.scale(10, 16)
    for batch in chunks((random_case(rng, maxlen) for _ in range(n)), 20000):
        evaluate(ctx, env, batch, "C")


def widen(ctx):
    """Used when a proof or the correspondence broke without a failing input: suites A (quick bounds),
    B (thorough bounds) and a large random suite C."""
    env = _Env()
    evaluate(ctx, env, WITNESSES, "witness")
    ctx.widened = False
    a_cases = list(suite_a(ctx))
    ctx.widened = True
    for batch in chunks(a_cases, 20000):
        evaluate(ctx, env, batch, "A")
    for batch in chunks(suite_b(ctx), 20000):
        evaluate(ctx, env, batch, "B")
    rng = ctx.rng.fork("suite-c-widened")
    for batch in chunks((random_case(rng, 16) for _ in range(40000)), 20000):
        evaluate(ctx, env, batch, "C")


def replay(ctx, failure):
    c2 = type(ctx)(ctx.prop, ctx.tier, ctx.seed, ctx.driver.driver_rel)
    env = _Env()
    case = case_from_json(failure["case"])
    res = execute(env, [case])[0]
    problems, _d, _s = oracle(case, res)
    return any(sig == failure["sig"] for sig, _ in problems) or (bool(problems) and not failure.get("sig"))


def shrink(ctx, failure):
    """Greedy event removal while the same oracle failure persists on the real code."""
    env = _Env()
    mode, reg_p, reg_k, field, toks = case_from_json(failure["case"])
    sig = failure["sig"]

    def fails(ts):
        case = (mode, reg_p, reg_k, field, ts)
        res = execute(env, [case])[0]
        probs, _d, _s = oracle(case, res)
        hit = [t for s, t in probs if s == sig]
        return (hit[0], res) if hit else None

    cur = list(toks)
    best = fails(cur)
    if best is None:
        return failure
    changed = True
    while changed:
        changed = False
        for i in range(len(cur)):
            cand = cur[:i] + cur[i + 1:]
            if mode == "U" and (not cand or cand[-1] != "d"):
                continue        # a mode-U history ends with a drain
            r = fails(cand)
            if r is not None:
                cur, best, changed = cand, r, True
                break
    text, res = best
    return {"sig": sig, "case": case_json((mode, reg_p, reg_k, field, cur)),
            "observed": {"received": [list(e) for e in res["log"]], "refused": res["refused"], "errors": res["errors"]},
            "required": "property C10", "what": text}
