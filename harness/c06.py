"""C06 — a device is trusted only if it proves the paired identity.

Real code driven (in-process, fake transports only):
  * MrpProtocol.start -> error_handler(_enable_encryption) -> MrpPairVerifyProcedure ->
    SRPAuthHandler.verify1/verify2 -> MrpConnection.enable_encryption   (real MrpConnection,
    fake asyncio transport, the accessory on the other side speaks protobuf/varint)
  * CompanionProtocol.start -> error_handler(_setup_encryption) -> CompanionPairVerifyProcedure
    -> CompanionConnection.enable_encryption                            (real CompanionConnection)
  * airplay.auth.verify_connection -> AirPlayHapPairVerifyProcedure -> HAPSession.enable ->
    HttpConnection.send_processor/receive_processor                      (real HttpConnection)

Two runs (DESIGN.md §5 C06):

(i) symbolic-crypto correspondence.  The crypto entry points used by pyatv/auth/hap_srp.py
    (X25519PrivateKey/X25519PublicKey, hkdf_expand, chacha20.Chacha20Cipher8byteNonce,
    Ed25519PublicKey/Ed25519PrivateKey, os.urandom) are replaced *in that module's namespace*
    by tagging stubs computing the same structured tokens as `symCrypto` in
    lean/PyatvModel/C06/Sym.lean.  The stored accessory identifier is a bytes subclass that
    records comparisons.  The recorded sequence of crypto calls/comparisons (with arguments),
    the exception class of the connect call and the installed keys are compared with the
    Lean driver's `connect` for every generated reply.

(ii) real-crypto campaign = the direct oracle.  A fake accessory written with `cryptography`
    only answers pair-verify; its reply is altered (every bit flip / truncation of each field,
    substitutions by a second valid accessory, replays, missing fields ...).  An independent
    reference verifier in this file (`reference_accepts`, `cryptography` + own TLV reader, no
    pyatv code) says whether a reply proves the paired identity.  Required of the real code:
      - reference says NO  =>  the connect call raises and neither enable_encryption nor
        HAPSession.enable/send_processor was installed at any moment; for MRP and Companion
        the exception must be pyatv.exceptions.AuthenticationError;
      - keys installed  <=>  the connect call returned;
      - the unmodified reply is accepted and installs working keys (non-vacuity: the fake
        accessory can decrypt what the client sends afterwards).

Repaired tree (fix: commits merged from other builders): AirPlay's _get_pairing_data rejects a
TLV with an Error item; MRP and Companion verify_credentials parse the M4 reply and require
SeqNo 4 without Error.  The fake accessories therefore answer M3 with a configurable M4
(`m4` variant key: well-formed, Error item, wrong/absent/duplicated SeqNo, malformed TLV, absent,
not bytes, or the exchange failing); the symbolic run compares the decision with the model's
`checkM4`; the property's oracle itself only speaks about M2, so for M4 variants it requires
the keys<=>success consistency and records the outcome (`real-m4:*`).

User-level path (run_user): the same oracle through real pyatv.connect() on multi-service
configurations — the layers between the protocol object and the user's connect() (protocol
setup()._connect, facade.connect, pyatv.connect) must not swallow a failed verification.  The
pinned code propagates it, so: one protocol's accessory forged => pyatv.connect() raises
(AuthenticationError for MRP/Companion; for the AirPlay tunnel the ProtocolError its wrapper always
raises) and that protocol's connection has no keys; all honest => connect() returns with working keys.

Every caller of pair-verify in the tree is driven (grep verify_credentials()/pair_verify():
MrpProtocol._enable_encryption, CompanionProtocol._setup_encryption, airplay verify_connection — used
by AP2Session.connect and RAOP AirPlayV2 — and AirPlayV1.setup()/AirPlayV1.play_url(), which run HAP
pair-verify WITHOUT deriving keys: there `verify_credentials()` returning is the whole verdict, the
oracle demands "raises and the receiver sees no further request", the symbolic run compares with the
model's `verifyCredentials`).  The harness hands the client a FRESH session key for every
SRPAuthHandler.initialize(); a reconnect campaign (run_reconnect) connects, disconnects and connects
again on ONE CompanionAPI / ONE AP2Session / the same configuration through pyatv.connect(), answering
the second session with the first one's bytes: a replay is rejected by construction ("replay of a reply
from another session"), whatever the reference verifier would say about a client that reuses its key.

DECISION on AirPlay's exception class (documented in meta/C06.json too): the property says a
rejected reply "makes connecting fail with an authentication error".  `verify_connection`
has no error mapping: AuthenticationError is raised for a wrong identifier / signature, but
KeyError, IndexError, ValueError and cryptography's InvalidTag escape unmapped for missing,
truncated or undecryptable fields.  Its only connect-path caller,
pyatv/protocols/airplay/__init__.py:_connect_rc, wraps *every* exception (AuthenticationError
included) in ProtocolError("Failed to set up remote control channel"), and the RAOP caller
lets them through — so the class seen by a user never was AuthenticationError on that path, for
any rejected reply.  Demanding the class there would fail the unchanged tree for a reason the
mechanism list of the property (error_handler in support/__init__.py, used by MRP and
Companion only) does not cover.  The oracle therefore requires for AirPlay "an exception and no
keys installed" and records the exception classes seen in the evidence (distribution keys
`airplay-exc:*`).
"""
import asyncio
import binascii
import hashlib
import json

RULE = ("symbolic run: structured replies (each TLV field of M2 present/absent/duplicated/altered, inner and outer "
        "TLV truncated, identifier/key/signature taken from a second accessory, signatures over wrong messages, "
        "replays from another session, M3 exchange failing) x 3 transports on the real code with tagging crypto "
        "stubs vs the Lean model; real-crypto run: bit flips (quick: seeded sample, thorough: all) and all "
        "truncations of session public key, ciphertext, identifier (stale and re-signed) and signature, plus the "
        "structural variants, x 3 transports; non-trivial = the reply passes at least the envelope checks and "
        "reaches SRPAuthHandler.verify1 (symbolic) / is a forged reply rejected by the reference verifier (real); "
        "both runs also execute pairs of sessions in one process (later credentials share identifier and/or key "
        "with the earlier ones; later reply honest / signed by the earlier key / earlier identity / replayed bytes); "
        "the fake accessories are full peers (pair-setup M1-M6 incl. transient, /pair-pin-start, any other "
        "endpoint or frame is answered) so that any fallback after a rejected verify is reachable; "
        "user-level run: real pyatv.connect() on multi-service configurations (MRP+Companion, AirPlay+Companion, "
        "AirPlay tunnel+MRP ...), fake transports for every protocol, one protocol's accessory forged, others honest; "
        "verify-only call sites AirPlayV1.setup/play_url (no keys derived) in both runs; reconnect run: two sessions "
        "on one CompanionAPI / AP2Session / configuration, second answered by replaying the first or forged; "
        "forged replies also carry extra/optional/duplicated TLV items (every TlvValue tag, attacker-chosen values "
        "such as its own long-term key as PublicKey) in the sealed TLV and in the pairing data; "
        "credential selection: extract_credentials over stored {none, HAP, legacy, transient} x advertised feature sets "
        "vs the model, AirPlay connections with selected credentials (transport airplay-selected) and user-level "
        "configurations whose AirPlay service advertises the pairing feature bits (Apple TV / HomePod models); "
        "distinct = (mode, transport or configuration+forged protocol, variant descriptor, session history)")
ASSUMPTIONS = [
    "HAP credentials are present (service.credentials set): without credentials no pair-verify runs and no keys exist",
    "replies carry fewer than ~400 TLV items (CPython recursion limit inside read_tlv is not modelled)",
    "symbolic run: crypto behaves as the tagging functions of Sym.lean (one instance of the abstract parameter)",
    "cryptographic strength (unforgeability, AEAD integrity, DH) of the `cryptography` primitives is trusted",
    "AirPlay: exception class of verify_connection is recorded, not required (see module docstring: DECISION)",
]
TRUSTED = [
    "harness/c06.py: fake transports/accessories, tagging crypto stubs, reference verifier built on `cryptography`",
    "pyatv.support.opack / protobuf used by the fake accessories to encode envelopes (not part of the property)",
]

PV_SALT = b"Pair-Verify-Encrypt-Salt"
PV_INFO = b"Pair-Verify-Encrypt-Info"
MSG02 = b"PV-Msg02"
MSG03 = b"PV-Msg03"
TAG_ID, TAG_PUB, TAG_ENC, TAG_SEQ, TAG_ERR, TAG_SIG = 1, 3, 5, 6, 7, 10
TRANSPORTS = ("mrp", "companion", "airplay")
# accessory side view of the transport keys (HAP spec / Apple): salt, client-write info, client-read info
TRANSPORT_KDF = {
    "mrp": (b"MediaRemote-Salt", b"MediaRemote-Write-Encryption-Key", b"MediaRemote-Read-Encryption-Key"),
    "companion": (b"", b"ClientEncrypt-main", b"ServerEncrypt-main"),
    "airplay": (b"Control-Salt", b"Control-Write-Encryption-Key", b"Control-Read-Encryption-Key"),
    "airplay-selected": (b"Control-Salt", b"Control-Write-Encryption-Key", b"Control-Read-Encryption-Key"),
}


def hx(b):
    return binascii.hexlify(bytes(b)).decode() if len(b) else "-"


# ----------------------------------------------------------------------------------------
# own TLV8 writer/reader (harness side, independent of pyatv.auth.hap_tlv8)
# ----------------------------------------------------------------------------------------
def tlv_item(tag, value):
    """Standard TLV8 encoding of one item: 255-byte fragments; an empty value is `tag 00`."""
    value = bytes(value)
    if not value:
        return bytes([tag, 0])
    out = b""
    while value:
        out += bytes([tag, min(len(value), 255)]) + value[:255]
        value = value[255:]
    return out


def tlv_bytes(items):
    return b"".join(tlv_item(t, v) for t, v in items)


def tlv_parse(data):
    """Strict reference reader: None when malformed (dangling tag or short value)."""
    out, pos = {}, 0
    while pos < len(data):
        if pos + 2 > len(data):
            return None
        tag, ln = data[pos], data[pos + 1]
        val = data[pos + 2:pos + 2 + ln]
        if len(val) != ln:
            return None
        out[tag] = out.get(tag, b"") + val
        pos += 2 + ln
    return out


def mutate(data, m):
    if not m:
        return data
    data = bytes(data)
    if "flip" in m:
        i = m["flip"]
        return data[:i // 8] + bytes([data[i // 8] ^ (1 << (i % 8))]) + data[i // 8 + 1:]
    if "trunc" in m:
        return data[:m["trunc"]]
    if "append" in m:
        return data + binascii.unhexlify(m["append"])
    if "set" in m:
        return binascii.unhexlify(m["set"])
    if "prepend" in m:
        return binascii.unhexlify(m["prepend"]) + data
    if "case" in m:  # an identifier that differs only after normalisation
        return {"lower": data.lower(), "upper": data.upper(), "swap": data.swapcase()}[m["case"]]
    raise ValueError("unknown mutation %r" % (m,))


# ----------------------------------------------------------------------------------------
# crypto backends for the accessory side
# ----------------------------------------------------------------------------------------
class RealCrypto:
    name = "real"

    def ed_pub(self, sk):
        from cryptography.hazmat.primitives import serialization
        from cryptography.hazmat.primitives.asymmetric.ed25519 import Ed25519PrivateKey
        return Ed25519PrivateKey.from_private_bytes(sk).public_key().public_bytes(
            serialization.Encoding.Raw, serialization.PublicFormat.Raw)

    def ed_sign(self, sk, msg):
        from cryptography.hazmat.primitives.asymmetric.ed25519 import Ed25519PrivateKey
        return Ed25519PrivateKey.from_private_bytes(sk).sign(msg)

    def ed_verify(self, pk, msg, sig):
        from cryptography.exceptions import InvalidSignature
        from cryptography.hazmat.primitives.asymmetric.ed25519 import Ed25519PublicKey
        try:
            Ed25519PublicKey.from_public_bytes(pk).verify(sig, msg)
            return True
        except (InvalidSignature, ValueError):
            return False

    def x_pub(self, priv):
        from cryptography.hazmat.primitives import serialization
        from cryptography.hazmat.primitives.asymmetric.x25519 import X25519PrivateKey
        return X25519PrivateKey.from_private_bytes(priv).public_key().public_bytes(
            serialization.Encoding.Raw, serialization.PublicFormat.Raw)

    def exchange(self, priv, pub):
        from cryptography.hazmat.primitives.asymmetric.x25519 import X25519PrivateKey, X25519PublicKey
        return X25519PrivateKey.from_private_bytes(priv).exchange(X25519PublicKey.from_public_bytes(pub))

    def shared_for_client(self, acc_priv, acc_pub, cl_priv, cl_pub):
        return self.exchange(acc_priv, cl_pub)

    def hkdf(self, salt, info, secret):
        from cryptography.hazmat.primitives import hashes
        from cryptography.hazmat.primitives.kdf.hkdf import HKDF
        return HKDF(algorithm=hashes.SHA512(), length=32, salt=salt, info=info).derive(secret)

    def seal(self, key, nonce, pt, aad=None):
        from cryptography.hazmat.primitives.ciphers.aead import ChaCha20Poly1305
        return ChaCha20Poly1305(key).encrypt(b"\x00" * (12 - len(nonce)) + nonce, pt, aad)

    def open(self, key, nonce, ct, aad=None):
        from cryptography.exceptions import InvalidTag
        from cryptography.hazmat.primitives.ciphers.aead import ChaCha20Poly1305
        try:
            return ChaCha20Poly1305(key).decrypt(b"\x00" * (12 - len(nonce)) + nonce, ct, aad)
        except (InvalidTag, ValueError):
            return None


class SymCrypto:
    """Mirror of lean/PyatvModel/C06/Sym.lean."""
    name = "sym"

    @staticmethod
    def ed_pub(sk):
        return bytes(b ^ 0x5A for b in sk)

    @staticmethod
    def sig(pk, msg):
        return b"\x53" + bytes(pk) + bytes(msg)

    def ed_sign(self, sk, msg):
        return self.sig(self.ed_pub(sk), msg)

    def ed_verify(self, pk, msg, sig):
        return bytes(sig) == self.sig(pk, msg)

    @staticmethod
    def x_pub(priv):
        return bytes(b ^ 0xA5 for b in priv)

    @staticmethod
    def exchange(priv, pub):
        if len(pub) != 32:
            raise ValueError("An X25519 public key is 32 bytes long")
        return b"\x58" + bytes(priv) + bytes(pub)

    def shared_for_client(self, acc_priv, acc_pub, cl_priv, cl_pub):
        return self.exchange(cl_priv, acc_pub)

    @staticmethod
    def hkdf(salt, info, secret):
        return b"\x48" + bytes([len(salt) & 255]) + salt + bytes([len(info) & 255]) + info + bytes(secret)

    @staticmethod
    def seal_header(key, nonce):
        return b"\x45" + bytes([(len(key) // 256) & 255, len(key) & 255]) + bytes(key) + bytes([len(nonce) & 255]) + bytes(nonce)

    def seal(self, key, nonce, pt, aad=None):
        return self.seal_header(key, nonce) + bytes(pt)

    def open(self, key, nonce, ct, aad=None):
        h = self.seal_header(key, nonce)
        return bytes(ct[len(h):]) if bytes(ct[:len(h)]) == h else None


# ----------------------------------------------------------------------------------------
# the world: stored credentials, the paired accessory A, another valid accessory B
# ----------------------------------------------------------------------------------------
class World:
    def __init__(self, rng, crypto):
        self.crypto = crypto
        self.client_ltsk = rng.bytes_(32)
        self.client_id = ("%08X-%04X-4%03X-A%03X-%012X" % (
            rng.getrandbits(32), rng.getrandbits(16), rng.getrandbits(12), rng.getrandbits(12), rng.getrandbits(48))).encode()
        self.a_ltsk = rng.bytes_(32)
        self.a_id = ("%08X-%04X-4%03X-B%03X-%012X" % (
            rng.getrandbits(32), rng.getrandbits(16), rng.getrandbits(12), rng.getrandbits(12), rng.getrandbits(48))).encode()
        self.b_ltsk = rng.bytes_(32)
        self.b_id = ("%08X-%04X-4%03X-B%03X-%012X" % (
            rng.getrandbits(32), rng.getrandbits(16), rng.getrandbits(12), rng.getrandbits(12), rng.getrandbits(48))).encode()
        self.acc_x = rng.bytes_(32)           # accessory ephemeral key of this session
        self.acc_x2 = rng.bytes_(32)          # accessory ephemeral key of ANOTHER session
        self.other_client_x = rng.bytes_(32)  # client ephemeral key of ANOTHER session
        self.client_ed_seed = rng.bytes_(32)  # consumed by SRPAuthHandler.initialize (unused by verify)
        self.client_x = rng.bytes_(32)        # what os.urandom hands to initialize() for X25519
        self.a_ltpk = crypto.ed_pub(self.a_ltsk)
        self.b_ltpk = crypto.ed_pub(self.b_ltsk)

    def credentials_string(self):
        return ":".join(hx(x) for x in (self.a_ltpk, self.client_ltsk, self.a_id, self.client_id))

    def to_json(self):
        return {k: hx(getattr(self, k)) for k in (
            "client_ltsk", "client_id", "a_ltsk", "a_id", "b_ltsk", "b_id", "acc_x", "acc_x2",
            "other_client_x", "client_ed_seed", "client_x", "prev_ltsk", "prev_id", "prev_pd")
                if getattr(self, k, None) is not None}

    def successor(self, rng, relation):
        """The world of a LATER session in the same process: `relation` says what the newly stored
        credentials share with this world's (same_id_new_key: accessory reset and re-paired / two
        accessories configured with one identifier; new_id_same_key; same; new)."""
        w = World(rng, self.crypto)
        if relation in ("same_id_new_key", "same"):
            w.a_id = self.a_id
        if relation in ("new_id_same_key", "same"):
            w.a_ltsk = self.a_ltsk
            w.a_ltpk = self.crypto.ed_pub(w.a_ltsk)
        if relation == "same":
            w.client_ltsk, w.client_id = self.client_ltsk, self.client_id
        w.prev_ltsk, w.prev_id = self.a_ltsk, self.a_id
        w.prev_pd = None
        return w

    @classmethod
    def from_json(cls, d, crypto):
        w = cls.__new__(cls)
        w.crypto = crypto
        for k, v in d.items():
            setattr(w, k, b"" if v == "-" else binascii.unhexlify(v))
        w.a_ltpk = crypto.ed_pub(w.a_ltsk)
        w.b_ltpk = crypto.ed_pub(w.b_ltsk)
        return w


def build_reply(w, v, client_pub, client_priv=None):
    """The accessory's (possibly forged) answer to M1.  -> (pdkind, pd bytes)

    `v` (variant descriptor, all keys optional, absent = the honest accessory A):
      replay      the whole reply was produced in another session (other client/accessory ephemerals)
      replay_prev the very bytes sent in the previous session run in this process (session pairs)
      signer / ident = "prev": long-term key / identifier of the accessory of the previous session
      ident       "A" | "B"            identifier sent;  ident_mut: byte mutation of it
      sig_ident   "sent" | "A"         identifier inside the signed message
      signer      "A" | "B" | "client" whose long-term key signs
      sigmsg      "std" | "no_own" | "swapped" | "stale_own" | "m3order" | "no_id"
      sig_pub     "session" | "other"  accessory session key inside the signed message
      sig_mut     byte mutation of the signature
      inner       layout of the encrypted TLV;  enc_key: key/nonce used to seal it;  enc_mut
      pub         "session" | "other"  session public key sent;  pub_mut
      outer       layout of the pairing data
      inner_add / outer_add   extra TLV items [(tag, value, "first"|"last")] added to the sealed TLV / the
                  pairing data; value: signer_ltpk | A_ltpk | A_id | B_id | sig | acc_pub | hex:<..>
    """
    cr = w.crypto
    if v.get("replay_prev") and getattr(w, "prev_pd", None) is not None:
        return "bytes", w.prev_pd  # the bytes the accessory sent in the previous session of this process
    acc_priv, cl_priv = w.acc_x, (client_priv or w.client_x)
    cl_pub = client_pub
    if v.get("replay"):
        acc_priv, cl_priv = w.acc_x2, w.other_client_x
        cl_pub = cr.x_pub(cl_priv)
    acc_pub = cr.x_pub(acc_priv)
    other_pub = cr.x_pub(w.acc_x2 if not v.get("replay") else w.acc_x)
    shared = cr.shared_for_client(acc_priv, acc_pub, cl_priv, cl_pub)

    ident = mutate({"A": w.a_id, "B": w.b_id, "prev": getattr(w, "prev_id", w.a_id)}[v.get("ident", "A")],
                   v.get("ident_mut"))
    signer = {"A": w.a_ltsk, "B": w.b_ltsk, "client": w.client_ltsk,
              "prev": getattr(w, "prev_ltsk", w.a_ltsk)}[v.get("signer", "A")]
    s_ident = ident if v.get("sig_ident", "sent") == "sent" else w.a_id
    s_pub = acc_pub if v.get("sig_pub", "session") == "session" else other_pub
    kind = v.get("sigmsg", "std")
    if kind == "std":
        msg = s_pub + s_ident + cl_pub
    elif kind == "no_own":
        msg = s_pub + s_ident
    elif kind == "swapped":
        msg = cl_pub + s_ident + s_pub
    elif kind == "stale_own":
        msg = s_pub + s_ident + cr.x_pub(w.other_client_x)
    elif kind == "m3order":
        msg = cl_pub + w.client_id + s_pub
    elif kind == "no_id":
        msg = s_pub + cl_pub
    else:
        raise ValueError(kind)
    sig = mutate(cr.ed_sign(signer, msg), v.get("sig_mut"))

    layout = v.get("inner", "std")
    if layout == "std":
        inner = tlv_bytes([(TAG_ID, ident), (TAG_SIG, sig)])
    elif layout == "no_ident":
        inner = tlv_bytes([(TAG_SIG, sig)])
    elif layout == "no_sig":
        inner = tlv_bytes([(TAG_ID, ident)])
    elif layout == "empty":
        inner = b""
    elif layout == "cut1":
        inner = tlv_bytes([(TAG_ID, ident), (TAG_SIG, sig)])[:-1]
    elif layout == "dangling":
        inner = tlv_bytes([(TAG_ID, ident), (TAG_SIG, sig)]) + bytes([TAG_ERR])
    elif layout == "split_ident":
        inner = tlv_item(TAG_ID, ident[:7]) + tlv_item(TAG_SIG, sig) + tlv_item(TAG_ID, ident[7:])
    elif layout == "dup_ident":
        inner = tlv_bytes([(TAG_ID, ident), (TAG_SIG, sig), (TAG_ID, ident)])
    elif layout == "dup_sig":
        inner = tlv_bytes([(TAG_SIG, sig), (TAG_ID, ident), (TAG_SIG, sig)])
    elif layout == "extra":
        inner = tlv_bytes([(0x42, b"xyz"), (TAG_SIG, sig), (TAG_ID, ident)])
    elif layout == "empty_ident":
        inner = tlv_bytes([(TAG_ID, b""), (TAG_SIG, sig)])
    else:
        raise ValueError(layout)

    def extra_items(spec):
        """extra / optional / duplicated TLV items an impostor may add, values consistent with its forgery"""
        out_first, out_last = b"", b""
        for tag, what, where in spec or []:
            if what == "signer_ltpk":
                val = cr.ed_pub(signer)
            elif what == "A_ltpk":
                val = w.a_ltpk
            elif what == "A_id":
                val = w.a_id
            elif what == "B_id":
                val = w.b_id
            elif what == "sig":
                val = sig
            elif what == "acc_pub":
                val = acc_pub
            else:
                val = binascii.unhexlify(what[4:]) if what.startswith("hex:") else what.encode()
            if where == "first":
                out_first += tlv_item(tag, val)
            else:
                out_last += tlv_item(tag, val)
        return out_first, out_last

    first, last = extra_items(v.get("inner_add"))
    inner = first + inner + last

    ek = v.get("enc_key", "session")
    nonce = MSG02
    if ek == "session":
        key = cr.hkdf(PV_SALT, PV_INFO, shared)
    elif ek == "other_session":
        o_priv = w.other_client_x
        key = cr.hkdf(PV_SALT, PV_INFO, cr.shared_for_client(w.acc_x2, cr.x_pub(w.acc_x2), o_priv, cr.x_pub(o_priv)))
    elif ek == "wrong_info":
        key = cr.hkdf(PV_SALT, b"Pair-Verify-Encrypt-Inf0", shared)
    elif ek == "wrong_nonce":
        key, nonce = cr.hkdf(PV_SALT, PV_INFO, shared), MSG03
    else:
        raise ValueError(ek)
    enc = mutate(cr.seal(key, nonce, inner), v.get("enc_mut"))
    pub_sent = mutate(acc_pub if v.get("pub", "session") == "session" else other_pub, v.get("pub_mut"))

    outer = v.get("outer", "std")
    seq = (TAG_SEQ, b"\x02")
    if outer == "std":
        pd = tlv_bytes([seq, (TAG_PUB, pub_sent), (TAG_ENC, enc)])
    elif outer == "no_pub":
        pd = tlv_bytes([seq, (TAG_ENC, enc)])
    elif outer == "no_enc":
        pd = tlv_bytes([seq, (TAG_PUB, pub_sent)])
    elif outer == "error":
        pd = tlv_bytes([seq, (TAG_PUB, pub_sent), (TAG_ENC, enc), (TAG_ERR, b"\x02")])
    elif outer == "error_only":
        pd = tlv_bytes([seq, (TAG_ERR, b"\x02")])
    elif outer == "dangling":
        pd = tlv_bytes([seq, (TAG_PUB, pub_sent), (TAG_ENC, enc)]) + bytes([0x42])
    elif outer == "cut1":
        pd = tlv_bytes([seq, (TAG_PUB, pub_sent), (TAG_ENC, enc)])[:-1]
    elif outer == "dup_pub":
        pd = tlv_bytes([seq, (TAG_PUB, pub_sent), (TAG_ENC, enc), (TAG_PUB, pub_sent)])
    elif outer == "extra":
        pd = tlv_bytes([(0x42, b"hello"), (TAG_ENC, enc), seq, (TAG_PUB, pub_sent)])
    elif outer == "split_pub":
        pd = tlv_item(TAG_PUB, pub_sent[:5]) + tlv_bytes([seq, (TAG_ENC, enc)]) + tlv_item(TAG_PUB, pub_sent[5:])
    elif outer == "empty":
        pd = b""
    elif outer in ("absent", "notbytes"):
        return outer, b""
    else:
        raise ValueError(outer)
    first, last = extra_items(v.get("outer_add"))
    return "bytes", first + pd + last


M4_RAISES = ("timeout", "protocol", "http", "auth")  # the exchange of M3 itself fails
M4_ACK = ("ok", "seq4_split", "extra")                # a well-formed acknowledgement (SeqNo 4, no error)


def build_m4(kind):
    """The accessory's answer to M3 -> (pdkind, pd); None when the exchange is made to fail."""
    if kind in M4_RAISES:
        return None
    if kind == "ok":
        return "bytes", tlv_bytes([(TAG_SEQ, b"\x04")])
    if kind == "seq4_split":
        return "bytes", bytes([TAG_SEQ, 0]) + tlv_bytes([(0x42, b"x"), (TAG_SEQ, b"\x04")])
    if kind == "extra":
        return "bytes", tlv_bytes([(0x42, b"hello"), (TAG_SEQ, b"\x04")])
    if kind == "error":
        return "bytes", tlv_bytes([(TAG_SEQ, b"\x04"), (TAG_ERR, b"\x02")])
    if kind == "error_only":
        return "bytes", tlv_bytes([(TAG_ERR, b"\x02")])
    if kind == "seq5":
        return "bytes", tlv_bytes([(TAG_SEQ, b"\x05")])
    if kind == "seq2":
        return "bytes", tlv_bytes([(TAG_SEQ, b"\x02")])
    if kind == "seq_long":
        return "bytes", tlv_bytes([(TAG_SEQ, b"\x04\x00")])
    if kind == "seq_dup":
        return "bytes", tlv_bytes([(TAG_SEQ, b"\x04"), (TAG_SEQ, b"\x04")])
    if kind == "seq_empty":
        return "bytes", bytes([TAG_SEQ, 0])
    if kind == "noseq":
        return "bytes", tlv_bytes([(0x42, b"x")])
    if kind == "dangling":
        return "bytes", tlv_bytes([(TAG_SEQ, b"\x04")]) + bytes([0x42])
    if kind == "empty":
        return "bytes", b""
    if kind in ("absent", "notbytes"):
        return kind, b""
    raise ValueError("unknown m4 kind %r" % (kind,))


def pd_word(kind, pd):
    return {"bytes": "b:" + (hx(pd) if pd else "-"), "absent": "absent", "notbytes": "notbytes"}[kind]


def reference_accepts(w, pdkind, pd, client_priv=None):
    """The property's acceptance condition, evaluated with `cryptography` only (no pyatv):
    the reply carries the stored identifier and a signature by the stored long-term key over
    session_pub || identifier || client session pub, inside data sealed under the session key."""
    real = RealCrypto()
    client_x = client_priv or w.client_x
    if pdkind != "bytes":
        return False
    outer = tlv_parse(pd)
    if outer is None or TAG_PUB not in outer or TAG_ENC not in outer:
        return False
    pub, enc = outer[TAG_PUB], outer[TAG_ENC]
    if len(pub) != 32:
        return False
    try:
        shared = real.exchange(client_x, pub)
    except ValueError:
        return False
    plain = real.open(real.hkdf(PV_SALT, PV_INFO, shared), MSG02, enc)
    if plain is None:
        return False
    inner = tlv_parse(plain)
    if inner is None or TAG_ID not in inner or TAG_SIG not in inner:
        return False
    if inner[TAG_ID] != w.a_id:
        return False
    return real.ed_verify(w.a_ltpk, pub + inner[TAG_ID] + real.x_pub(client_x), inner[TAG_SIG])


# ----------------------------------------------------------------------------------------
# fakes: transport, urandom, tagging stubs
# ----------------------------------------------------------------------------------------
class FakeSock:
    def getsockname(self):
        return ("127.0.0.1", 50000)

    def getpeername(self):
        return ("127.0.0.1", 49152)

    def setsockopt(self, *a):
        pass


class FakeTransport:
    def __init__(self, on_write):
        self.on_write = on_write
        self.closed = False

    def write(self, data):
        if not self.closed:
            self.on_write(bytes(data))

    def close(self):
        self.closed = True

    def is_closing(self):
        return self.closed

    def can_write_eof(self):
        return False

    def get_extra_info(self, name, default=None):
        return FakeSock() if name == "socket" else default


class Shim:
    """Stands in for a module inside another module's namespace; overrides some attributes."""

    def __init__(self, real, **over):
        self._real = real
        self.__dict__.update(over)

    def __getattr__(self, name):
        return getattr(self._real, name)


class Log:
    def __init__(self):
        self.events = []

    def add(self, name, *args):
        self.events.append(":".join([name] + [hx(a) for a in args]))


class SpyBytes(bytes):
    """Stored accessory identifier: records how the code compares it."""
    log = None

    def __eq__(self, other):
        self.log.add("ideq", bytes(other) if isinstance(other, (bytes, bytearray)) else b"?", bytes(self))
        return bytes.__eq__(self, other)

    def __ne__(self, other):
        self.log.add("idcmp", bytes(other) if isinstance(other, (bytes, bytearray)) else b"?", bytes(self))
        return bytes.__ne__(self, other)

    def __contains__(self, other):
        self.log.add("idcontains", bytes(other) if isinstance(other, (bytes, bytearray)) else b"?", bytes(self))
        return bytes.__contains__(self, other)

    def startswith(self, other, *a):
        self.log.add("idstartswith", bytes(other), bytes(self))
        return bytes.startswith(self, other, *a)

    def endswith(self, other, *a):
        self.log.add("idendswith", bytes(other), bytes(self))
        return bytes.endswith(self, other, *a)

    def __getitem__(self, k):
        self.log.add("idslice", bytes(self))
        return bytes.__getitem__(self, k)

    def __hash__(self):
        return bytes.__hash__(self)


def make_stubs(log, sym):
    """Tagging replacements for the crypto names imported by pyatv/auth/hap_srp.py."""
    from cryptography.exceptions import InvalidSignature, InvalidTag

    class _Pub:
        def __init__(self, raw):
            self.raw = bytes(raw)

        def public_bytes(self, *a, **k):
            return self.raw

    class StubX25519PublicKey(_Pub):
        @classmethod
        def from_public_bytes(cls, data):
            log.add("pubload", data)
            if len(data) != 32:
                raise ValueError("An X25519 public key is 32 bytes long")
            return cls(data)

    class StubX25519PrivateKey:
        def __init__(self, raw):
            self.raw = bytes(raw)

        @classmethod
        def from_private_bytes(cls, data):
            return cls(data)

        def public_key(self):
            return _Pub(sym.x_pub(self.raw))

        def exchange(self, peer):
            log.add("x25519", self.raw, peer.raw)
            return sym.exchange(self.raw, peer.raw)

    class StubEd25519PublicKey(_Pub):
        @classmethod
        def from_public_bytes(cls, data):
            log.add("keyload", data)
            if len(data) != 32:
                raise ValueError("An Ed25519 public key is 32 bytes long")
            return cls(data)

        def verify(self, signature, data):
            log.add("edverify", self.raw, data, signature)
            if not sym.ed_verify(self.raw, data, signature):
                raise InvalidSignature()

    class StubEd25519PrivateKey:
        def __init__(self, raw, record):
            self.raw = bytes(raw)
            self.record = record

        @classmethod
        def from_private_bytes(cls, data):
            return cls(data, True)

        def private_bytes(self, *a, **k):
            self.record = False  # key made by initialize(): not part of pair-verify
            return self.raw

        def public_key(self):
            return _Pub(sym.ed_pub(self.raw))

        def sign(self, data):
            log.add("sign", self.raw, data)
            if len(self.raw) != 32:  # the model merges from_private_bytes and sign
                raise ValueError("An Ed25519 private key is 32 bytes long")
            return sym.ed_sign(self.raw, data)

    class StubCipher:
        def __init__(self, out_key, in_key, *a, **k):
            self.out_key, self.in_key = bytes(out_key), bytes(in_key)

        def decrypt(self, data, nonce=None, aad=None):
            log.add("open", self.in_key, nonce or b"", data)
            plain = sym.open(self.in_key, nonce or b"", data)
            if plain is None:
                raise InvalidTag()
            return plain

        def encrypt(self, data, nonce=None, aad=None):
            log.add("seal", self.out_key, nonce or b"", data)
            return sym.seal(self.out_key, nonce or b"", data)

    def stub_hkdf_expand(salt, info, shared_secret):
        log.add("hkdf", salt.encode(), info.encode(), shared_secret)
        return sym.hkdf(salt.encode(), info.encode(), shared_secret)

    return {
        "X25519PublicKey": StubX25519PublicKey,
        "X25519PrivateKey": StubX25519PrivateKey,
        "Ed25519PublicKey": StubEd25519PublicKey,
        "Ed25519PrivateKey": StubEd25519PrivateKey,
        "hkdf_expand": stub_hkdf_expand,
        "Cipher": StubCipher,
    }


class Patches:
    """Namespace patches applied from the harness process only; always undone."""

    def __init__(self):
        self.undo = []

    def set(self, obj, name, value):
        self.undo.append((obj, name, getattr(obj, name)))
        setattr(obj, name, value)

    def __enter__(self):
        return self

    def __exit__(self, *a):
        for obj, name, old in reversed(self.undo):
            setattr(obj, name, old)
        self.undo = []


# ----------------------------------------------------------------------------------------
# one connect attempt on the real code
# ----------------------------------------------------------------------------------------
class Obs:
    def __init__(self):
        self.exc = None            # class name of what the connect call raised
        self.exc_chain = []
        self.enabled = []          # (out_key, in_key) passed to enable_encryption / HAPSession.enable
        self.keys_after = False    # connection object holds encryption state after the call
        self.m3 = None
        self.acc_decrypt = None    # real mode: accessory could decrypt the client's post-verify traffic
        self.client_pub = None
        self.reference = None
        self.other_traffic = []

    def summary(self):
        return {"exc": self.exc, "chain": self.exc_chain, "enable_calls": len(self.enabled),
                "keys_after": self.keys_after, "accessory_could_decrypt": self.acc_decrypt,
                "client_traffic_besides_pair_verify": self.other_traffic}


def _exc_chain(ex):
    out = []
    while ex is not None and len(out) < 5:
        out.append(type(ex).__name__)
        ex = ex.__cause__
    return out


def _varint(n):
    out = b""
    while True:
        b = n & 0x7F
        n >>= 7
        out += bytes([b | (0x80 if n else 0)])
        if not n:
            return out


def _read_varint(buf):
    n, shift = 0, 0
    for i, b in enumerate(buf):
        n |= (b & 0x7F) << shift
        shift += 7
        if not b & 0x80:
            return n, buf[i + 1:]
    return None, buf


TAG_METHOD, TAG_SALT, TAG_PROOF, TAG_FLAGS = 0, 2, 4, 0x13
PEER_PIN = 3939  # the fixed PIN of transient pairing; the only PIN a client could try unattended


class SetupPeer:
    """The rest of a full peer: HAP pair-setup M1-M6 (regular and transient) with real SRP.

    The honest client never starts pair-setup while connecting, so on the unchanged code this
    is never reached.  It exists so that ANY fallback a connect path might try after a rejected
    pair-verify (transient pairing, re-pairing, ...) finds a cooperative peer: whatever the
    client does next on the same connection, the oracle still demands that connecting fails
    and no keys are installed.  The identity offered in M6 is the one the forged reply claims."""

    handshakes = 0
    MAX_HANDSHAKES = 120

    def __init__(self, case):
        self.case = case
        self.session = None
        self.salt = None
        self.requests = 0

    def handle(self, t):
        import hashlib

        from srptools import SRPContext, SRPServerSession, constants

        real = RealCrypto()
        self.requests += 1
        seq = t.get(TAG_SEQ, b"\x00")
        if seq == b"\x01":
            SetupPeer.handshakes += 1
            if SetupPeer.handshakes > SetupPeer.MAX_HANDSHAKES:
                # enough evidence for one run (each SRP exchange costs ~0.1 s): refuse further pair-setups
                return tlv_bytes([(TAG_SEQ, b"\x02"), (TAG_ERR, b"\x06")])
            ctx = SRPContext("Pair-Setup", str(PEER_PIN), prime=constants.PRIME_3072,
                             generator=constants.PRIME_3072_GEN, hash_func=hashlib.sha512, bits_salt=128)
            username, verifier, salt = ctx.get_user_data_triplet()
            sctx = SRPContext(username, prime=constants.PRIME_3072, generator=constants.PRIME_3072_GEN,
                              hash_func=hashlib.sha512, bits_salt=128)
            self.session = SRPServerSession(sctx, verifier, hx(self.case.w.acc_x2))
            self.salt = salt
            return tlv_bytes([(TAG_SEQ, b"\x02"), (TAG_SALT, binascii.unhexlify(salt)),
                              (TAG_PUB, binascii.unhexlify(self.session.public))])
        if seq == b"\x03" and self.session is not None:
            self.session.process(hx(t.get(TAG_PUB, b"\x00")), self.salt)
            if not self.session.verify_proof(hx(t.get(TAG_PROOF, b"\x00")).encode()):
                return tlv_bytes([(TAG_SEQ, b"\x04"), (TAG_ERR, b"\x02")])
            return tlv_bytes([(TAG_SEQ, b"\x04"), (TAG_PROOF, binascii.unhexlify(self.session.key_proof_hash))])
        if seq == b"\x05" and self.session is not None:
            key = binascii.unhexlify(self.session.key)
            session_key = real.hkdf(b"Pair-Setup-Encrypt-Salt", b"Pair-Setup-Encrypt-Info", key)
            acc_x = real.hkdf(b"Pair-Setup-Accessory-Sign-Salt", b"Pair-Setup-Accessory-Sign-Info", key)
            ltsk, ident = self.case.claimed_identity()
            ltpk = real.ed_pub(ltsk)
            sig = real.ed_sign(ltsk, acc_x + ident + ltpk)
            inner = tlv_bytes([(TAG_ID, ident), (TAG_PUB, ltpk), (TAG_SIG, sig)])
            return tlv_bytes([(TAG_SEQ, b"\x06"), (TAG_ENC, real.seal(session_key, b"PS-Msg06", inner))])
        return tlv_bytes([(TAG_SEQ, bytes([(seq[0] + 1) & 255]) if seq else b"\x00"), (TAG_ERR, b"\x01")])


class Case:
    """Everything one attempt needs: world, variant, mode, m4 behaviour."""

    def __init__(self, w, variant, mode, transport):
        self.w, self.v, self.mode, self.transport = w, variant, mode, transport
        self.m4 = variant.get("m4", "ok")
        self.log = Log()
        self.obs = Obs()
        self.sent_pd = None
        self.setup = SetupPeer(self)
        self.other_traffic = []    # what the client sent besides pair-verify M1/M3
        self.has_credentials = True

    def claimed_identity(self):
        """(long-term secret, identifier) of whoever the reply of this variant claims to be"""
        w, v = self.w, self.v
        ltsk = {"A": w.a_ltsk, "B": w.b_ltsk, "client": w.client_ltsk, "prev": getattr(w, "prev_ltsk", w.a_ltsk)}[v.get("signer", "A")]
        ident = {"A": w.a_id, "B": w.b_id, "prev": getattr(w, "prev_id", w.a_id)}[v.get("ident", "A")]
        return ltsk, ident

    def other(self, what):
        if len(self.other_traffic) < 20:
            self.other_traffic.append(what)

    def m2(self, client_pub):
        self.obs.client_pub = bytes(client_pub)
        bench = getattr(self, "bench", None)
        self.client_priv = (bench.priv_by_pub.get(bytes(client_pub)) if bench else None) or self.w.client_x
        kind, pd = build_reply(self.w, self.v, bytes(client_pub), self.client_priv)
        self.sent_pd = (kind, pd)
        return kind, pd

    def got_m3(self, pd):
        t = tlv_parse(pd) or {}
        self.obs.m3 = t.get(TAG_ENC)
        self.log.add("m3", t.get(TAG_ENC, b""))

    def enabled(self, out_key, in_key):
        self.obs.enabled.append((bytes(out_key), bytes(in_key)))
        self.log.add("enable", out_key, in_key)

    def accessory_keys(self):
        """(key for client->accessory traffic, key for accessory->client traffic), real mode"""
        cr = self.w.crypto
        shared = cr.exchange(self.w.acc_x, self.obs.client_pub)
        salt, cw, cread = TRANSPORT_KDF[self.transport]
        return cr.hkdf(salt, cw, shared), cr.hkdf(salt, cread, shared)


def mrp_accessory(case, loop, holder):
    """The accessory end of an MRP connection; `holder["conn"]` is the client's MrpConnection.
    Returns the transport's write callback."""
    from pyatv.protocols.mrp import messages, protobuf

    real = case.mode == "real"
    state = {"buf": b"", "enc": None, "cnt_in": 0, "cnt_out": 0}

    def deliver(msg):
        data = msg.SerializeToString()
        if state["enc"] is not None:
            data = case.w.crypto.seal(state["enc"][1], state["cnt_out"].to_bytes(8, "little"), data)
            state["cnt_out"] += 1
        loop.call_soon(holder["conn"].data_received, _varint(len(data)) + data)

    def on_message(data):
        msg = protobuf.ProtocolMessage()
        if state["enc"] is not None:
            plain = case.w.crypto.open(state["enc"][0], state["cnt_in"].to_bytes(8, "little"), data)
            if plain is None:
                case.obs.acc_decrypt = False
                return
            state["cnt_in"] += 1
            case.obs.acc_decrypt = True
            data = plain
        msg.ParseFromString(data)
        if msg.type == protobuf.DEVICE_INFO_MESSAGE:
            resp = messages.create(protobuf.DEVICE_INFO_MESSAGE, identifier=msg.identifier)
            resp.inner().uniqueIdentifier = case.w.a_id.decode()
            resp.inner().name = "verif accessory"
            deliver(resp)
        elif msg.type == protobuf.CRYPTO_PAIRING_MESSAGE:
            t = tlv_parse(msg.inner().pairingData) or {}
            seq = t.get(TAG_SEQ, b"\x00")
            if seq == b"\x01":
                state["setup"] = TAG_METHOD in t and TAG_PUB not in t
            if state.get("setup"):
                case.other("pair-setup M%d" % (seq[0] if seq else 0))
                resp = messages.create(protobuf.CRYPTO_PAIRING_MESSAGE)
                resp.inner().status = 0
                resp.inner().pairingData = case.setup.handle(t)
                deliver(resp)
            elif seq == b"\x01":
                kind, pd = case.m2(t.get(TAG_PUB, b""))
                resp = messages.create(protobuf.CRYPTO_PAIRING_MESSAGE)
                resp.inner().status = 0
                if kind == "bytes":
                    resp.inner().pairingData = pd
                deliver(resp)
            elif seq == b"\x03":
                case.got_m3(msg.inner().pairingData)
                m4 = build_m4(case.m4)
                if m4 is not None:
                    resp = messages.create(protobuf.CRYPTO_PAIRING_MESSAGE)
                    resp.inner().status = 0
                    if m4[0] == "bytes":
                        resp.inner().pairingData = m4[1]
                    deliver(resp)
                    if real and case.m4 in M4_ACK:
                        state["enc"] = case.accessory_keys()
        elif msg.identifier:
            if not case.obs.enabled and case.has_credentials:
                case.other("message type %d" % msg.type)
            deliver(messages.create(msg.type, identifier=msg.identifier))

    def on_write(data):
        state["buf"] += data
        while state["buf"]:
            n, rest = _read_varint(state["buf"])
            if n is None or len(rest) < n:
                return
            state["buf"] = rest[n:]
            try:
                on_message(rest[:n])
            except Exception as ex:  # the accessory never crashes the run
                case.log.add("accessory-error:" + type(ex).__name__)

    return on_write


async def attempt_mrp(case, loop):
    from pyatv.auth.hap_srp import SRPAuthHandler
    from pyatv.protocols.mrp import protocol as mrp_protocol
    from pyatv.protocols.mrp.connection import MrpConnection
    from pyatv.settings import InfoSettings

    real = case.mode == "real"
    holder = {}

    class Conn(MrpConnection):
        async def connect(self):
            self.connection_made(FakeTransport(mrp_accessory(case, loop, holder)))

        def enable_encryption(self, output_key, input_key):
            case.enabled(output_key, input_key)
            if real:
                super().enable_encryption(output_key, input_key)

    conn = holder["conn"] = Conn("127.0.0.1", 49152, loop)

    class Service:
        credentials = case.w.credentials_string()
        port = 49152
        properties = {}

    prot = mrp_protocol.MrpProtocol(conn, SRPAuthHandler(), Service(), InfoSettings())
    try:
        await prot.start()
    except Exception as ex:
        case.obs.exc = type(ex).__name__
        case.obs.exc_chain = _exc_chain(ex)
    case.obs.keys_after = conn._chacha is not None  # noqa: protected access is the observation point
    prot.stop()


def companion_accessory(case, loop, holder):
    """The accessory end of a Companion connection (auth frames in the clear; after an
    acknowledged pair-verify, real mode: OPACK frames under the accessory's own keys)."""
    from pyatv.protocols.companion.connection import FrameType
    from pyatv.support import opack

    real = case.mode == "real"
    state = {"buf": b"", "enc": None, "cnt_in": 0, "cnt_out": 0}

    def deliver(frame_type, obj):
        payload = opack.pack(obj)
        if state["enc"] is not None and payload:
            header = bytes([frame_type.value]) + (len(payload) + 16).to_bytes(3, "big")
            payload = case.w.crypto.seal(state["enc"][1], state["cnt_out"].to_bytes(12, "little"), payload, aad=header)
            state["cnt_out"] += 1
        loop.call_soon(holder["conn"].data_received, bytes([frame_type.value]) + len(payload).to_bytes(3, "big") + payload)

    def on_frame(ftype, payload):
        obj, _ = opack.unpack(payload)
        t = tlv_parse(obj.get("_pd", b"")) or {}
        seq = t.get(TAG_SEQ, b"\x00")
        if ftype in (FrameType.PS_Start.value, FrameType.PS_Next.value):
            case.other("pair-setup M%d" % (seq[0] if seq else 0))
            deliver(FrameType.PS_Next, {"_pd": case.setup.handle(t)})
        elif ftype not in (FrameType.PV_Start.value, FrameType.PV_Next.value):
            if not case.obs.enabled:
                case.other("frame type %d" % ftype)
            if isinstance(obj, dict) and obj.get("_t") == 2 and "_x" in obj:
                deliver(FrameType(ftype), {"_t": 3, "_x": obj["_x"], "_c": {"_sid": 1, "state": 3}})
        elif ftype == FrameType.PV_Start.value and seq == b"\x01":
            kind, pd = case.m2(t.get(TAG_PUB, b""))
            if kind == "bytes":
                deliver(FrameType.PV_Next, {"_pd": pd})
            elif kind == "absent":
                deliver(FrameType.PV_Next, {"_x": 1})
            else:
                deliver(FrameType.PV_Next, {"_pd": "not bytes"})
        elif ftype == FrameType.PV_Next.value and seq == b"\x03":
            case.got_m3(obj.get("_pd", b""))
            m4 = build_m4(case.m4)
            if m4 is not None:
                if m4[0] == "bytes":
                    deliver(FrameType.PV_Next, {"_pd": m4[1]})
                elif m4[0] == "absent":
                    deliver(FrameType.PV_Next, {"_x": 2})
                else:
                    deliver(FrameType.PV_Next, {"_pd": "not bytes"})
                if real and case.m4 in M4_ACK:
                    state["enc"] = case.accessory_keys()
            elif case.m4 == "protocol":
                deliver(FrameType.PV_Next, {"_em": "verif: accessory refuses"})

    def on_write(data):
        state["buf"] += data
        while len(state["buf"]) >= 4:
            n = int.from_bytes(state["buf"][1:4], "big")
            if len(state["buf"]) < 4 + n:
                return
            header, ftype, payload = state["buf"][:4], state["buf"][0], state["buf"][4:4 + n]
            state["buf"] = state["buf"][4 + n:]
            try:
                if state["enc"] is not None and payload:
                    plain = case.w.crypto.open(state["enc"][0], state["cnt_in"].to_bytes(12, "little"), payload, aad=header)
                    if plain is None:
                        case.obs.acc_decrypt = False
                        continue
                    state["cnt_in"] += 1
                    case.obs.acc_decrypt = True
                    payload = plain
                on_frame(ftype, payload)
            except Exception as ex:
                case.log.add("accessory-error:" + type(ex).__name__)

    return on_write


async def attempt_companion(case, loop):
    from pyatv.auth.hap_srp import SRPAuthHandler
    from pyatv.protocols.companion import protocol as companion_protocol
    from pyatv.protocols.companion.connection import CompanionConnection, FrameType
    from pyatv.support import opack

    real = case.mode == "real"
    holder = {}

    class Conn(CompanionConnection):
        async def connect(self):
            self.connection_made(FakeTransport(companion_accessory(case, loop, holder)))

        def enable_encryption(self, output_key, input_key):
            case.enabled(output_key, input_key)
            if real:
                super().enable_encryption(output_key, input_key)

    conn = holder["conn"] = Conn(loop, "127.0.0.1", 49153)

    class Service:
        credentials = case.w.credentials_string()
        port = 49153
        properties = {}

    prot = companion_protocol.CompanionProtocol(conn, SRPAuthHandler(), Service())
    try:
        await prot.start()
    except Exception as ex:
        case.obs.exc = type(ex).__name__
        case.obs.exc_chain = _exc_chain(ex)
    case.obs.keys_after = conn._chacha is not None  # noqa
    if real and case.obs.exc is None and conn._chacha is not None:
        # non-vacuity: what the client now sends must be readable with the accessory's keys
        conn.send(FrameType.E_OPACK, opack.pack({"_i": "verif", "_t": 1, "_c": {}, "_x": 7}))
    prot.stop()


def airplay_accessory(case, loop, holder):
    """The accessory end of an AirPlay control connection (HTTP)."""
    state = {"buf": b""}

    def respond(code, body, ctype="application/octet-stream", proto="HTTP/1.1", extra=""):
        head = f"{proto} {code} {'OK' if code == 200 else 'Error'}\r\nContent-Length: {len(body)}\r\nContent-Type: {ctype}\r\n{extra}\r\n"
        loop.call_soon(holder["conn"].data_received, head.encode() + body)

    def on_request(path, body, method="POST", proto="HTTP/1.1", cseq=None):
        t = tlv_parse(body) or {}
        seq = t.get(TAG_SEQ, b"\x00")
        if method != "POST" or proto != "HTTP/1.1" or path == "/play":
            # what a client does once it trusts the receiver (ANNOUNCE, SETUP, POST /play, ...)
            case.other("TRUSTED:%s %s" % (method, path if path.startswith("/") else "<uri>"))
            extra = "Transport: RTP/AVP/UDP;unicast;mode=record;control_port=1;timing_port=2;server_port=3\r\nSession: 1\r\n"
            if cseq is not None:
                extra += "CSeq: %s\r\n" % cseq
            respond(200, b"", proto=proto, extra=extra)
        elif path == "/pair-setup":
            case.other("POST /pair-setup M%d" % (seq[0] if seq else 0))
            respond(200, case.setup.handle(t))
        elif path != "/pair-verify" or seq not in (b"\x01", b"\x03") or (seq == b"\x01" and TAG_PUB not in t):
            case.other("%s (%d bytes)" % (path, len(body)))   # /pair-pin-start, legacy endpoints, anything else
            respond(200, b"")
        elif seq == b"\x01":
            kind, pd = case.m2(t.get(TAG_PUB, b""))
            if kind == "bytes":
                respond(200, pd)
            elif kind == "absent":
                respond(200, b"")
            else:
                respond(200, b"not bytes", ctype="text/plain")
        elif seq == b"\x03":
            case.got_m3(body)
            m4 = build_m4(case.m4)
            if m4 is not None:
                if m4[0] == "bytes":
                    respond(200, m4[1])
                elif m4[0] == "absent":
                    respond(200, b"")
                else:
                    respond(200, b"not bytes", ctype="text/plain")
            elif case.m4 == "http":
                respond(500, b"")
            elif case.m4 == "auth":
                respond(403, b"")

    def on_write(data):
        state["buf"] += data
        while b"\r\n\r\n" in state["buf"]:
            head, rest = state["buf"].split(b"\r\n\r\n", 1)
            n = 0
            for line in head.split(b"\r\n")[1:]:
                if line.lower().startswith(b"content-length:"):
                    n = int(line.split(b":", 1)[1])
            if len(rest) < n:
                return
            state["buf"] = rest[n:]
            try:
                first = head.split(b"\r\n")[0].decode("utf-8", "replace").split(" ")
                cseq = None
                for line in head.split(b"\r\n")[1:]:
                    if line.lower().startswith(b"cseq:"):
                        cseq = line.split(b":", 1)[1].strip().decode()
                on_request(first[1] if len(first) > 1 else "?", rest[:n], first[0],
                           first[2] if len(first) > 2 else "HTTP/1.1", cseq)
            except Exception as ex:
                case.log.add("accessory-error:" + type(ex).__name__)

    return on_write


async def attempt_airplay(case, loop):
    from pyatv.auth.hap_pairing import parse_credentials
    from pyatv.protocols.airplay import auth as airplay_auth
    from pyatv.support import http

    holder = {}
    conn = holder["conn"] = http.HttpConnection()
    null_send, null_recv = conn.send_processor, conn.receive_processor
    conn.connection_made(FakeTransport(airplay_accessory(case, loop, holder)))
    creds = parse_credentials(case.w.credentials_string())
    if case.v.get("advertise") is not None:
        # what AirPlay's own callers do: credentials for the connection are SELECTED by
        # extract_credentials(service) from the stored ones and the peer's advertised features
        from pyatv.conf import ManualService
        from pyatv.const import Protocol

        service = ManualService("verif", Protocol.AirPlay, 7000, dict(case.v["advertise"]),
                                credentials=case.w.credentials_string())
        try:
            creds = airplay_auth.extract_credentials(service)
        except Exception as ex:
            case.obs.exc = type(ex).__name__
            case.obs.exc_chain = _exc_chain(ex)
            conn.close()
            return
    if case.mode == "sym" and bytes(creds.atv_id):
        SpyBytes.log = case.log
        creds.atv_id = SpyBytes(creds.atv_id)
    try:
        await airplay_auth.verify_connection(creds, conn)
    except Exception as ex:
        case.obs.exc = type(ex).__name__
        case.obs.exc_chain = _exc_chain(ex)
    case.obs.keys_after = conn.send_processor != null_send or conn.receive_processor != null_recv
    if case.mode == "real" and case.obs.exc is None and case.obs.keys_after:
        seen = []
        conn.transport.on_write = seen.append
        conn.transport.write(conn.send_processor(b"GET /info RTSP/1.0\r\n\r\n"))
        if seen:
            blk = seen[0]
            plain = case.w.crypto.open(case.accessory_keys()[0], (0).to_bytes(8, "little"), blk[2:], aad=blk[:2])
            case.obs.acc_decrypt = plain is not None
    conn.close()


async def attempt_airplayv1(case, loop):
    """pair-verify as run by AirPlayV1.setup() / AirPlayV1.play_url(): verify_credentials() is the
    whole verdict there, no keys are ever derived (AirPlay 1 has none)."""
    from pyatv.auth.hap_pairing import parse_credentials
    from pyatv.protocols.raop.protocols import StreamContext
    from pyatv.protocols.raop.protocols.airplayv1 import AirPlayV1
    from pyatv.support import http
    from pyatv.support.rtsp import RtspSession

    holder = {}
    conn = holder["conn"] = http.HttpConnection()
    conn.connection_made(FakeTransport(airplay_accessory(case, loop, holder)))
    context = StreamContext()
    context.credentials = parse_credentials(case.w.credentials_string())
    if case.mode == "sym":
        SpyBytes.log = case.log
        context.credentials.atv_id = SpyBytes(context.credentials.atv_id)
    proto = AirPlayV1(context, RtspSession(conn))
    try:
        if case.transport == "airplayv1-setup":
            await proto.setup(49200, 49201)
        else:
            await proto.play_url(49200, "http://verif.invalid/video.mp4")
    except Exception as ex:
        case.obs.exc = type(ex).__name__
        case.obs.exc_chain = _exc_chain(ex)
    conn.close()


# ----------------------------------------------------------------------------------------
# the user-level path: real pyatv.connect() on a multi-service configuration
# ----------------------------------------------------------------------------------------
USER_CONFIGS = {
    # name: services as (protocol, stores HAP credentials, AirPlay remote-control tunnel)
    "mrp+companion": [("mrp", True), ("companion", True)],
    "mrp(nocreds)+companion": [("mrp", False), ("companion", True)],
    "airplay(plain)+companion": [("airplay", False), ("companion", True)],
    "airplay(tunnel)+companion": [("airplay", True), ("companion", True)],
    "airplay(tunnel)+mrp(nocreds)": [("airplay", True), ("mrp", False)],
    "companion": [("companion", True)],
    "airplay(tunnel)": [("airplay", True)],
    # HAP credentials stored, the peer advertises the (transient) pairing feature bits
    "airplay(appletv,pairing-bits)+companion": [
        ("airplay", True, {"model": "AppleTV6,2", "osvers": "14.5", "features": "0x00000000,0x00010800"}), ("companion", True)],
    "airplay(homepod,pairing-bits)+companion": [
        ("airplay", True, {"model": "AudioAccessory5,1", "osvers": "14.5", "features": "0x00000000,0x00010000"}), ("companion", True)],
    "airplay(homepod,system-pairing)+mrp(nocreds)": [
        ("airplay", True, {"model": "AudioAccessory1,1", "osvers": "15.0", "ft": "0x00000000,0x00000800"}), ("mrp", False)],
}
# configurations in which the pinned code opens no AirPlay control connection at connect time (a HomePod's
# remote-control channel needs transient credentials, HAP ones are stored): pair-verify need not start, but
# no keys may ever be installed for the impostor
USER_VERIFY_OPTIONAL = {"airplay(homepod,pairing-bits)+companion", "airplay(homepod,system-pairing)+mrp(nocreds)"}
# (config, protocol whose accessory presents the forged reply)
USER_SLOTS = [
    ("mrp+companion", "mrp"), ("mrp+companion", "companion"), ("mrp(nocreds)+companion", "companion"),
    ("airplay(plain)+companion", "companion"), ("airplay(tunnel)+companion", "airplay"),
    ("airplay(tunnel)+mrp(nocreds)", "airplay"),
    ("airplay(appletv,pairing-bits)+companion", "airplay"), ("airplay(homepod,pairing-bits)+companion", "airplay"),
    ("airplay(homepod,system-pairing)+mrp(nocreds)", "airplay"),
]
USER_HONEST = ["mrp+companion", "mrp(nocreds)+companion", "airplay(plain)+companion"]


class UserCase:
    """One pyatv.connect(): a Case per protocol (all for the same accessory/world)."""

    def __init__(self, w, config, forged, variant):
        self.w, self.config, self.forged, self.v = w, config, forged, variant
        self.cases = {}
        for entry in USER_CONFIGS[config]:
            proto, creds = entry[0], entry[1]
            c = Case(w, variant if proto == forged else {}, "real", proto)
            c.has_credentials = creds
            self.cases[proto] = c
        self.log = Log()
        self.conns = {}
        self.exc = None
        self.exc_chain = []
        self.connected = False

    def enabled(self, out_key, in_key):  # HAPSession.enable (AirPlay)
        if "airplay" in self.cases:
            self.cases["airplay"].enabled(out_key, in_key)

    def keys_after(self, proto):
        conn = self.conns.get(proto)
        if conn is None:
            return False
        if proto == "airplay":
            return conn.send_processor is not self.null_processors[0] or conn.receive_processor is not self.null_processors[1]
        return conn._chacha is not None  # noqa

    def summary(self):
        return {"exc": self.exc, "chain": self.exc_chain,
                "per_protocol": {p: {"enable_calls": len(c.obs.enabled), "keys_after": self.keys_after(p),
                                     "pair_verify_started": c.sent_pd is not None,
                                     "accessory_could_decrypt": c.obs.acc_decrypt,
                                     "client_traffic_besides_pair_verify": c.other_traffic}
                                 for p, c in self.cases.items()}}


async def attempt_user(u, loop):
    import ipaddress

    import pyatv
    from pyatv.conf import AppleTV, ManualService
    from pyatv.const import Protocol

    conf = AppleTV(ipaddress.ip_address("127.0.0.1"), "verif accessory")
    ports = {"mrp": 49152, "companion": 49153, "airplay": 7000}
    protos = {"mrp": Protocol.MRP, "companion": Protocol.Companion, "airplay": Protocol.AirPlay}
    for entry in USER_CONFIGS[u.config]:
        proto, creds = entry[0], entry[1]
        props = {}
        if proto == "airplay" and creds:
            props = {"model": "AppleTV6,2", "osvers": "14.5", "features": "0x0"}
        if len(entry) > 2:
            props = dict(entry[2])
        conf.add_service(ManualService("verif-" + u.w.a_id.decode(), protos[proto], ports[proto], props,
                                       credentials=u.w.credentials_string() if creds else None))
    atv = None
    try:
        atv = await pyatv.connect(conf, loop)
        u.connected = True
    except Exception as ex:
        u.exc = type(ex).__name__
        u.exc_chain = _exc_chain(ex)
    u.keys_snapshot = {p: u.keys_after(p) for p in u.cases}
    if atv is not None:
        try:
            tasks = atv.close()
            if tasks:
                await asyncio.wait(tasks, timeout=30)
        except Exception:
            pass


ATTEMPT = {"mrp": attempt_mrp, "companion": attempt_companion, "airplay": attempt_airplay,
           "airplay-selected": attempt_airplay,
           "airplayv1-setup": attempt_airplayv1, "airplayv1-play": attempt_airplayv1}
VERIFY_ONLY = ("airplayv1-setup", "airplayv1-play")  # call sites that verify without deriving keys


class Bench:
    """Applies the namespace patches once, runs many attempts on one virtual-time loop."""

    def __init__(self, mode):
        self.mode = mode
        self.patches = Patches()
        self.current = None
        self.loop = None
        self.rand_k = {}
        self.priv_by_pub = {}

    def __enter__(self):
        import os as real_os

        from pyatv.auth import hap_session, hap_srp
        from pyatv.auth.hap_pairing import parse_credentials
        from pyatv.protocols.airplay import auth as airplay_auth
        from pyatv.protocols.companion import protocol as companion_protocol
        from pyatv.protocols.mrp import protocol as mrp_protocol

        from harness.core.vloop import VirtualLoop

        bench = self
        SetupPeer.handshakes = 0   # budget per campaign (symbolic / real / user / reconnect), not per process
        SetupPeer.MAX_HANDSHAKES = 120 if self.mode == "real" else 30
        self.loop = VirtualLoop()
        asyncio.set_event_loop(self.loop)
        p = self.patches

        def urandom(n):
            # SRPAuthHandler.initialize asks for the Ed25519 seed, then the X25519 key.  Every call
            # gets a FRESH deterministic value (k-th request for this world in this process), so a
            # client that ought to make new session keys per connection really gets new ones and a
            # replayed reply can only pass if the code under test reuses an old key.
            if n != 32:
                return real_os.urandom(n)
            w = bench.current.w
            k = bench.rand_k.get(id(w), 0)
            bench.rand_k[id(w)] = k + 1
            if k == 0:
                val = w.client_ed_seed
            elif k == 1:
                val = w.client_x
            else:
                val = hashlib.sha256(b"c06-urandom" + w.client_x + k.to_bytes(4, "big")).digest()
            for cr in (RealCrypto, SymCrypto):
                try:
                    bench.priv_by_pub[cr().x_pub(val)] = val
                except Exception:
                    pass
            return val

        # equivalent spellings of the same imports are patched alike (import os / from os import urandom)
        if hasattr(hap_srp, "os"):
            p.set(hap_srp, "os", Shim(real_os, urandom=urandom))
        if hasattr(hap_srp, "urandom"):
            p.set(hap_srp, "urandom", urandom)

        class RecHAPSession(hap_session.HAPSession):
            def enable(self, output_key, input_key):
                bench.current.enabled(output_key, input_key)
                if bench.mode == "real":
                    super().enable(output_key, input_key)

        p.set(airplay_auth, "HAPSession", RecHAPSession)

        if self.mode == "real":
            # user-level path: pyatv.connect() builds its own connections; give them fake transports
            from pyatv.protocols import mrp as mrp_pkg
            from pyatv.protocols.airplay import ap2_session
            from pyatv.protocols.companion import api as companion_api
            from pyatv.support import http as http_mod

            class UserMrpConnection(mrp_pkg.MrpConnection):
                async def connect(self):
                    u = bench.current
                    u.conns["mrp"] = self
                    self.connection_made(FakeTransport(mrp_accessory(u.cases["mrp"], self.loop, {"conn": self})))

                def enable_encryption(self, output_key, input_key):
                    bench.current.cases["mrp"].enabled(output_key, input_key)
                    super().enable_encryption(output_key, input_key)

            class UserCompanionConnection(companion_api.CompanionConnection):
                async def connect(self):
                    u = bench.current
                    u.conns["companion"] = self
                    self.connection_made(FakeTransport(companion_accessory(u.cases["companion"], self.loop, {"conn": self})))

                def enable_encryption(self, output_key, input_key):
                    bench.current.cases["companion"].enabled(output_key, input_key)
                    super().enable_encryption(output_key, input_key)

            async def user_http_connect(address, port):
                u = bench.current
                conn = http_mod.HttpConnection()
                u.null_processors = (conn.send_processor, conn.receive_processor)
                u.conns["airplay"] = conn
                conn.connection_made(FakeTransport(airplay_accessory(u.cases["airplay"], bench.loop, {"conn": conn})))
                return conn

            p.set(mrp_pkg, "MrpConnection", UserMrpConnection)
            p.set(companion_api, "CompanionConnection", UserCompanionConnection)
            p.set(ap2_session, "http_connect", user_http_connect)

        if self.mode == "sym":
            class LogProxy:
                def add(self, *a):
                    bench.current.log.add(*a)

            stubs = make_stubs(LogProxy(), SymCrypto())
            for name in ("X25519PublicKey", "X25519PrivateKey", "Ed25519PublicKey", "Ed25519PrivateKey", "hkdf_expand"):
                if hasattr(hap_srp, name):
                    p.set(hap_srp, name, stubs[name])
            if hasattr(hap_srp, "chacha20"):
                p.set(hap_srp, "chacha20", Shim(hap_srp.chacha20, Chacha20Cipher8byteNonce=stubs["Cipher"],
                                                Chacha20Cipher=stubs["Cipher"]))
            for name in ("Chacha20Cipher8byteNonce", "Chacha20Cipher"):
                if hasattr(hap_srp, name):
                    p.set(hap_srp, name, stubs["Cipher"])

            def spying_parse(detail):
                creds = parse_credentials(detail)
                SpyBytes.log = bench.current.log
                creds.atv_id = SpyBytes(creds.atv_id)
                return creds

            p.set(mrp_protocol, "parse_credentials", spying_parse)
            p.set(companion_protocol, "parse_credentials", spying_parse)
        return self

    def __exit__(self, *a):
        self.patches.__exit__()
        try:
            self.loop.close()
        finally:
            asyncio.set_event_loop(None)

    def attempt(self, w, variant, transport):
        case = Case(w, variant, self.mode, transport)
        case.bench = self
        self.current = case
        loop = self.loop

        async def go():
            await ATTEMPT[transport](case, loop)

        try:
            loop.run_until_complete(go())
        except Exception as ex:  # Deadlock of the virtual loop or a fake's own failure
            case.obs.exc = case.obs.exc or ("HARNESS:" + type(ex).__name__)
        finally:
            pending = [t for t in asyncio.all_tasks(loop) if not t.done()]
            for t in pending:
                t.cancel()
            if pending:
                try:
                    loop.run_until_complete(asyncio.gather(*pending, return_exceptions=True))
                except Exception:
                    pass
        case.obs.other_traffic = list(case.other_traffic)
        return case

    def attempt_reconnect(self, w, kind, v2):
        """Two sessions on ONE user-level object (or two pyatv.connect() of one configuration): the first
        with the honest accessory, the second answered per `v2` (replay_prev = the first session's bytes).
        -> (first UserCase, second UserCase)"""
        from types import SimpleNamespace

        loop = self.loop
        bench = self
        config, forged = {"companion-api": ("companion", "companion"), "ap2session": ("airplay(tunnel)", "airplay"),
                          "pyatv.connect:mrp": ("mrp+companion", "mrp"),
                          "pyatv.connect:companion": ("mrp+companion", "companion")}[kind]
        us = []

        def new_session(variant):
            u = UserCase(w, config, forged, variant)
            for c in u.cases.values():
                c.bench = bench
            bench.current = u
            us.append(u)
            return u

        async def guarded(u, coro):
            try:
                await coro
                u.connected = True
            except Exception as ex:
                u.exc = type(ex).__name__
                u.exc_chain = _exc_chain(ex)
            u.keys_snapshot = {p: u.keys_after(p) for p in u.cases}

        async def go():
            if kind == "companion-api":
                from pyatv.protocols.companion.api import CompanionAPI
                from pyatv.settings import Settings

                core = SimpleNamespace(loop=loop, config=SimpleNamespace(address="127.0.0.1"), device_listener=None,
                                       settings=Settings(),
                                       service=SimpleNamespace(port=49153, credentials=w.credentials_string(), properties={}))
                api = CompanionAPI(core)
                u1 = new_session({})
                await guarded(u1, api.connect())
                try:
                    await api.disconnect()
                except Exception:
                    pass
                w.prev_pd = (u1.cases[forged].sent_pd or (None, None))[1]
                u2 = new_session(v2)
                await guarded(u2, api.connect())
                try:
                    await api.disconnect()
                except Exception:
                    pass
            elif kind == "ap2session":
                from pyatv.auth.hap_pairing import parse_credentials
                from pyatv.protocols.airplay.ap2_session import AP2Session
                from pyatv.settings import InfoSettings

                sess = AP2Session("127.0.0.1", 7000, parse_credentials(w.credentials_string()), InfoSettings())
                u1 = new_session({})
                await guarded(u1, sess.connect())
                w.prev_pd = (u1.cases[forged].sent_pd or (None, None))[1]
                u2 = new_session(v2)
                await guarded(u2, sess.connect())
            else:
                u1 = new_session({})
                u1.forged = None
                await attempt_user(u1, loop)
                w.prev_pd = (u1.cases[forged].sent_pd or (None, None))[1]
                u2 = new_session(v2)
                await attempt_user(u2, loop)

        try:
            loop.run_until_complete(go())
        except Exception as ex:
            for u in us:
                if not hasattr(u, "keys_snapshot"):
                    u.exc = u.exc or ("HARNESS:" + type(ex).__name__)
                    u.keys_snapshot = {p: u.keys_after(p) for p in u.cases}
        finally:
            pending = [t for t in asyncio.all_tasks(loop) if not t.done()]
            for t in pending:
                t.cancel()
            if pending:
                try:
                    loop.run_until_complete(asyncio.gather(*pending, return_exceptions=True))
                except Exception:
                    pass
        return us[0], us[-1]

    def attempt_user(self, w, config, forged, variant):
        u = UserCase(w, config, forged, variant)
        for c in u.cases.values():
            c.bench = self
        self.current = u
        loop = self.loop
        try:
            loop.run_until_complete(attempt_user(u, loop))
        except Exception as ex:
            u.exc = u.exc or ("HARNESS:" + type(ex).__name__)
            u.keys_snapshot = {p: u.keys_after(p) for p in u.cases}
        finally:
            pending = [t for t in asyncio.all_tasks(loop) if not t.done()]
            for t in pending:
                t.cancel()
            if pending:
                try:
                    loop.run_until_complete(asyncio.gather(*pending, return_exceptions=True))
                except Exception:
                    pass
        return u


# ----------------------------------------------------------------------------------------
# variants
# ----------------------------------------------------------------------------------------
ACCEPTABLE = [  # semantically the honest reply (reference verifier says yes)
    {},
    {"inner": "split_ident"},
    {"inner": "extra"},
    {"outer": "extra"},
    {"outer": "split_pub"},
]

STRUCTURAL = [
    {"ident": "B"},
    {"ident": "B", "sig_ident": "A"},
    {"signer": "B"},
    {"signer": "B", "ident": "B"},
    {"signer": "client"},
    {"sigmsg": "no_own"},
    {"sigmsg": "swapped"},
    {"sigmsg": "stale_own"},
    {"sigmsg": "m3order"},
    {"sigmsg": "no_id"},
    {"sig_pub": "other"},
    {"sig_pub": "other", "sigmsg": "stale_own"},
    {"pub": "other"},
    {"replay": True},
    {"replay": True, "enc_key": "session"},
    {"enc_key": "other_session"},
    {"enc_key": "wrong_info"},
    {"enc_key": "wrong_nonce"},
    {"inner": "no_ident"},
    {"inner": "no_sig"},
    {"inner": "empty"},
    {"inner": "cut1"},
    {"inner": "dangling"},
    {"inner": "dup_ident"},
    {"inner": "dup_sig"},
    {"inner": "empty_ident"},
    {"outer": "no_pub"},
    {"outer": "no_enc"},
    {"outer": "error"},
    {"outer": "error_only"},
    {"outer": "dangling"},
    {"outer": "cut1"},
    {"outer": "dup_pub"},
    {"outer": "empty"},
    {"outer": "absent"},
    {"outer": "notbytes"},
    {"pub_mut": {"append": "00"}},
    {"ident_mut": {"append": "00"}},
    {"ident_mut": {"append": "00"}, "sig_ident": "A"},
    # identifiers equal to the stored one only after some normalisation (re-signed and stale)
    {"ident_mut": {"case": "lower"}}, {"ident_mut": {"case": "lower"}, "sig_ident": "A"},
    {"ident_mut": {"case": "swap"}}, {"ident_mut": {"case": "swap"}, "sig_ident": "A"},
    {"ident_mut": {"append": "20"}}, {"ident_mut": {"append": "0a"}}, {"ident_mut": {"prepend": "20"}},
    {"ident_mut": {"append": "20"}, "sig_ident": "A"},
    # identifiers that are not valid UTF-8 (only bytes are ever compared)
    {"ident_mut": {"set": "ff" * 36}}, {"ident_mut": {"set": "c328" + "41" * 34}, "sig_ident": "A"},
    {"ident_mut": {"append": "80"}},
    {"sig_mut": {"append": "00"}},
    {"enc_mut": {"append": "00"}},
    {"ident_mut": {"trunc": 0}},
    {"ident_mut": {"trunc": 35}},
    {"sig_mut": {"trunc": 0}},
    {"enc_mut": {"trunc": 0}},
    {"enc_mut": {"trunc": 15}},
    {"pub_mut": {"trunc": 0}},
    {"pub_mut": {"trunc": 31}},
    # X25519 ignores the top bit of the peer's u-coordinate (RFC 7748): same shared secret, other bytes
    {"pub_mut": {"flip": 255}},
]

# Every TLV tag the code reads anywhere (hap_tlv8.TlvValue), each with a value an impostor would choose:
# its own long-term key as PublicKey, the stored identifier as Identifier, ...
EXTRA_TAG_VALUES = [
    (0x00, "hex:00"), (0x01, "A_id"), (0x01, "B_id"), (0x02, "hex:" + "11" * 16), (0x03, "signer_ltpk"), (0x03, "A_ltpk"),
    (0x03, "acc_pub"), (0x04, "hex:" + "22" * 64), (0x05, "hex:" + "33" * 24), (0x06, "hex:02"), (0x06, "hex:04"),
    (0x07, "hex:00"), (0x08, "hex:01"), (0x09, "signer_ltpk"), (0x0A, "sig"), (0x0B, "hex:01"), (0x11, "hex:6e"),
    (0x13, "hex:10"),
]
EXTRA_BASES = [{"signer": "B"}, {"signer": "client"}, {"signer": "B", "ident": "B"}, {"ident": "B"},
               {"sigmsg": "no_own"}]


def extra_variants():
    """Forged replies that additionally carry extra, optional or duplicated TLV items — in the sealed TLV
    and in the pairing data — with attacker-chosen values consistent with the forgery."""
    out = []
    for base in EXTRA_BASES:
        for tag, what in EXTRA_TAG_VALUES:
            for where in ("first", "last"):
                out.append(dict(base, inner_add=[[tag, what, where]]))
                out.append(dict(base, outer_add=[[tag, what, where]]))
        out.append(dict(base, inner_add=[[0x03, "signer_ltpk", "last"], [0x01, "A_id", "first"]]))
        out.append(dict(base, inner_add=[[0x03, "signer_ltpk", "first"]], outer_add=[[0x03, "signer_ltpk", "last"]]))
    # the honest reply with harmless extras (reference verifier: still the honest reply)
    for tag, what in [(0x03, "A_ltpk"), (0x00, "hex:00"), (0x11, "hex:6e")]:
        out.append({"inner_add": [[tag, what, "last"]]})
    return out


REAL_ONLY = [
    {"pub_mut": {"set": "00" * 32}},                  # low-order point: exchange itself refuses
    {"pub_mut": {"set": "01" + "00" * 31}},
]

M4_REPLIES = ["seq4_split", "extra", "error", "error_only", "seq5", "seq2", "seq_long", "seq_dup", "seq_empty",
              "noseq", "dangling", "empty", "absent", "notbytes"]
M4_VARIANTS = {
    "mrp": [{"m4": k} for k in ["timeout"] + M4_REPLIES],
    "companion": [{"m4": k} for k in ["timeout", "protocol"] + M4_REPLIES],
    "airplay": [{"m4": k} for k in ["timeout", "http", "auth"] + M4_REPLIES],
}

FIELD_BITS = {"pub": 32 * 8, "enc": 120 * 8, "ident": 36 * 8, "sig": 64 * 8}


def field_variants(field, m):
    if field == "ident":
        return [{"ident_mut": m}, {"ident_mut": m, "sig_ident": "A"}]
    return [{field + "_mut": m}]


def real_variants(ctx, rng):
    """Forged replies of the real-crypto campaign (all must be rejected)."""
    out = []
    for field, bits in FIELD_BITS.items():
        for n in range(bits // 8):                      # every truncation (0 .. len-1 bytes kept)
            out += field_variants(field, {"trunc": n})
        if ctx.thorough:
            picks = range(bits)                         # every single-bit flip
        else:
            k = max(8, 300 * bits // sum(FIELD_BITS.values()))
            picks = sorted(rng.sample(range(bits), min(k, bits)))
        for i in picks:
            out += field_variants(field, {"flip": i})
    return out


def sym_variants(ctx, rng):
    out = []
    for field in ("pub", "enc", "ident", "sig"):
        for _ in range(ctx.scale(6, 20)):
            out += field_variants(field, {"flip": rng.randrange(8 * 32)})
        for _ in range(ctx.scale(4, 12)):
            out += field_variants(field, {"trunc": rng.randrange(32)})
    # equivalent encodings of the honest reply, combined (accept side of the decision)
    for a in ACCEPTABLE[1:]:
        for b in ACCEPTABLE[1:]:
            if set(a) != set(b):
                out.append(dict(a, **b))
    # combinations of two independent alterations
    pool = STRUCTURAL + ACCEPTABLE[1:]
    for _ in range(ctx.scale(150, 600)):
        a, b = rng.choice(pool), rng.choice(pool)
        merged = dict(a)
        merged.update(b)
        out.append(merged)
    return out


PAIR_RELATIONS = ["same_id_new_key", "new_id_same_key", "same", "new"]
PAIR_FIRST = [{}, {"signer": "B"}]   # the earlier session is accepted / rejected
PAIR_SECOND = [{}, {"signer": "prev"}, {"signer": "prev", "ident": "prev"}, {"ident": "prev"}, {"replay_prev": True}]


def pair_entries(rng, crypto):
    """Two sessions in ONE process: the later one stores credentials related to the earlier one's
    (same identifier with a new key, same key with a new identifier, identical, unrelated) and is
    answered with the honest reply, a reply signed by the EARLIER session's key, the earlier
    accessory's whole identity, its identifier only, or the earlier session's bytes replayed.
    Every session is judged on its own by the reference verifier: nothing learnt in an earlier
    session may make a later forged reply acceptable."""
    out = []
    n = 0
    for t in TRANSPORTS:
        for rel in PAIR_RELATIONS:
            for v1 in PAIR_FIRST:
                for v2 in PAIR_SECOND:
                    n += 1
                    w1 = World(rng.fork("pair", n, 1), crypto)
                    w2 = w1.successor(rng.fork("pair", n, 2), rel)
                    hist = {"variant": v1, "world": w1, "relation": rel}
                    out.append((t, v1, w1, None))
                    out.append((t, v2, w2, hist))
    return out


class Sessions:
    """Runs todo entries (transport, variant, world, history) on one Bench = one process state."""

    def __init__(self, bench):
        self.bench = bench
        self.done = {}

    def attempt(self, t, v, world, hist):
        if hist is not None:
            prev = self.done.get(id(hist["world"]))
            if prev is None:  # replay of a recorded failure: run the earlier session first
                prev = self.bench.attempt(hist["world"], hist["variant"], t)
                self.done[id(hist["world"])] = prev
            if prev.sent_pd and prev.sent_pd[0] == "bytes":
                world.prev_pd = prev.sent_pd[1]
        case = self.bench.attempt(world, v, t)
        self.done[id(world)] = case
        return case


def describe(mode, t, v, world, hist):
    desc = {"mode": mode, "transport": t, "variant": v, "world": world.to_json()}
    if hist is not None:
        desc["history"] = [{"variant": hist["variant"], "world": hist["world"].to_json(), "relation": hist["relation"]}]
    return desc


def hist_tag(hist):
    return "" if hist is None else ":second-session(%s,first=%s)" % (hist["relation"], canon_variant(hist["variant"]))


BIT_SYSTEM_PAIRING, BIT_COREUTILS_PAIRING = 43, 48   # AirPlayFlags bits that mean "offers (transient) pairing"
ADVERTISED = [
    {"features": "0x0"},
    {"features": "0x00000000,0x00000800"},      # SupportsSystemPairing
    {"features": "0x00000000,0x00010000"},      # SupportsCoreUtilsPairingAndEncryption
    {"ft": "0x4A7FCA00,0x00010800"},            # both, `ft` key, other bits as a HomePod/Apple TV sends
    {"features": "0xFFFFFFFF,0xFFFFFFFF"},      # everything
    {"features": "0x445F8A00,0x000004C0"},      # AirPlay 2 bits without the pairing ones
]


def advertises_pairing(adv):
    raw = adv.get("features", adv.get("ft", "0x0"))
    parts = raw.split(",")
    value = int(parts[0], 16) | ((int(parts[1], 16) << 32) if len(parts) > 1 else 0)
    return bool(value >> BIT_SYSTEM_PAIRING & 1 or value >> BIT_COREUTILS_PAIRING & 1)


def selected_variants():
    """AirPlay connections whose credentials go through extract_credentials(): HAP credentials stored,
    every advertised feature set, the accessory honest or an impostor without the paired key."""
    out = []
    bases = [{}, {"signer": "B"}, {"signer": "B", "ident": "B"}, {"signer": "client"}, {"ident": "B"},
             {"sig_mut": {"flip": 200}}, {"enc_mut": {"flip": 300}}, {"outer": "no_enc"}, {"replay": True},
             {"signer": "B", "inner_add": [[3, "signer_ltpk", "last"]]}]
    for adv in ADVERTISED:
        for b in bases:
            out.append(dict(b, advertise=adv))
    return out


def core_of(v):
    return {k: x for k, x in v.items() if k != "advertise"}


def run_selection(ctx):
    """Correspondence for the credential-selection step: the real extract_credentials() over stored
    credentials {none, HAP, legacy, transient} x advertised feature sets vs the Lean `extractCredentials`."""
    from pyatv.auth.hap_pairing import AuthenticationType, parse_credentials
    from pyatv.conf import ManualService
    from pyatv.const import Protocol
    from pyatv.protocols.airplay import auth as airplay_auth

    w = World(ctx.rng.fork("selection"), RealCrypto())
    stored = {"none": None, "hap": w.credentials_string(), "legacy": "aabbccdd:" + "11" * 32,
              "transient": hx(b"transient") + ":::"}
    rows = []
    for name, cred in stored.items():
        for adv in ADVERTISED:
            service = ManualService("verif", Protocol.AirPlay, 7000, dict(adv), credentials=cred)
            try:
                got = airplay_auth.extract_credentials(service)
                kind = {AuthenticationType.Null: "null", AuthenticationType.Transient: "transient",
                        AuthenticationType.Legacy: "legacy", AuthenticationType.HAP: "hap"}[got.type]
                if kind == "hap" and got != parse_credentials(cred):
                    kind = "hap-but-not-the-stored-credentials"
            except Exception as ex:
                kind = "err:" + type(ex).__name__
            rows.append((name, adv, kind))
    answers = ctx.lean([f"select {name} {int(advertises_pairing(adv))}" for name, adv, _ in rows])
    for (name, adv, kind), ans in zip(rows, answers):
        ctx.case(["selection", name, json.dumps(adv, sort_keys=True)], name != "none")
        ctx.note(f"selection:{name}:{'adv' if advertises_pairing(adv) else 'noadv'}->{kind}")
        if kind != ans:
            ctx.disagree({"mode": "selection", "stored": name, "advertise": adv}, kind, ans,
                         where="extract_credentials: which credentials AirPlay verifies with")
        ctx.validated()


def canon_variant(v):
    return json.dumps(v, sort_keys=True)


# ----------------------------------------------------------------------------------------
# run
# ----------------------------------------------------------------------------------------
def lean_line(w, transport, case):
    kind, pd = case.sent_pd if case.sent_pd else ("absent", b"")
    pdw = pd_word(kind, pd)
    cr = w.crypto
    cx = getattr(case, "client_priv", None) or w.client_x
    m4 = build_m4(case.m4)
    m4w = "raise:" + case.m4 if m4 is None else "r:" + pd_word(*m4)
    if transport == "airplay-selected":
        transport = "airplay"   # stored HAP credentials: the model's selection is the identity (theorem)
    if transport in VERIFY_ONLY:
        return " ".join(["verify", "airplay", hx(w.a_ltpk), hx(w.client_ltsk), hx(w.a_id), hx(w.client_id),
                         hx(cx), hx(cr.x_pub(cx)), pdw, m4w])
    return " ".join(["connect", transport, hx(w.a_ltpk), hx(w.client_ltsk), hx(w.a_id), hx(w.client_id),
                     hx(cx), hx(cr.x_pub(cx)), pdw, m4w])


def impl_line(case):
    res = "ok" if case.obs.exc is None else "err:" + case.obs.exc
    keys = "none"
    if case.obs.enabled:
        keys = "/".join(hx(k) for k in case.obs.enabled[-1])
    return f"{res} keys={keys} trace={';'.join(case.log.events) or '-'}"


def check_consistency(ctx, case, transport, mode, v, hist=None):
    """Part of the direct oracle that needs no reference: keys <=> success, never both."""
    obs = case.obs
    desc = describe(mode, transport, v, case.w, hist)
    if obs.exc is not None and (obs.enabled or obs.keys_after):
        ctx.fail(f"{transport}:keys-installed-although-connect-failed", desc, obs.summary(),
                 "a failed connect leaves the connection without encryption keys",
                 "encryption keys were installed although the connect call raised")
    if obs.exc is None and not obs.enabled:
        ctx.fail(f"{transport}:connect-succeeded-without-keys", desc, obs.summary(),
                 "pair-verify success switches transport encryption on",
                 "connect returned but no keys were installed")
    if len(obs.enabled) > 1:
        ctx.fail(f"{transport}:keys-installed-twice", desc, obs.summary(), "one key installation", "several")


def run_symbolic(ctx, only=None):
    rng = ctx.rng.fork("sym")
    sym = SymCrypto()
    w = World(rng.fork("world"), sym)
    if only is not None:
        todo = only
    else:
        variants = ACCEPTABLE + STRUCTURAL + extra_variants() + sym_variants(ctx, rng)
        todo = []
        for t in TRANSPORTS:
            for v in variants + M4_VARIANTS[t] + [dict(a, **m) for a in ACCEPTABLE[1:3] for m in M4_VARIANTS[t]]:
                todo.append((t, v, w, None))
        for t in VERIFY_ONLY:
            for v in variants:
                todo.append((t, v, w, None))
        for v in selected_variants():
            todo.append(("airplay-selected", v, w, None))
        todo += pair_entries(rng.fork("pairs"), sym)
    cases = []
    with Bench("sym") as bench:
        sessions = Sessions(bench)
        for t, v, world, hist in todo:
            cases.append((t, v, sessions.attempt(t, v, world, hist), hist))
    answers = ctx.lean([lean_line(c.w, t, c) for t, v, c, h in cases])
    for (t, v, case, hist), ans in zip(cases, answers):
        impl = impl_line(case)
        reached = any(e.startswith("pubload") for e in case.log.events)
        ctx.case(["sym", t, canon_variant(v), hist_tag(hist)], reached,
                 sample={"mode": "sym", "transport": t, "variant": v, "impl": impl[:160]})
        ctx.note(f"sym:{t}:" + ("accept" if case.obs.exc is None else case.obs.exc))
        ctx.note("sym-checks-reached:%d" % len(case.log.events))
        if hist is not None:
            ctx.note("sym-second-session:" + hist["relation"])
        if impl != ans:
            ctx.disagree(describe("sym", t, v, case.w, hist), impl, ans,
                         where="pair-verify decision, exception class, installed keys and sequence of checks")
        ctx.validated()
        if t not in VERIFY_ONLY:
            check_consistency(ctx, case, t, "sym", v, hist)


def run_real(ctx, only=None):
    rng = ctx.rng.fork("real")
    real = RealCrypto()
    w = World(rng.fork("world"), real)
    if only is not None:
        todo = only
    else:
        forged = STRUCTURAL + REAL_ONLY + extra_variants() + real_variants(ctx, rng.fork("variants"))
        todo = []
        for t in TRANSPORTS:
            for v in ACCEPTABLE + forged + M4_VARIANTS[t]:
                todo.append((t, v, w, None))
        sample = []
        srng = rng.fork("verify-only")
        for field, bits in FIELD_BITS.items():
            for i in sorted(srng.sample(range(bits), ctx.scale(6, 40))):
                sample += field_variants(field, {"flip": i})
            for n in sorted(srng.sample(range(bits // 8), ctx.scale(4, 16))):
                sample += field_variants(field, {"trunc": n})
        for t in VERIFY_ONLY:
            for v in ACCEPTABLE + STRUCTURAL + REAL_ONLY + extra_variants()[::3] + sample:
                todo.append((t, v, w, None))
        for v in selected_variants():
            todo.append(("airplay-selected", v, w, None))
        todo += pair_entries(rng.fork("pairs"), real)
    with Bench("real") as bench:
        sessions = Sessions(bench)
        for t, v, world, hist in todo:
            case = sessions.attempt(t, v, world, hist)
            obs = case.obs
            kind, pd = case.sent_pd if case.sent_pd else ("absent", b"")
            ref = reference_accepts(world, kind, pd, getattr(case, "client_priv", None))
            if v.get("replay_prev") and getattr(world, "prev_pd", None) is not None:
                ref = False  # the very bytes of an earlier session: never an honest reply (fresh ephemerals)
            obs.reference = ref
            desc = describe("real", t, v, world, hist)
            what = "+".join(sorted(k + ("." + next(iter(x)) if isinstance(x, dict) else "=" + str(x)) for k, x in v.items())) or "genuine"
            if hist is not None:
                what += ":second-session(%s)" % hist["relation"]
                ctx.note("real-second-session:%s:%s" % (hist["relation"], "accept" if obs.exc is None else "reject"))
            if obs.other_traffic:
                ctx.note("client-traffic-besides-pair-verify")
            ctx.note(f"real:{t}:" + ("accept" if obs.exc is None else obs.exc))
            ctx.note("real-variant:" + what)
            if t in ("airplay", "airplay-selected") and obs.exc is not None:
                ctx.note("airplay-exc:" + "<-".join(obs.exc_chain))
            ctx.case(["real", t, canon_variant(v), hist_tag(hist)], not ref,
                     sample={"mode": "real", "transport": t, "variant": v, "observed": obs.summary()} if not ref else None)
            if t in VERIFY_ONLY:
                # a caller that treats verify_credentials() returning as the verdict and derives no keys
                proceeded = [x for x in obs.other_traffic if x.startswith("TRUSTED:")]
                if not ref and (obs.exc is None or proceeded):
                    ctx.fail(f"{t}:forged-reply-accepted:{what}", desc, obs.summary(),
                             "the call raises and the receiver gets no further request",
                             "pair-verify succeeded for a reply that does not prove the paired identity (no keys are derived on this path)")
                elif ref and not v and (obs.exc is not None or not proceeded):
                    ctx.disagree(desc, obs.summary(), "the honest reply is accepted and the caller goes on",
                                 where="non-vacuity: honest reply rejected on a verify-only call site")
                elif not ref:
                    ctx.note("verify-only-exc:" + "<-".join(obs.exc_chain))
                continue
            check_consistency(ctx, case, t, "real", v, hist)
            m4_fails = case.m4 != "ok"
            if m4_fails:
                ctx.note(f"real-m4:{t}:{case.m4}:" + ("accept" if obs.exc is None else obs.exc))
            if not ref:
                # THE PROPERTY: any other reply makes connecting fail with an authentication error
                # and leaves the connection without encryption keys
                if obs.exc is None:
                    ctx.fail(f"{t}:forged-reply-accepted:{what}", desc, obs.summary(),
                             "connect raises AuthenticationError, no keys installed",
                             "a reply that does not prove the paired identity was accepted")
                elif obs.enabled or obs.keys_after:
                    pass  # reported by check_consistency
                elif t not in ("airplay", "airplay-selected") and obs.exc != "AuthenticationError":
                    ctx.fail(f"{t}:rejected-with-{obs.exc}:{what}", desc, obs.summary(),
                             "connect raises pyatv.exceptions.AuthenticationError",
                             f"forged reply rejected with {obs.exc} instead of an authentication error")
            elif not core_of(v):
                # non-vacuity: the unmodified reply must be accepted, with working keys
                if obs.exc is not None or not obs.enabled:
                    ctx.disagree(desc, obs.summary(), "the honest accessory's unmodified reply is accepted",
                                 where="non-vacuity of the campaign: honest reply rejected")
                elif obs.acc_decrypt is not True:
                    ctx.disagree(desc, obs.summary(), "accessory can decrypt the client's traffic with its own keys",
                                 where="non-vacuity: installed keys do not match the accessory's")
                else:
                    ctx.note("real:honest-accepted-with-working-keys")
            elif not m4_fails and obs.exc is None:
                ctx.note("real:equivalent-encoding-accepted")


USER_FLIPS = {"pub": 256, "enc": 960, "ident": 288, "sig": 512}


def run_user(ctx, only=None):
    """The direct oracle through the user's own entry point: real pyatv.connect() on multi-service
    configurations, every protocol with a fake transport; one protocol's accessory presents a forged
    pair-verify reply, the others are honest.

    DECISION (from the property text and the pinned code): "any other reply ... makes connecting fail
    with an authentication error and leaves the connection without encryption keys".  In the pinned
    tree facade.connect()/pyatv.connect() propagate whatever a protocol's connect raises, so when ONE
    protocol's accessory fails verification the user's connect() fails: with AuthenticationError for
    MRP and Companion; for the AirPlay remote-control channel with the ProtocolError _connect_rc wraps
    every failure in (class recorded, see the module docstring).  Required: pyatv.connect() raises
    (AuthenticationError for MRP/Companion) and no keys are installed on the forged protocol's
    connection.  With every accessory honest, connect() must return with keys on every protocol that
    stores credentials (non-vacuity; the AirPlay tunnel's honest path would need a whole AirPlay 2
    receiver and is exercised at protocol level only)."""
    rng = ctx.rng.fork("user")
    real = RealCrypto()
    w = World(rng.fork("world"), real)
    if only is not None:
        todo = only
    else:
        todo = [(config, None, {}, w) for config in USER_HONEST]
        variants = list(STRUCTURAL) + REAL_ONLY + [x for x in extra_variants() if x.get("signer") == "B" and "ident" not in x][::2]
        for field, bits in USER_FLIPS.items():
            for i in sorted(rng.sample(range(bits), ctx.scale(3, 12))):
                variants += field_variants(field, {"flip": i})
            for n in sorted(rng.sample(range(bits // 8), ctx.scale(2, 8))):
                variants += field_variants(field, {"trunc": n})
        for config, forged in USER_SLOTS:
            # where the pinned code opens no AirPlay control connection the reply variant cannot matter
            for v in (variants[:6] if config in USER_VERIFY_OPTIONAL else variants):
                todo.append((config, forged, v, w))
    with Bench("real") as bench:
        for config, forged, v, world in todo:
            u = bench.attempt_user(world, config, forged, v)
            desc = {"mode": "user", "config": config, "forged": forged, "variant": v, "world": world.to_json()}
            ctx.note(f"user:{config}:forged={forged}:" + ("connected" if u.exc is None else u.exc))
            if forged is None:
                ctx.case(["user", config, "honest"], False)
                ok = u.exc is None and all(c.obs.enabled and c.obs.acc_decrypt is True
                                           for c in u.cases.values() if c.has_credentials and c.transport != "airplay")
                if not ok:
                    ctx.disagree(desc, u.summary(), "pyatv.connect() returns, keys installed and usable on every protocol with credentials",
                                 where="non-vacuity of the user-level campaign: honest accessories rejected")
                else:
                    ctx.note("user:honest-connected-with-working-keys")
                continue
            fc = u.cases[forged]
            kind, pd = fc.sent_pd if fc.sent_pd else ("absent", b"")
            ref = reference_accepts(world, kind, pd, getattr(fc, "client_priv", None)) if fc.sent_pd else None
            if ref and v.get("replay_prev") and getattr(world, "prev_pd", None) is not None:
                ref = False
            what = "+".join(sorted(k + ("." + next(iter(x)) if isinstance(x, dict) else "=" + str(x)) for k, x in v.items())) or "genuine"
            ctx.case(["user", config, forged, canon_variant(v)], ref is False,
                     sample={"mode": "user", "config": config, "forged": forged, "variant": v, "observed": u.summary()})
            if fc.sent_pd is None:
                if fc.obs.enabled or u.keys_snapshot.get(forged):
                    ctx.fail(f"user-connect:{config}:{forged}:keys-installed-without-pair-verify", desc, u.summary(),
                             "credentials are stored: keys only after the accessory proved the paired identity",
                             "encryption was switched on for an accessory that was never asked to prove the paired identity")
                elif config not in USER_VERIFY_OPTIONAL:
                    ctx.disagree(desc, u.summary(), "the forged protocol's pair-verify is reached",
                                 where="user-level campaign: pair-verify of the forged protocol never started")
                else:
                    ctx.note("user:no-airplay-control-connection-at-connect")
                continue
            if ref:
                continue  # not a forged reply after all (never generated on purpose)
            keys = fc.obs.enabled or u.keys_snapshot.get(forged)
            if u.exc is None:
                ctx.fail(f"user-connect:{config}:{forged}:connect-succeeded-after-forged-reply:{what}", desc, u.summary(),
                         "pyatv.connect() raises (AuthenticationError for MRP/Companion)",
                         "pyatv.connect() returned a connected device although one protocol's accessory failed pair-verify")
            elif keys:
                ctx.fail(f"user-connect:{config}:{forged}:keys-installed-after-forged-reply", desc, u.summary(),
                         "no encryption keys on the connection whose accessory failed pair-verify",
                         "keys were installed on the forged protocol's connection")
            elif forged != "airplay" and u.exc != "AuthenticationError":
                ctx.fail(f"user-connect:{config}:{forged}:rejected-with-{u.exc}:{what}", desc, u.summary(),
                         "pyatv.connect() raises pyatv.exceptions.AuthenticationError",
                         f"pyatv.connect() failed with {u.exc} instead of an authentication error")
            if forged == "airplay" and u.exc is not None:
                ctx.note("user-airplay-exc:" + "<-".join(u.exc_chain))


RECONNECT_KINDS = ["companion-api", "ap2session", "pyatv.connect:mrp", "pyatv.connect:companion"]
RECONNECT_SECOND = [{"replay_prev": True}, {}, {"signer": "B"}, {"sigmsg": "stale_own"}, {"sig_mut": {"flip": 77}},
                    {"ident": "B"}, {"enc_mut": {"flip": 9}}]


def run_reconnect(ctx, only=None):
    """Second use of the same user-level object: connect (honest accessory), disconnect, connect again on
    ONE CompanionAPI / ONE AP2Session / the same configuration through pyatv.connect(), the second
    session answered with the first session's bytes replayed, the honest reply, or a forged one.  The
    client must use fresh session keys, so the replay ("replay of a reply from another session") and
    every forged reply must make the second connect fail, with no keys; the honest one must connect."""
    rng = ctx.rng.fork("reconnect")
    real = RealCrypto()
    if only is not None:
        todo = only
    else:
        todo = []
        n = 0
        for kind in RECONNECT_KINDS:
            for v2 in RECONNECT_SECOND:
                n += 1
                todo.append((kind, v2, World(rng.fork("world", n), real)))
    with Bench("real") as bench:
        for kind, v2, world in todo:
            world.prev_pd = None
            desc = {"mode": "reconnect", "kind": kind, "variant": v2, "world": world.to_json()}
            u1, u2 = bench.attempt_reconnect(world, kind, v2)
            forged = u2.forged
            fc = u2.cases[forged]
            what = "+".join(sorted(k + ("." + next(iter(x)) if isinstance(x, dict) else "=" + str(x)) for k, x in v2.items())) or "genuine"
            ctx.note(f"reconnect:{kind}:{what}:" + ("connected" if u2.exc is None else u2.exc))
            observed = {"first": u1.summary(), "second": u2.summary()}
            first_ok = u1.exc is None and u1.cases[forged].obs.enabled
            if not first_ok or fc.sent_pd is None:
                ctx.case(["reconnect", kind, canon_variant(v2)], False)
                ctx.disagree(desc, observed, "first session (honest accessory) connects and the second reaches pair-verify",
                             where="reconnect campaign: scenario did not get to the second pair-verify")
                continue
            kind_pd, pd = fc.sent_pd
            ref = reference_accepts(world, kind_pd, pd, getattr(fc, "client_priv", None))
            if v2.get("replay_prev"):
                ref = False
            ctx.case(["reconnect", kind, canon_variant(v2)], not ref,
                     sample={"mode": "reconnect", "kind": kind, "variant": v2, "observed": u2.summary()})
            keys = fc.obs.enabled or u2.keys_snapshot.get(forged)
            if not ref:
                if u2.exc is None:
                    ctx.fail(f"reconnect:{kind}:second-connect-succeeded-after-forged-reply:{what}", desc, observed,
                             "the second connect raises, no keys installed",
                             "a replayed/forged reply was accepted on the second connection of the same object")
                elif keys:
                    ctx.fail(f"reconnect:{kind}:keys-installed-after-forged-reply:{what}", desc, observed,
                             "no encryption keys after a rejected reply",
                             "keys were installed on the second connection although the reply was replayed/forged")
                elif forged != "airplay" and u2.exc != "AuthenticationError":
                    ctx.fail(f"reconnect:{kind}:rejected-with-{u2.exc}:{what}", desc, observed,
                             "AuthenticationError", f"second connect failed with {u2.exc} instead of an authentication error")
            elif not v2 and (u2.exc is not None or not fc.obs.enabled):
                ctx.disagree(desc, observed, "the honest accessory is accepted again on the second connection",
                             where="non-vacuity of the reconnect campaign: honest second session rejected")


def run(ctx):
    run_selection(ctx)
    run_symbolic(ctx)
    run_real(ctx)
    run_user(ctx)
    run_reconnect(ctx)


def widen(ctx):
    run(ctx)


def replay(ctx, failure):
    case = failure["case"]
    mode = case["mode"]
    c2 = type(ctx)(ctx.prop, ctx.tier, ctx.seed, ctx.driver.driver_rel)
    if mode == "reconnect":
        run_reconnect(c2, only=[(case["kind"], case["variant"], World.from_json(case["world"], RealCrypto()))])
        return bool(c2.failures)
    if mode == "user":
        run_user(c2, only=[(case["config"], case["forged"], case["variant"], World.from_json(case["world"], RealCrypto()))])
        return bool(c2.failures)
    crypto = RealCrypto() if mode == "real" else SymCrypto()
    w = World.from_json(case["world"], crypto)
    hist = None
    if case.get("history"):
        h = case["history"][0]
        hist = {"variant": h["variant"], "world": World.from_json(h["world"], crypto), "relation": h.get("relation", "?")}
    todo = [(case["transport"], case["variant"], w, hist)]
    if mode == "real":
        run_real(c2, only=todo)
    else:
        run_symbolic(c2, only=todo)
    return bool(c2.failures)
