"""C04 / protobuf varints — correspondence + direct oracle.

Real code driven: pyatv.support.variant.write_variant / read_variant.
Model lines (Driver/C04Varint.lean):  `w <n>` -> hex;  `r <hex>` -> `ok <n> <rest>` | `err:ValueError`.

Case kinds
  enc      a natural number n (boundary-biased) + trailing bytes r: encoder bytes, decoder on
           encoder output ++ r, round trip, 7-bit-group shape, minimality, reference encoder
  variant  a format-legal encoding the encoder never emits (zero padding groups) ++ r
  bad      a stream without a terminating byte (incomplete) -> error class
The reference encoder/decoder below is written from the protobuf encoding document that
docs/documentation/protocols.md links to (base-128, least significant group first, msb =
continuation), not from variant.py.
"""

PROPS_FILES = ["PyatvModel/Props/C04Varint.lean"]
LEAN_TARGETS = ["PyatvModel.Props.C04Varint", "PyatvModel.C04.Varint.Driver"]
DRIVER = "Driver/C04Varint.lean"
RULE = ("numbers around every 7-bit group boundary 128^k-1/128^k/128^k+1 (k<=10 quick, <=40 thorough), "
        "0/1/127/128/16383/16384, 2^32 and 2^64 neighbours, random bit lengths; each with random trailing "
        "bytes; non-minimal (zero-padded) encodings; unterminated streams. non-trivial = more than one "
        "group, a non-minimal variant, or an error case; distinct = (kind, number/bytes, trailing)")
ASSUMPTIONS = ["varint: numbers are non-negative Python ints (write_variant(-1) raises ValueError from bytes())"]
TRUSTED = ["harness/c04_varint.py reference varint encoder/decoder (written from the protobuf encoding description)"]


def _hex(b):
    return b.hex() if b else "-"


def ref_enc(n):
    out = bytearray()
    while True:
        group = n % 128
        n //= 128
        if n:
            out.append(group + 128)
        else:
            out.append(group)
            return bytes(out)


def ref_dec(data):
    """-> (value, rest) or None when no terminating byte exists."""
    value = 0
    for i, b in enumerate(data):
        value += (b % 128) * 128 ** i
        if b < 128:
            return value, data[i + 1:]
    return None


def _obs(fn, *a):
    try:
        return ("ok", fn(*a))
    except Exception as e:  # observation, never a crash
        return ("err", type(e).__name__)


def gen_cases(ctx):
    rng = ctx.rng.fork("varint")
    kmax = ctx.scale(10, 40)
    nums = [0, 1, 2, 126, 127, 128, 129, 255, 256, 300, 16383, 16384, 16385,
            2 ** 31 - 1, 2 ** 31, 2 ** 32 - 1, 2 ** 32, 2 ** 63 - 1, 2 ** 63, 2 ** 64 - 1, 2 ** 64]
    for k in range(1, kmax + 1):
        nums += [128 ** k - 1, 128 ** k, 128 ** k + 1]
    for _ in range(ctx.scale(1500, 12000)):
        bits = rng.choice([rng.randint(1, 35), rng.randint(1, 70), rng.randint(1, ctx.scale(100, 300))])
        nums.append(rng.getrandbits(bits))
    cases = []
    for n in nums:
        r = rng.bytes_(rng.choice([0, 0, 1, 2, 5]))
        cases.append({"kind": "enc", "n": n, "rest": r.hex()})
    # non-minimal but legal: groups of n, then zero padding groups
    for _ in range(ctx.scale(250, 6000)):
        n = rng.choice(nums[: 21 + 3 * kmax]) if rng.chance(0.5) else rng.getrandbits(rng.randint(0, 40))
        pad = rng.randint(1, 4)
        body = bytearray(ref_enc(n))
        body[-1] |= 0x80
        body += bytes([0x80] * (pad - 1)) + b"\x00"
        r = rng.bytes_(rng.choice([0, 1, 3]))
        cases.append({"kind": "variant", "data": (bytes(body) + r).hex()})
    # unterminated
    cases.append({"kind": "bad", "data": ""})
    for _ in range(ctx.scale(60, 1500)):
        ln = rng.randint(1, 12)
        cases.append({"kind": "bad", "data": bytes(rng.randint(128, 255) for _ in range(ln)).hex()})
    return cases


def oracle(case):
    """The property on the real code, independent of the Lean model.
    -> list of (sig, observed, required, what)."""
    from pyatv.support import variant

    out = []
    if case["kind"] == "enc":
        n, r = case["n"], bytes.fromhex(case["rest"])
        enc = _obs(variant.write_variant, n)
        if enc[0] != "ok" or type(enc[1]) is not bytes:
            return [("varint:encode-raises", repr(enc), "bytes", f"write_variant({n}) did not return bytes")]
        data = enc[1]
        dec = _obs(variant.read_variant, data + r)
        want = (n, r)
        if not (dec[0] == "ok" and isinstance(dec[1], tuple) and len(dec[1]) == 2 and type(dec[1][0]) is int
                and dec[1][0] == n and bytes(dec[1][1]) == r):
            out.append(("varint:roundtrip", repr(dec), repr(want), f"read_variant(write_variant({n}) + rest) != ({n}, rest)"))
        if not (all(b >= 128 for b in data[:-1]) and data[-1] < 128):
            out.append(("varint:groups", data.hex(), "continuation bit on all but the last byte", "7-bit group shape broken"))
        if len(data) > 1 and data[-1] == 0:
            out.append(("varint:minimal", data.hex(), ref_enc(n).hex(), "zero padding group emitted"))
        if data != ref_enc(n):
            out.append(("varint:ref-encode", data.hex(), ref_enc(n).hex(), f"write_variant({n}) differs from the reference encoding"))
    elif case["kind"] == "variant":
        data = bytes.fromhex(case["data"])
        want = ref_dec(data)
        dec = _obs(variant.read_variant, data)
        if not (dec[0] == "ok" and want is not None and type(dec[1][0]) is int and dec[1][0] == want[0] and bytes(dec[1][1]) == want[1]):
            out.append(("varint:ref-decode", repr(dec), repr(want), "read_variant differs from the reference decoder on a legal non-minimal varint"))
    return out


def run(ctx, only=None):
    from pyatv.support import variant

    cases = only if only is not None else gen_cases(ctx)
    lines, plan = [], []
    for c in cases:
        if c["kind"] == "enc":
            enc = _obs(variant.write_variant, c["n"])
            data = enc[1] if enc[0] == "ok" and isinstance(enc[1], (bytes, bytearray)) else None
            stream = (bytes(data) if data is not None else ref_enc(c["n"])) + bytes.fromhex(c["rest"])
            lines.append(f"w {c['n']}")
            lines.append(f"r {_hex(stream)}")
            plan.append((c, enc, stream))
        else:
            stream = bytes.fromhex(c["data"])
            lines.append(f"r {_hex(stream)}")
            plan.append((c, None, stream))
    answers = iter(ctx.lean(lines, driver=DRIVER))
    for c, enc, stream in plan:
        kind = c["kind"]
        ctx.note("varint:kind:" + kind)
        if kind == "enc":
            m_enc = next(answers)
            impl = _hex(enc[1]) if enc[0] == "ok" and isinstance(enc[1], (bytes, bytearray)) else "err:" + str(enc[1])
            if impl != m_enc:
                ctx.disagree(c, impl, m_enc, where="varint write_variant")
            ctx.validated()
            ctx.note("varint:groups:%d" % min(len(ref_enc(c["n"])), 12))
        m_dec = next(answers)
        dec = _obs(variant.read_variant, stream)
        if dec[0] == "ok":
            try:
                impl = f"ok {int(dec[1][0])} {_hex(bytes(dec[1][1]))}"
            except Exception as e:
                impl = "err:shape:" + type(e).__name__
        else:
            impl = "err:" + dec[1]
        if impl != m_dec:
            ctx.disagree(c, impl, m_dec, where="varint read_variant")
        ctx.validated()
        nontrivial = kind != "enc" or c["n"] >= 128
        canon = [kind, c.get("n"), c.get("rest"), c.get("data")]
        ctx.case(canon, nontrivial, sample=dict(c, n=str(c["n"])) if kind == "enc" else c)
        for sig, observed, required, what in oracle(c):
            ctx.fail(sig, c, observed, required, what)


def replay(ctx, failure):
    return bool(oracle(failure["case"]))
