"""C04 / data-stream messages (the whole-message codec above the fixed data-stream header) —
correspondence + direct oracle.

Real code driven: pyatv.protocols.airplay.channels.BaseDataStreamChannel.encode_message /
encode_reply / decode_message / encode_payload / decode_payload / encode_protobufs /
decode_protobufs and DataStreamChannel.handle_received / send_protobuf (a real channel object;
only `send` is replaced by a recorder and `decode_payload` is wrapped to record what it is given).
Model lines (Driver/C04Datastream.lean): `enc mt cmd seqno pad payload` | `reply seqno` | `dec hex` |
`recv hex`.

Case kinds
  msg      one DataStreamMessage (payload lengths 0,1,2,31,32,33,255,256,… incl. EMPTY; seqno at
           0/2^32/2^64-1; sync/rply types) + arbitrary following bytes: encoder bytes,
           decode_message(bytes + rest), typed round trip (message, consumed bytes, rest)
  reply    encode_reply(seqno): bytes, decodes back to the payload-less `rply` message; layout of the
           protocols.md example
  stream   0..6 messages in one buffer (payload-less replies and syncs mixed with payload-carrying
           ones) + an incomplete tail (nothing / partial header / header announcing more than is
           there): handle_received must take every message in order, answer every `sync` with a
           `rply` of the same seqno, and leave exactly the tail in the buffer
  protobufs encode_protobufs(list of 0..5 real MRP messages) -> decode_protobufs gives the same list
  pipe     send_protobuf(message) on one channel, the bytes fed to another channel's
           handle_received: the listener must get an equal protobuf message, the sender a reply
  bad      size field below 32, short buffers, oversized size field (error class / need)
The reference is docs/documentation/protocols.md, data channel "Message format": size (4 bytes,
includes the 32 header bytes), type (12), command (4), sequence number (8), padding (4), payload
(size - 32 bytes, may be absent: "Here is one without payload").
"""

PROPS_FILES = ["PyatvModel/Props/C04Datastream.lean"]
LEAN_TARGETS = ["PyatvModel.Props.C04Datastream", "PyatvModel.C04.Datastream.Driver"]
DRIVER = "Driver/C04Datastream.lean"
RULE = ("data-stream messages with payload lengths from {0,0,1,2,31,32,33,255,256,random<=600}, types sync/rply, "
        "commands comm/cmnd/zero/random, seqno at 0, 2^32-1, 2^32, 2^64-1 or random, followed by random bytes; "
        "replies; buffers of 0..6 messages plus an incomplete tail through handle_received; send_protobuf piped into a "
        "second channel; size fields below 32 and short buffers. non-trivial = an empty payload, several messages in "
        "one buffer, a non-empty tail, or an error case; distinct = (kind, fields / bytes)")
ASSUMPTIONS = ["datastream: plistlib and protobuf (payload contents) are trusted; the model covers framing only",
               "datastream: the HAP encryption layer of the channel is bypassed (send replaced by a recorder, buffer set directly)"]
TRUSTED = ["harness/c04_datastream.py reference framing (written from protocols.md data channel 'Message format')"]

SYNC = b"sync" + 8 * b"\0"
RPLY = b"rply" + 8 * b"\0"
PAYLOAD_LENGTHS = [0, 0, 0, 1, 2, 31, 32, 33, 255, 256]


def _hex(b):
    return bytes(b).hex() if b else "-"


def _obs(fn, *a):
    try:
        return ("ok", fn(*a))
    except Exception as e:
        return ("err", type(e).__name__)


def ref_enc(m):
    """protocols.md layout; m = dict(mt, cmd, seqno, pad, payload as bytes)"""
    return ((32 + len(m["payload"])).to_bytes(4, "big") + m["mt"] + m["cmd"] + m["seqno"].to_bytes(8, "big")
            + m["pad"].to_bytes(4, "big") + m["payload"])


def _msg(rng, kind=None, payload=None):
    mt = kind or rng.choice([SYNC, SYNC, RPLY, rng.bytes_(12)])
    cmd = rng.choice([b"comm", b"cmnd", 4 * b"\0", rng.bytes_(4)]) if mt != RPLY else rng.choice([4 * b"\0", b"comm"])
    seqno = rng.choice([0, 1, 2 ** 32 - 1, 2 ** 32, 2 ** 64 - 1, rng.getrandbits(64), rng.randrange(0x100000000, 0x1FFFFFFFF)])
    pad = rng.choice([0, 0, 0, 1, 2 ** 32 - 1, rng.getrandbits(32)])
    if payload is None:
        ln = rng.choice(PAYLOAD_LENGTHS + [rng.randint(0, 600)])
        payload = rng.bytes_(ln)
        if payload[:1] in (b"b", b"<", b"\xef", b"\xfe", b"\xff"):   # keep random payloads away from plistlib's sniffing
            payload = b"\x00" + payload[1:]
    return {"mt": mt.hex(), "cmd": cmd.hex(), "seqno": seqno, "pad": pad, "payload": payload.hex()}


def _b(m):
    return {"mt": bytes.fromhex(m["mt"]), "cmd": bytes.fromhex(m["cmd"]), "seqno": m["seqno"], "pad": m["pad"],
            "payload": bytes.fromhex(m["payload"])}


def _real_msg(m):
    from pyatv.protocols.airplay.channels import DataStreamMessage

    b = _b(m)
    return DataStreamMessage(b["mt"], b["cmd"], b["seqno"], b["pad"], b["payload"])


def _tail(rng):
    mode = rng.randint(0, 3)
    if mode == 0:
        return b""
    if mode == 1:
        return rng.bytes_(rng.randint(1, 31))
    m = _b(_msg(rng, payload=rng.bytes_(rng.randint(1, 80))))
    full = ref_enc(m)
    return full[: rng.randint(32, len(full) - 1)]


def gen_cases(ctx):
    rng = ctx.rng.fork("datastream")
    cases = [{"kind": "msg", "m": {"mt": SYNC.hex(), "cmd": b"cmnd".hex(), "seqno": 0xCF4934469B4941AE, "pad": 0, "payload": ""},
              "rest": "", "doc": "0000002073796e630000000000000000636d6e64cf4934469b4941ae00000000"},
             {"kind": "msg", "m": {"mt": RPLY.hex(), "cmd": "00000000", "seqno": 0xCF4934469B4941AE, "pad": 0, "payload": ""},
              "rest": "", "doc": "0000002072706c79000000000000000000000000cf4934469b4941ae00000000"},
             {"kind": "reply", "seqno": 0xCF4934469B4941AE}]
    for _ in range(ctx.scale(250, 5000)):
        rest = rng.choice([b"", b"", rng.bytes_(rng.randint(1, 40)), _tail(rng)])
        cases.append({"kind": "msg", "m": _msg(rng), "rest": rest.hex()})
    for _ in range(ctx.scale(40, 600)):
        cases.append({"kind": "reply", "seqno": rng.choice([0, 1, 2 ** 32, 2 ** 64 - 1, rng.getrandbits(64)])})
    for _ in range(ctx.scale(200, 4000)):
        n = rng.choice([0, 1, 1, 2, 2, 3, 4, 6])
        msgs = []
        for _ in range(n):
            r = rng.random()
            if r < 0.35:
                msgs.append(_msg(rng, kind=RPLY, payload=b""))          # what a device answers to each sync
            elif r < 0.55:
                msgs.append(_msg(rng, kind=SYNC, payload=b""))
            else:
                msgs.append(_msg(rng, kind=rng.choice([SYNC, RPLY])))
        cases.append({"kind": "stream", "msgs": msgs, "tail": _tail(rng).hex()})
    for _ in range(ctx.scale(60, 1000)):
        size = rng.choice([0, 1, 31, 16, rng.randint(0, 31)])
        body = bytearray(ref_enc(_b(_msg(rng))))
        body[0:4] = size.to_bytes(4, "big")
        extra = rng.choice([b"", ref_enc(_b(_msg(rng, payload=b"")))])
        cases.append({"kind": "bad", "data": (bytes(body) + extra).hex()})
    for _ in range(ctx.scale(40, 600)):
        cases.append({"kind": "bad", "data": rng.bytes_(rng.randint(0, 31)).hex()})
    for i in range(ctx.scale(8, 40)):
        cases.append({"kind": "pipe", "which": i})
    for _ in range(ctx.scale(20, 300)):
        cases.append({"kind": "protobufs", "which": [rng.randrange(64) for _ in range(rng.choice([0, 1, 2, 3, 5]))]})
    return cases


# ---- the real channel ----------------------------------------------------------------------
class _Listener:
    def __init__(self):
        self.protobufs = []

    def handle_protobuf(self, message):
        self.protobufs.append(message)

    def handle_connection_lost(self, exc):
        pass


def _channel():
    from pyatv.protocols.airplay.channels import DataStreamChannel

    ch = DataStreamChannel(32 * b"\x01", 32 * b"\x02")
    ch.sent, ch.payloads = [], []
    ch.send = ch.sent.append
    real_decode = ch.decode_payload

    def decode_payload(payload):
        ch.payloads.append(bytes(payload))
        return real_decode(payload)

    ch.decode_payload = decode_payload
    lst = _Listener()
    ch.listener = lst
    ch._verif_listener = lst
    return ch


def _feed(data):
    """-> (payloads seen, reply seqnos sent / complaint, buffer left, raised class or None)"""
    from pyatv.protocols.airplay.channels import BaseDataStreamChannel

    ch = _channel()
    ch.buffer = data
    raised = None
    try:
        ch.handle_received()
    except Exception as e:
        raised = type(e).__name__
    replies = []
    for r in ch.sent:
        d = _obs(BaseDataStreamChannel.decode_message, r)
        if d[0] == "ok" and d[1][0] is not None and d[1][2] == b"" and bytes(d[1][0].message_type) == RPLY and d[1][0].payload == b"":
            replies.append(d[1][0].seqno)
        else:
            replies.append("undecodable-reply:" + repr(d)[:80])
    # the decode_payload seam: if the buffer was consumed without the wrapper ever being called, the
    # code no longer goes through it (inlined) and the payloads are simply not observable here
    payloads = None if (not ch.payloads and bytes(ch.buffer) != bytes(data)) else ch.payloads
    return payloads, replies, bytes(ch.buffer), raised, ch


def _pipe_messages():
    from pyatv.protocols.mrp import messages, protobuf

    out = [messages.create(protobuf.ProtocolMessage.Type.Value("GENERIC_MESSAGE")), messages.wake_device(),
           messages.set_connection_state(), messages.get_keyboard_session(),
           messages.client_updates_config(), messages.playback_queue_request(0),
           messages.crypto_pairing({1: b"\x01", 3: 300 * b"\xab"}), messages.command(1)]
    return out


def _show_msg(m):
    return ":".join([_hex(m["mt"]), _hex(m["cmd"]), str(m["seqno"]), str(m["pad"]), _hex(m["payload"])])


def oracle(case):
    """The property on the real code, independent of the Lean model."""
    import logging

    from pyatv.protocols.airplay import channels

    logging.getLogger("pyatv.protocols.airplay.channels").setLevel(logging.CRITICAL)
    B = channels.BaseDataStreamChannel
    out = []
    kind = case["kind"]
    if kind == "msg":
        m = _real_msg(case["m"])
        rest = bytes.fromhex(case["rest"])
        cls = "empty-payload" if not m.payload else "payload"
        enc = _obs(B.encode_message, m)
        if enc[0] != "ok" or type(enc[1]) is not bytes:
            return [(f"datastream:encode-raises:{cls}", repr(enc), "bytes", "encode_message rejected a message of its domain")]
        if enc[1] != ref_enc(_b(case["m"])):
            out.append((f"datastream:ref-encode:{cls}", enc[1].hex()[:200], ref_enc(_b(case["m"])).hex()[:200],
                        "bytes differ from the documented message format"))
        if case.get("doc") and enc[1].hex() != case["doc"]:
            out.append(("datastream:doc-vector", enc[1].hex(), case["doc"], "bytes differ from the worked example in protocols.md"))
        dec = _obs(B.decode_message, enc[1] + rest)
        ok = (dec[0] == "ok" and isinstance(dec[1], tuple) and len(dec[1]) == 3 and dec[1][0] is not None
              and type(dec[1][0]).__name__ == "DataStreamMessage"
              and [type(x) for x in dec[1][0]] == [bytes, bytes, int, int, bytes]
              and tuple(dec[1][0]) == tuple(m) and bytes(dec[1][1]) == enc[1] and bytes(dec[1][2]) == rest)
        if not ok:
            out.append((f"datastream:roundtrip:{cls}", repr(dec)[:300], repr((tuple(m), "<encoded>", rest))[:300],
                        "decode_message(encode_message(m) + rest) != (m, encoded, rest)"))
    elif kind == "reply":
        ch = _channel()
        enc = _obs(ch.encode_reply, case["seqno"])
        want = ref_enc({"mt": RPLY, "cmd": 4 * b"\0", "seqno": case["seqno"], "pad": 0, "payload": b""})
        if enc != ("ok", want):
            out.append(("datastream:reply-encode", repr(enc)[:200], want.hex(), "encode_reply differs from the documented payload-less rply frame"))
        if enc[0] == "ok":
            dec = _obs(B.decode_message, enc[1])
            if not (dec[0] == "ok" and dec[1][0] is not None and tuple(dec[1][0]) == (RPLY, 4 * b"\0", case["seqno"], 0, b"")
                    and bytes(dec[1][2]) == b""):
                out.append(("datastream:reply-roundtrip", repr(dec)[:300], repr((RPLY, 4 * b"\0", case["seqno"], 0, b"")),
                            "decode_message(encode_reply(seqno)) is not the reply"))
    elif kind == "stream":
        msgs = [_b(m) for m in case["msgs"]]
        tail = bytes.fromhex(case["tail"])
        parts = []
        for m in case["msgs"]:
            e = _obs(B.encode_message, _real_msg(m))
            if e[0] != "ok":
                return [("datastream:encode-raises:stream", repr(e), "bytes", "encode_message rejected a message of its domain")]
            parts.append(e[1])
        payloads, replies, left, raised, _ch = _feed(b"".join(parts) + tail)
        want_payloads = [m["payload"] for m in msgs]
        want_replies = [m["seqno"] for m in msgs if m["mt"].startswith(b"sync")]
        cls = "empty-payload" if any(not m["payload"] for m in msgs) else "payload"
        if raised or (payloads is not None and payloads != want_payloads) or left != tail:
            out.append((f"datastream:stream:{cls}", repr({"raised": raised, "n": None if payloads is None else len(payloads), "left": len(left)}),
                        repr({"raised": None, "n": len(want_payloads), "left": len(tail)}),
                        "handle_received did not take exactly the encoded messages from the buffer (in order, tail left)"))
        elif replies != want_replies:
            out.append((f"datastream:stream-replies:{cls}", repr(replies)[:200], repr(want_replies)[:200],
                        "every sync must be answered by a decodable rply with the same sequence number"))
    elif kind == "protobufs":
        pbs = _pipe_messages()
        chosen = [pbs[i % len(pbs)] for i in case["which"]]
        enc = _obs(B.encode_protobufs, chosen)
        dec = _obs(B.decode_protobufs, enc[1]) if enc[0] == "ok" else enc
        want = [m.SerializeToString() for m in chosen]
        got = [m.SerializeToString() for m in dec[1]] if dec[0] == "ok" else dec
        if got != want:
            out.append(("datastream:protobufs", repr(got)[:200], f"{len(want)} messages, equal to those encoded",
                        "decode_protobufs(encode_protobufs(messages)) != messages"))
    elif kind == "pipe":
        pbs = _pipe_messages()
        pb = pbs[case["which"] % len(pbs)]
        a = _channel()
        r = _obs(a.send_protobuf, pb)
        if r[0] != "ok" or len(a.sent) != 1:
            return [("datastream:pipe-send", repr(r), "one frame sent", "send_protobuf failed")]
        b = _channel()
        b.buffer = a.sent[0]
        fr = _obs(b.handle_received)
        got = [m.SerializeToString() for m in b._verif_listener.protobufs]
        if fr[0] != "ok" or got != [pb.SerializeToString()] or b.buffer != b"":
            out.append(("datastream:pipe", repr((fr, len(got), len(b.buffer)))[:200], "the protobuf message that was sent",
                        "a frame written by send_protobuf is not read back by handle_received"))
        else:
            # the receiver's reply must be readable by the sender and carry the sender's seqno
            a.buffer = b"".join(b.sent)
            fr2 = _obs(a.handle_received)
            d = _obs(B.decode_message, b"".join(b.sent))
            if not (fr2[0] == "ok" and a.buffer == b"" and len(b.sent) == 1 and d[0] == "ok" and d[1][0] is not None
                    and d[1][0].seqno == a.send_seqno):
                out.append(("datastream:pipe-reply", repr((fr2, len(a.buffer), len(b.sent)))[:200], "reply consumed, same seqno",
                            "the reply to a sync frame is not accepted by the peer"))
    return out


def run(ctx, only=None):
    import logging

    from pyatv.protocols.airplay import channels

    logging.getLogger("pyatv.protocols.airplay.channels").setLevel(logging.CRITICAL)
    B = channels.BaseDataStreamChannel
    cases = only if only is not None else gen_cases(ctx)
    lines, plan = [], []
    for c in cases:
        kind = c["kind"]
        if kind == "msg":
            m = c["m"]
            lines.append(f"enc {_hex(bytes.fromhex(m['mt']))} {_hex(bytes.fromhex(m['cmd']))} {m['seqno']} {m['pad']} {_hex(bytes.fromhex(m['payload']))}")
            enc = _obs(B.encode_message, _real_msg(m))
            stream = (enc[1] if enc[0] == "ok" and isinstance(enc[1], bytes) else ref_enc(_b(m))) + bytes.fromhex(c["rest"])
            lines.append("dec " + _hex(stream))
            plan.append((c, enc, stream))
        elif kind == "reply":
            lines.append(f"reply {c['seqno']}")
            plan.append((c, _obs(_channel().encode_reply, c["seqno"]), None))
        elif kind == "stream":
            stream = b"".join(ref_enc(_b(m)) for m in c["msgs"]) + bytes.fromhex(c["tail"])
            lines.append("recv " + _hex(stream))
            plan.append((c, None, stream))
        elif kind == "bad":
            stream = bytes.fromhex(c["data"])
            lines.append("dec " + _hex(stream))
            lines.append("recv " + _hex(stream))
            plan.append((c, None, stream))
        else:
            plan.append((c, None, None))
    answers = iter(ctx.lean(lines, driver=DRIVER))

    def show_dec(d):
        if d[0] != "ok":
            return "err:" + d[1]
        m, raw, rest = d[1]
        if m is None:
            return "need"
        try:
            return "msg " + _show_msg({"mt": m.message_type, "cmd": m.command, "seqno": m.seqno, "pad": m.padding, "payload": m.payload}) \
                + f" {len(raw)} {_hex(rest)}"
        except Exception as e:
            return "err:shape:" + type(e).__name__

    def show_recv(stream):
        payloads, replies, left, raised, _ch = _feed(stream)
        shown = "unobserved" if payloads is None else (",".join(_hex(p) for p in payloads) or "none")
        return " ".join([("raise:" + raised) if raised else "ok", _hex(left), shown, ",".join(str(r) for r in replies) or "none"])

    def same_recv(impl, model):
        i, m = impl.split(" "), model.split(" ")
        if len(i) == 4 and len(m) == 4 and i[2] == "unobserved":
            m[2] = "unobserved"
        return i == m

    for c, enc, stream in plan:
        kind = c["kind"]
        ctx.note("datastream:kind:" + kind)
        if kind == "msg":
            m_enc, m_dec = next(answers), next(answers)
            impl = _hex(enc[1]) if enc[0] == "ok" and isinstance(enc[1], bytes) else "err:" + str(enc[1])
            if impl != m_enc:
                ctx.disagree(c, impl[:300], m_enc[:300], where="datastream encode_message")
            impl = show_dec(_obs(B.decode_message, stream))
            if impl != m_dec:
                ctx.disagree(c, impl[:300], m_dec[:300], where="datastream decode_message")
            ctx.validated(2)
            ctx.note("datastream:payload:" + ("0" if not c["m"]["payload"] else "n"))
        elif kind == "reply":
            m = next(answers)
            impl = _hex(enc[1]) if enc[0] == "ok" and isinstance(enc[1], bytes) else "err:" + str(enc[1])
            if impl != m:
                ctx.disagree(c, impl, m, where="datastream encode_reply")
            ctx.validated()
        elif kind == "stream":
            m = next(answers)
            impl = show_recv(stream)
            if not same_recv(impl, m):
                ctx.disagree(c, impl[:300], m[:300], where="datastream handle_received")
            ctx.validated()
            ctx.note("datastream:stream-msgs:%d" % len(c["msgs"]))
        elif kind == "bad":
            m_dec, m_recv = next(answers), next(answers)
            impl = show_dec(_obs(B.decode_message, stream))
            if impl != m_dec:
                ctx.disagree(c, impl[:300], m_dec[:300], where="datastream decode_message (malformed)")
            impl = show_recv(stream)
            if not same_recv(impl, m_recv):
                ctx.disagree(c, impl[:300], m_recv[:300], where="datastream handle_received (malformed)")
            ctx.validated(2)
        nontrivial = (kind in ("reply", "bad", "pipe", "protobufs") or (kind == "msg" and (not c["m"]["payload"] or c["rest"]))
                      or (kind == "stream" and (len(c["msgs"]) > 1 or c["tail"] or any(not m["payload"] for m in c["msgs"]))))
        ctx.case([kind, c.get("m"), c.get("rest"), c.get("msgs"), c.get("tail"), c.get("data"), c.get("seqno"), c.get("which")],
                 bool(nontrivial), sample=_short(c))
        for sig, observed, required, what in oracle(c):
            ctx.fail(sig, c, observed, required, what)


def _short(c):
    s = dict(c)
    if "msgs" in s:
        s["msgs"] = [dict(m, payload=(m["payload"][:16] + f"…({len(m['payload']) // 2} bytes)") if len(m["payload"]) > 32 else m["payload"]) for m in s["msgs"]]
    if "m" in s and len(s["m"]["payload"]) > 32:
        s["m"] = dict(s["m"], payload=s["m"]["payload"][:16] + f"…({len(s['m']['payload']) // 2} bytes)")
    for k in ("rest", "tail", "data"):
        if k in s and len(s[k]) > 80:
            s[k] = s[k][:64] + f"…({len(s[k]) // 2} bytes)"
    return s


def replay(ctx, failure):
    return bool(oracle(failure["case"]))
