"""C12 — discovery result does not depend on packet order or duplication.

Real code driven (in-process, no sockets): `pyatv.scan()` -> `MulticastMdnsScanner` /
`UnicastMdnsScanner` -> `mdns.multicast()` / `mdns.unicast()` -> the real
`MulticastDnsSdClientProtocol` (behind a real `ReceiveDelegate`) /
`UnicastDnsSdClientProtocol`, fed with datagrams packed by the repo's own
`DnsMessage.pack` (or by a name-compressing encoder), -> `BaseScanner.handle_response` ->
`discover()` -> `_should_include`.  Only socket/endpoint creation and the TCP "knock" are
replaced; time is virtual.

A case is an abstract JSON description (devices -> datagrams); the same description is
rendered to bytes for the real code and to small numbers for the Lean driver.

* correspondence: per delivery order, the responses handed to `handle_response`, the raw
  (dict-order sensitive) configurations and the normalised snapshot are compared with the
  model's; `sc`/`opq` (the theorems' hypotheses) must hold on every case generated as
  self-consistent.
* direct oracle (model-independent): snapshot equal across all permutations /
  duplications of the same datagrams; at most one configuration per address; datagrams /
  records of unrequested service types do not change the result; devices without
  identifier are not returned.
"""
import asyncio
import itertools
import json
import struct
from ipaddress import IPv4Address

RULE = ("1..4 self-consistent simulated devices x 1..5 services of real pyatv service types (single services may "
        "lack an identifier next to services that have one; _airport/_sleep-proxy services mixed in; dedicated "
        "cases with one datagram per service so that every parser-table order occurs; TXT values that make a "
        "device_info extractor or service_info raise - comma in waMA, two-word flags, non-hex features, empty "
        "and very long values - on some services of some devices, next to ordinary devices; one datagram the "
        "decoder rejects (value-less non-ASCII TXT attribute, truncated header) at every position; scans "
        "restricted with protocol= compared with the same scan without the unrequested answers; "
        "identifier-restricted scans below the early-exit threshold; populations of look-alike devices sharing "
        "name, model, ports, instance names and TXT content except the identifiers), rendered to "
        "response datagrams; all permutations of up to 5 (quick) / 6 (thorough) datagrams, sampled beyond, "
        "each with random duplication; multicast and unicast scanner; non-trivial = >=2 datagrams, a "
        "configuration is returned and the delivery order differs from the reference order or has a "
        "duplicate; distinct = (mode, case, delivery order)")
ASSUMPTIONS = [
    "a unicast host answers every query with at most one distinct datagram (the scanner counts datagrams)",
    "scan without identifier (end_condition of the multicast protocol is None)",
    "per-service pure functions (get_unique_id, protocol handlers' name/protocol, device_info extractors, "
    "lookup_model/lookup_internal_name) enter the model as parameters; the driver is given tables computed "
    "with the real functions",
    "a closed datagram transport delivers nothing more (asyncio semantics)",
    "an exception escaping UnicastDnsSdClientProtocol.datagram_received is reported to the loop and reading goes on "
    "(asyncio semantics): an undecodable unicast datagram is as if it never arrived; for the multicast protocol it "
    "registers the source and nothing else, like a datagram without records",
]
TRUSTED = ["harness/c12.py fakes: datagram endpoint / multicast socket creation, knocker, virtual-time loop",
           "harness/c12.py rendering of abstract records to DNS bytes (repo's DnsMessage.pack + a compressing encoder)"]

TYPES = [
    "_device-info._tcp.local", "_sleep-proxy._udp.local", "_mediaremotetv._tcp.local", "_airplay._tcp.local",
    "_raop._tcp.local", "_companion-link._tcp.local", "_touch-able._tcp.local", "_appletv-v2._tcp.local",
    "_hscp._tcp.local", "_airport._tcp.local", "_googlecast._tcp.local", "_spotify-connect._tcp.local",
]
T_DEVINFO, T_SLEEP, T_MRP, T_AIRPLAY, T_RAOP, T_COMPANION, T_TOUCH, T_ATV2, T_HSCP, T_AIRPORT, T_CAST, T_SPOT = range(12)
UNREQ = [T_CAST, T_SPOT]
KNOWN_SIG = "unicast:more-distinct-responses-than-queries"


# --------------------------------------------------------------------------------------
# abstract records -> bytes
# --------------------------------------------------------------------------------------
def name_str(n):
    if n[0] == "typ":
        return TYPES[n[1]]
    if n[0] == "svc":
        return n[1] + "." + TYPES[n[2]]
    return "h%d.local" % n[1]


def addr_str(a, ll):
    return ("169.254.0.%d" if ll else "10.0.0.%d") % a


def txt_bytes(props):
    rd = b""
    for k, v in props:
        e = k.encode("ascii") + b"=" + v.encode("utf-8")
        rd += bytes([len(e)]) + e
    return rd


def rec_wire(r):
    """-> (qname, qtype, ttl, rdata-spec) ; rdata-spec = ('name', str) | ('srv', port, str) | ('raw', bytes)"""
    kind, name, ttl = r[0], name_str(r[1]), r[2]
    if kind == "A":
        return name, 1, ttl, ("raw", IPv4Address(addr_str(r[3], r[4])).packed)
    if kind == "P":
        return name, 12, ttl, ("name", name_str(r[3]))
    if kind == "S":
        return name, 33, ttl, ("srv", r[3], name_str(r[4]))
    if kind == "T":
        return name, 16, ttl, ("raw", txt_bytes(r[3]))
    if kind == "X":      # TXT record with a value-less attribute holding a non-ASCII byte: parse_txt_dict raises
        return name, 16, ttl, ("raw", txt_bytes(r[3]) + b"\x05\xe9tat")
    return name, r[3], ttl, ("raw", bytes([r[4] % 256]) * 4)


def pack_repo(dns, msg_id, questions, recs):
    """The repo's own encoder (no name compression)."""
    m = dns.DnsMessage(msg_id, 0x8400)
    m.questions = list(questions)
    for r in recs:
        qname, qtype, ttl, rd = rec_wire(r)
        if rd[0] == "name":
            m.answers.append(dns.DnsResource(qname, dns.QueryType.PTR, 0x8001, ttl, 0, rd[1]))
        else:
            raw = rd[1] if rd[0] == "raw" else struct.pack(">3H", 0, 0, rd[1]) + dns.qname_encode(rd[2])
            qt = dns.QueryType(qtype) if qtype in dns.QueryType.__members__.values() else qtype
            m.resources.append(dns.DnsResource(qname, qt, 0x8001, ttl, len(raw), raw))
    return bytes(m.pack())


class Compressor:
    """RFC 1035 §4.1.4 name compression, as real responders use it."""

    def __init__(self):
        self.buf = bytearray()
        self.seen = {}

    def name(self, s):
        labels = s.split(".")
        for i in range(len(labels)):
            suffix = ".".join(labels[i:]).lower()
            if suffix in self.seen:
                self.buf += struct.pack(">H", 0xC000 | self.seen[suffix])
                return
            if len(self.buf) < 0x3FFF:
                self.seen[suffix] = len(self.buf)
            lab = labels[i].encode("utf-8")
            self.buf += bytes([len(lab)]) + lab
        self.buf += b"\x00"


def pack_compressed(msg_id, questions, recs):
    c = Compressor()
    wires = [rec_wire(r) for r in recs]
    answers = [w for w in wires if w[3][0] == "name"]
    others = [w for w in wires if w[3][0] != "name"]
    c.buf += struct.pack(">6H", msg_id, 0x8400, len(questions), len(answers), 0, len(others))
    for q in questions:
        c.name(q.qname)
        c.buf += struct.pack(">2H", int(q.qtype), q.qclass)
    for qname, qtype, ttl, rd in answers + others:
        c.name(qname)
        c.buf += struct.pack(">2HI", qtype, 0x8001, ttl)
        pos = len(c.buf)
        c.buf += b"\x00\x00"
        if rd[0] == "name":
            c.name(rd[1])
        elif rd[0] == "srv":
            c.buf += struct.pack(">3H", 0, 0, rd[1])
            c.name(rd[2])
        else:
            c.buf += rd[1]
        struct.pack_into(">H", c.buf, pos, len(c.buf) - pos - 2)
    return bytes(c.buf)


# --------------------------------------------------------------------------------------
# the real scanners, without sockets
# --------------------------------------------------------------------------------------
class FakeSock:
    def getsockname(self):
        return ("10.99.0.1", 5353)


class FakeTransport:
    def __init__(self):
        self.closed = False
        self.sent = 0

    def sendto(self, data, addr=None):
        self.sent += 1

    def close(self):
        self.closed = True

    def get_extra_info(self, key, default=None):
        return FakeSock() if key == "socket" else default


class FakeKnocker:
    def cancel(self):
        pass


def protocols_of(protoset):
    from pyatv.const import Protocol
    return None if protoset is None else {Protocol(p) for p in protoset}


def make_scanner(protoset):
    """Service registration exactly as `pyatv.scan` does it (for tables and `req`)."""
    from pyatv.core.scan import MulticastMdnsScanner
    from pyatv.protocols import PROTOCOLS
    sc = MulticastMdnsScanner(None, None)
    chosen = protocols_of(protoset)
    for proto, methods in PROTOCOLS.items():
        if chosen and proto not in chosen:
            continue
        sc.add_service_info(proto, methods.service_info)
        for service_type, handler in methods.scan().items():
            sc.add_service(service_type, handler, methods.device_info)
    return sc


def run_real(mode, protoset, hosts, deliveries, identifier=None):
    """deliveries: list of (src_addr_id, bytes) in arrival order.  Returns
    {'responses': [...], 'configs': [...], 'error': str|None, 'services': [...]}"""
    import pyatv
    from pyatv.core import mdns, scan as scan_mod
    from harness.core import vloop

    seen = {"responses": [], "services": None}
    orig_handle = scan_mod.BaseScanner.handle_response

    def handle_response(self, response):
        seen["services"] = list(self.services)
        seen["responses"].append(response)
        return orig_handle(self, response)

    async def go():
        loop = asyncio.get_running_loop()
        patches = []

        def patch(obj, attr, value):
            patches.append((obj, attr, getattr(obj, attr)))
            setattr(obj, attr, value)

        patch(scan_mod.BaseScanner, "handle_response", handle_response)
        if mode == "m":
            async def add_socket(self, sock):
                receiver = mdns.ReceiveDelegate(self)
                transport = FakeTransport()
                receiver.connection_made(transport)
                self._receivers.append(receiver)

                def feed(i):
                    if i >= len(deliveries) or transport.closed:
                        return
                    src, data = deliveries[i]
                    receiver.datagram_received(data, ("10.0.0.%d" % src, 5353))
                    loop.call_soon(feed, i + 1)
                loop.call_soon(feed, 0)

            patch(mdns.MulticastDnsSdClientProtocol, "add_socket", add_socket)
            patch(mdns.net, "mcast_socket", lambda *a, **k: None)
            patch(mdns.net, "get_private_addresses", lambda *a, **k: [])
        else:
            async def create_datagram_endpoint(factory, remote_addr=None, **kwargs):
                protocol = factory()
                transport = FakeTransport()
                protocol.connection_made(transport)
                mine = [d for (s, d) in deliveries if "10.0.0.%d" % s == remote_addr[0]]

                def feed(i):
                    if i >= len(mine) or transport.closed:
                        return
                    try:
                        protocol.datagram_received(mine[i], remote_addr)
                    except Exception:       # asyncio: reported to the loop's exception handler, reading goes on
                        pass
                    loop.call_soon(feed, i + 1)
                loop.call_soon(feed, 0)
                return transport, protocol

            async def knocker(*a, **k):
                return FakeKnocker()

            patch(loop, "create_datagram_endpoint", create_datagram_endpoint)
            patch(scan_mod.knock, "knocker", knocker)
        try:
            return await pyatv.scan(loop, timeout=1, protocol=protocols_of(protoset), identifier=identifier,
                                    hosts=["10.0.0.%d" % h for h in hosts] if mode != "m" else None)
        finally:
            for obj, attr, old in reversed(patches):
                setattr(obj, attr, old)

    out = {"responses": [], "configs": [], "error": None, "services": None}
    import logging
    logging.disable(logging.CRITICAL)
    try:
        out["configs"] = vloop.run(go)
    except Exception as e:  # observation, not a harness crash
        out["error"] = type(e).__name__
    finally:
        logging.disable(logging.NOTSET)
    out["responses"] = seen["responses"]
    out["services"] = seen["services"]
    return out


# --------------------------------------------------------------------------------------
# a case: numbering tables shared by the real rendering and the model line
# --------------------------------------------------------------------------------------
class Case:
    """`desc` = {'mode','protoset','hosts','enc','dgrams':[{'src','tag','recs'}], ...} (json-able)."""

    def __init__(self, desc):
        from pyatv.core import mdns
        from pyatv.support import dns
        from pyatv.support.device_info import lookup_internal_name
        from pyatv.const import DeviceModel
        from pyatv.interface import DeviceInfo
        self.desc = desc
        self.mode = desc["mode"]
        self.protoset = desc.get("protoset")
        self.hosts = desc.get("hosts", [])
        self.scanner = make_scanner(self.protoset)
        self.services = self.scanner.services
        self.req = [TYPES.index(s) for s in self.services]
        self.queries = mdns.create_service_queries(self.services, dns.QueryType.PTR)
        self.nq = len(self.queries)
        self.qsections = [dns.DnsMessage().unpack(q).questions for q in self.queries]
        self.inst_ids, self.txt_ids, self.key_ids, self.val_ids = {}, {(): 0}, {}, {}
        self.ident_ids, self.name_ids = {"": 0}, {}
        self.txt_props = {0: []}
        # bytes + numbers for every datagram
        self.wire, self.tokens = [], []
        for d in desc["dgrams"]:
            toks = ["D,%d,%d" % (d["src"], d["tag"])]
            for r in d["recs"]:
                toks.append(self.rec_token(r))
            if d.get("bad"):
                # a datagram the decoder rejects.  Multicast: the source is registered (`setdefault`) and
                # nothing else happens - exactly what a datagram without records does.  Unicast: the
                # protocol raises before counting it (asyncio logs and goes on) - as if it never arrived.
                toks = toks[:1] if self.mode == "m" else []
            self.tokens.append(toks)
            if self.mode == "m":
                msg_id, questions = d["tag"], []
            else:
                msg_id = 0x35FF
                questions = self.qsections[d["tag"]] if d["tag"] < self.nq else [
                    dns.DnsQuestion("_extra%d._tcp.local" % d["tag"], dns.QueryType.PTR, 0x8001)]
            if desc.get("enc") == "c":
                self.wire.append(pack_compressed(msg_id, questions, d["recs"]))
            else:
                self.wire.append(pack_repo(dns, msg_id, questions, d["recs"]))
            if d.get("bad") == "cut":
                self.wire[-1] = self.wire[-1][:7]          # not even a complete DNS header
        # tables: handler outcome for every (type, instance) x payload seen with that name
        svc_txts = {}
        for d in desc["dgrams"]:
            for r in d["recs"]:
                n = r[1]
                if n[0] in ("svc", "typ") and not d.get("bad"):
                    key = (n[2], n[1]) if n[0] == "svc" else (n[1], None)
                    svc_txts.setdefault(key, {0})
                    if r[0] == "T":
                        svc_txts[key].add(self.txt_id(r[3]))
        self.table_tokens = []
        dummy = mdns.Response([], False, None)
        for x, props in sorted(self.txt_props.items()):
            flat = []
            for k, v in self.decoded(props).items():
                flat += [self.key_id(k), self.val_id(v)]
            self.table_tokens.append("X," + ",".join(map(str, [x] + flat)))
            model = lookup_internal_name(self.decoded(props).get("model"))
            if model != DeviceModel.Unknown:
                self.table_tokens.append("N,%d,%d" % (x, model.value + 1))
        for (t, inst), txts in sorted(svc_txts.items(), key=repr):
            tname = TYPES[t]
            if tname not in self.scanner._services:
                continue
            handler, extractor = self.scanner._services[tname]
            for x in sorted(txts):
                props = self.decoded(self.txt_props[x])
                service = mdns.Service(tname, inst, IPv4Address("10.0.0.1"), 1, props)
                i = self.inst_id(inst) if inst is not None else 0
                try:
                    res = handler(service, dummy)
                except Exception:
                    res = "raised"
                if res == "raised":
                    self.table_tokens.append("I,%d,%d,%d,0,0,0,0" % (t, i, x))
                elif res is None:
                    self.table_tokens.append("I,%d,%d,%d,1,0,0,0" % (t, i, x))
                else:
                    nm, svc = res
                    ident1 = 0 if svc.identifier is None else self.ident_id(svc.identifier) + 1
                    self.table_tokens.append("I,%d,%d,%d,2,%d,%d,%d" % (
                        t, i, x, svc.protocol.value, ident1, self.intern(self.name_ids, nm, 1)))
                try:
                    m = extractor(tname, props).get(DeviceInfo.MODEL)
                except Exception:
                    m = None
                if m is not None:
                    self.table_tokens.append("M,%d,%d,%d" % (t, x, m.value + 1))

    # -- numbering ------------------------------------------------------------------------
    @staticmethod
    def intern(table, key, start):
        if key not in table:
            table[key] = len([v for v in table.values() if v >= start]) + start
        return table[key]

    def inst_id(self, s):
        return self.intern(self.inst_ids, s, 1)

    def key_id(self, s):
        return self.intern(self.key_ids, s, 1)

    def val_id(self, s):
        return self.intern(self.val_ids, s, 1)

    def ident_id(self, s):
        return self.intern(self.ident_ids, s, 1)

    def txt_id(self, props):
        key = tuple((k, v) for k, v in props)
        if key not in self.txt_ids:
            self.txt_ids[key] = len(self.txt_ids)
            self.txt_props[self.txt_ids[key]] = props
        return self.txt_ids[key]

    @staticmethod
    def decoded(props):
        from pyatv.core import mdns
        from pyatv.support.collections import CaseInsensitiveDict
        return mdns._decode_properties(CaseInsensitiveDict({k: v.encode("utf-8") for k, v in props}))

    def name_nums(self, n):
        if n[0] == "typ":
            return "0,%d,0" % n[1]
        if n[0] == "svc":
            return "1,%d,%d" % (self.inst_id(n[1]), n[2])
        return "2,%d,0" % n[1]

    def rec_token(self, r):
        if r[0] == "X":
            return "T,%s,%d,%d" % (self.name_nums(r[1]), r[2], 0)     # only ever inside a `bad` datagram (dropped)
        head = "%s,%s,%d" % (r[0], self.name_nums(r[1]), r[2])
        if r[0] == "A":
            return head + ",%d,%d" % (r[3], 1 if r[4] else 0)
        if r[0] == "P":
            return head + "," + self.name_nums(r[3])
        if r[0] == "S":
            return head + ",%d,%s" % (r[3], self.name_nums(r[4]))
        if r[0] == "T":
            return head + ",%d" % self.txt_id(r[3])
        return head + ",%d,%d" % (r[3], r[4])

    # -- one delivery order -----------------------------------------------------------------
    def line(self, order, mode=None):
        toks = list(self.table_tokens)
        for i in order:
            toks += self.tokens[i]
        csv = lambda xs: ",".join(map(str, xs)) if xs else "-"
        return "scan %s %d %s %s %d %d %s" % (mode or self.mode, self.nq, csv(self.hosts), csv(self.req),
                                             T_DEVINFO, T_SLEEP, " ".join(toks))

    def real(self, order):
        res = run_real(self.mode, self.protoset, self.hosts,
                       [(self.desc["dgrams"][i]["src"], self.wire[i]) for i in order])
        return res, self.show_real(res)

    def show_real(self, res):
        """Same text format as the Lean driver's resp= / raw= fields."""
        from pyatv.support.device_info import lookup_internal_name
        from pyatv.const import DeviceModel
        if res["error"]:
            return {"resp": "error:" + res["error"], "raw": "error:" + res["error"], "snap": None}
        opt = lambda v: "-" if v is None else str(v)
        sep = lambda s, xs: s.join(xs) if xs else "-"
        model = lambda m: None if m == DeviceModel.Unknown else m.value

        def props_id(p):
            key = tuple(sorted((k, v) for k, v in dict(p).items()))
            for tid, props in self.txt_props.items():
                if tuple(sorted(self.decoded(props).items())) == key:
                    return tid
            return "?"

        resp = []
        for r in res["responses"]:
            svcs = []
            for s in r.services:
                t = TYPES.index(s.type) if s.type in TYPES else "?"
                a = None if s.address is None else int(str(s.address).split(".")[-1])
                svcs.append("%s.%d.%s.%d.%s" % (t, self.inst_ids.get(s.name, 0), opt(a), s.port, props_id(s.properties)))
            resp.append("%d/%s/%s" % (r.deep_sleep, opt(model(lookup_internal_name(r.model))), sep(",", svcs)))
        raw, snap = [], []
        for c in res["configs"]:
            a = int(str(c.address).split(".")[-1])
            svcs, ssvcs = [], []
            for s in c.services:
                ident = None if s.identifier is None else self.ident_ids.get(s.identifier, "?")
                items = [(self.key_ids.get(k, "?"), self.val_ids.get(v, "?")) for k, v in s.properties.items()]
                show = lambda its: sep(",", ["%s=%s" % kv for kv in its])
                svcs.append("%d:%d:%s:%s" % (s.protocol.value, s.port, opt(ident), show(items)))
                ssvcs.append((s.protocol.value, "%d:%d:%s:%s" % (s.protocol.value, s.port, opt(ident), show(sorted(items)))))
            m = opt(model(c.device_info.model))
            raw.append("%d/%s/%d/%s/%s" % (a, self.name_ids.get(c.name, "?"), c.deep_sleep, m, sep("+", svcs)))
            ids = sorted(self.ident_ids.get(i, -1) for i in c.all_identifiers)
            snap.append((a, "%d/%s/%d/%s/%s" % (a, sep(",", map(str, ids)), c.deep_sleep, m,
                                                sep("+", [x[1] for x in sorted(ssvcs)]))))
        return {"resp": sep(";", resp), "raw": sep(";", raw), "snap": sep(";", [x[1] for x in sorted(snap)])}


def oracle_snapshot(res):
    """The property's observation, computed from the real objects only (strings, no numbering)."""
    if res["error"]:
        return "error:" + res["error"]
    out = []
    for c in res["configs"]:
        svcs = sorted((s.protocol.name, s.port, s.identifier, tuple(sorted(s.properties.items()))) for s in c.services)
        # the per-service-type properties the configuration exposes (config.properties) are part of
        # "services with ports and properties" just as the merged per-protocol ones are
        raw = tuple(sorted((str(t), tuple(sorted((str(k), str(v)) for k, v in dict(p).items())))
                           for t, p in dict(c.properties).items()))
        out.append((str(c.address), tuple(sorted(c.all_identifiers)), tuple(svcs), c.device_info.model.name, bool(c.deep_sleep), raw))
    return sorted(out, key=repr)


def parse_answer(ans):
    if not ans.startswith("sc="):
        return None
    parts = dict(p.split("=", 1) for p in ans.split(" "))
    # the real Service carries no place-holder flag: drop it
    resp = []
    for r in parts["resp"].split(";"):
        if r == "-":
            continue
        deep, rm, svcs = r.split("/")
        svcs = "-" if svcs == "-" else ",".join(s.rsplit(".", 1)[0] for s in svcs.split(","))
        resp.append("/".join([deep, rm, svcs]))
    parts["resp"] = ";".join(resp) if resp else "-"
    return parts


# --------------------------------------------------------------------------------------
# generation
# --------------------------------------------------------------------------------------
MODELS = ["AppleTV6,2", "AppleTV5,3", "AudioAccessory5,1", "AirPort10,115", "NoSuchModel1,1"]
INTERNAL = ["J105aAP", "J42dAP", "K66AP", "X999AP"]


def set_prop(props, key, value):
    out = [(k, v) for k, v in props if k.lower() != key.lower()]
    return out + [(key, value)]


def make_hostile(rng, dev, howmany=None):
    """Real-world shaped TXT values that a device_info extractor or a protocol's service_info cannot
    interpret (they raise on them).  The device stays self-consistent: every datagram carries the same
    values.  Returns the list of oddities applied."""
    a = dev["addr"]
    options = []
    for s in dev["services"]:
        t = s["type"]
        if t == T_AIRPLAY:
            options += [(s, "flags", "0x404,0x0"), (s, "flags", ""), (s, "features", "0xNOTHEX"), (s, "sf", "0x4,junk")]
        elif t == T_RAOP:
            options += [(s, "sf", "0x4,0x0"), (s, "ft", "zz"), (s, "am", "")]
        elif t == T_COMPANION:
            options += [(s, "rpFl", "zz"), (s, "rpFl", ""), (s, "rpFl", "0x36782,0x0")]
        elif t == T_AIRPORT:
            options += [(s, "waMA", "AA-BB-CC-00-00-%02X,raMA=AA-BB-CC-00-01-%02X,raNm=Home, sweet home,syVs=7.8.1" % (a, a)),
                        (s, "waMA", "AA-BB-CC-00-00-%02X,junk" % a)]
        elif t == T_MRP:
            options += [(s, "SystemBuildVersion", ""), (s, "AllowPairing", "")]
        options.append((s, "note%d" % t, "x" * 200))
    applied = []
    for s, k, v in rng.sample(options, min(len(options), howmany or rng.randint(1, 3))):
        s["props"] = set_prop(s["props"], k, v)
        applied.append((s["type"], k, v[:20]))
    return applied


def gen_airport_express(rng, idx, bad=True):
    """AirPort Express 2: _airplay + _raop + _airport; the model is known from `model` / `am` only."""
    a = idx + 1
    name = "Express%d" % a
    mac = "AA:BB:CC:00:00:%02X" % a
    wama = "AA-BB-CC-00-00-%02X,raMA=AA-BB-CC-00-01-%02X,raNm=%s,syVs=7.8.1" % (a, a, "My, Net" if bad else "MyNet")
    services = [
        {"type": T_AIRPLAY, "inst": name, "port": 7000, "props": [("deviceid", mac), ("model", "AirPort10,115"),
                                                                 ("features", "0x445F8A00,0x1C340")]},
        {"type": T_RAOP, "inst": "AABBCC0000%02X@%s" % (a, name), "port": 7000, "props": [("am", "AirPort10,115"), ("tp", "UDP")]},
        {"type": T_AIRPORT, "inst": name, "port": 5009, "props": [("waMA", wama)]},
    ]
    rng.shuffle(services)
    return {"addr": a, "host": a, "services": services, "name": name, "expect_absent": False, "info": None,
            "linklocal": rng.chance(0.3), "sleeping": False, "ttl": rng.choice([10, 120, 4500])}


def gen_case_hostile(rng, mode, i):
    """Self-consistent devices of which some carry TXT values an extractor / service_info chokes on, next
    to ordinary devices; few datagrams per device so that all arrival orders (of services within a device
    and of devices) are enumerated."""
    from pyatv.core import mdns
    from pyatv.support import dns
    devs = []
    if i % 2 == 0:
        devs.append(gen_airport_express(rng, 0, bad=True))
    else:
        d = gen_device(rng, 0, allow_noid=False, mixed=False, nsvc=rng.randint(2, 3), hostile=False)
        d["sleeping"] = False
        make_hostile(rng, d)
        devs.append(d)
    for k in range(1 + (i // 2) % 2):
        d = gen_device(rng, len(devs), allow_noid=False, mixed=False, nsvc=rng.randint(1, 2), hostile=False)
        d["sleeping"] = False
        if rng.chance(0.3):
            make_hostile(rng, d, 1)
        devs.append(d)
    rng.shuffle(devs)
    dgrams = []
    if mode == "m":
        for di, d in enumerate(devs):
            per_service = d is devs[0] or len(devs) == 2
            groups = [[s] for s in d["services"]] if per_service else [d["services"]]
            for g in groups:
                recs = []
                for s in g:
                    recs += [r for r in svc_records(d, s) if r not in recs]
                dgrams.append({"src": d["addr"], "tag": len(dgrams), "recs": recs})
        hosts, protoset = [], None
    else:
        protoset = None
        nq = len(mdns.create_service_queries(make_scanner(protoset).services, dns.QueryType.PTR))
        devs = devs[:2]
        for d in devs:
            buckets = [[] for _ in range(nq)]
            where = list(range(nq))
            rng.shuffle(where)
            for k, s in enumerate(d["services"]):
                b = buckets[where[k % nq]]
                b += [r for r in svc_records(d, s) if r not in b]
            for q in range(nq):
                dgrams.append({"src": d["addr"], "tag": q, "recs": buckets[q]})
        hosts = [d["addr"] for d in devs]
        rng.shuffle(hosts)
    return {"mode": mode, "protoset": protoset, "hosts": hosts, "enc": rng.choice(["r", "c"]), "dgrams": dgrams,
            "absent": [d["addr"] for d in devs if d["expect_absent"]], "consistent": True}


def gen_device(rng, idx, allow_noid=True, mixed=None, nsvc=None, hostile=None, name=None, look=None, renamed=False):
    """One self-consistent device: unique address/host/names; services of one pyatv protocol agree on
    port, identifier and shared property keys; one model (the device names the services yield may differ).
    Single services may lack a unique identifier while others of the same device have one (Companion
    without rpMRtID, RAOP announced as plain "name" without pk, AirPlay without deviceid, MRP without
    UniqueIdentifier); `_airport` / `_sleep-proxy` services (registered types that never yield a
    service) may stand next to them.  `mixed=True` forces such a mixture."""
    a = idx + 1
    # `name` / `look`: devices may share everything that is NOT an identifier - the user-visible name, ports,
    # property values - while address, host name and identifiers stay their own
    key = a if look is None else look
    name = name or "Dev%d" % a
    inst_base = "%s (%d)" % (name, a) if renamed else name      # mDNS conflict resolution renames the instance only
    mac = "AA:BB:CC:00:00:%02X" % a
    pool = [T_MRP, T_AIRPLAY, T_RAOP, T_COMPANION, T_TOUCH, T_ATV2, T_HSCP]
    if mixed is None:
        mixed = rng.chance(0.35)
    kinds = rng.sample(pool, nsvc or rng.randint(1, 5))
    noid = allow_noid and not mixed and rng.chance(0.15)
    emptyid = allow_noid and not mixed and not noid and rng.chance(0.08)
    # identifier dropped for single (non-DMAP: one type per protocol) services
    single = [t for t in kinds if t in (T_MRP, T_AIRPLAY, T_RAOP, T_COMPANION)]
    drop = set()
    if mixed:
        if not single:
            kinds[rng.randrange(len(kinds))] = T_COMPANION
            single = [T_COMPANION]
        if len(kinds) == 1:
            kinds.insert(rng.randint(0, 1), rng.choice([t for t in pool if t not in kinds]))
            single = [t for t in kinds if t in (T_MRP, T_AIRPLAY, T_RAOP, T_COMPANION)]
        maxdrop = len(single) if len(kinds) > len(single) else len(single) - 1
        drop = set(rng.sample(single, rng.randint(1, max(1, maxdrop))))
    has_hscp = T_HSCP in kinds
    model = None if has_hscp or rng.chance(0.3) else rng.choice(MODELS)
    dmap_port = 3689 + key
    dmap_id = "DMAP%04d" % a
    shared = [("sharedkey", "s%d" % key)] if rng.chance(0.5) else []
    services = []
    has_id = False
    for t in kinds:
        props, inst, port = [], inst_base, 7000 + 10 * key + t
        none = noid or t in drop
        if t == T_MRP:
            props = [("Name", name)] + ([] if none else [("UniqueIdentifier", "" if emptyid else "MRP-%d" % a)])
            if rng.chance(0.5):
                props.append(("AllowPairing", "YES"))
        elif t == T_AIRPLAY:
            props = ([] if none or emptyid else [("deviceid", mac)]) + ([("model", model)] if model else [])
            props.append(("features", "0x5A7FFFF7,0x1E"))
        elif t == T_RAOP:
            inst = name if none or emptyid else "AABBCC0000%02X@%s" % (a, name)
            props = [("am", model)] if model else []
            props.append(("tp", "UDP"))
        elif t == T_COMPANION:
            props = ([] if none or emptyid else [("rpMRtID", "CID-%d" % a)]) + ([("rpMd", model)] if model else [])
            props.append(("rpFl", "0x36782"))
        elif t == T_TOUCH:
            inst = ("_x%d" % a) if noid or emptyid else dmap_id + "_touch"
            props, port = [("CtlN", name)], dmap_port
        elif t == T_ATV2:
            inst = ("_y%d" % a) if noid or emptyid else dmap_id + "_hs"
            props, port = [("Name", name), ("hG", "0000-%d" % key)], dmap_port
        elif t == T_HSCP:
            inst = "hscp%d" % a
            props = [("Machine Name", name), ("hG", "0000-%d" % key), ("Machine ID", "" if noid or emptyid else dmap_id)]
            port = dmap_port
        if not (none or emptyid or noid):
            has_id = True
        props = props + shared
        if rng.chance(0.3):
            props.append(("extra%d" % t, "v%d" % rng.randint(0, 2)))
        services.append({"type": t, "inst": inst, "port": port, "props": props})
    # registered types whose handler never yields a service (no identifier by construction)
    if rng.chance(0.5 if mixed else 0.15) and len(services) < 6:
        t = rng.choice([T_AIRPORT, T_SLEEP])
        extra = {"type": t, "inst": name if t == T_AIRPORT else "70-35-60-63.1 %s" % name,
                 "port": 5009 if t == T_AIRPORT else 61000 + a, "props": [("syAP", "115")] if t == T_AIRPORT else []}
        services.insert(rng.randint(0, len(services)), extra)
    dev = {"addr": a, "host": a, "services": services, "name": name,
           "expect_absent": not has_id,
           "info": rng.choice(INTERNAL) if rng.chance(0.5) else None,
           "linklocal": rng.chance(0.3), "sleeping": rng.chance(0.2) and not mixed,
           "ttl": rng.choice([10, 120, 4500])}
    if hostile is None:
        hostile = rng.chance(0.2)
    if hostile:
        make_hostile(rng, dev)
    return dev


def svc_records(dev, s, with_ptr=True, with_a=True):
    full = ["svc", s["inst"], s["type"]]
    host = ["host", dev["host"]]
    recs = []
    if with_ptr:
        recs.append(["P", ["typ", s["type"]], dev["ttl"], full])
    recs.append(["S", full, dev["ttl"], s["port"], host])
    if dev["linklocal"] and with_a:
        recs.append(["A", host, dev["ttl"], dev["addr"], True])
    if with_a:
        recs.append(["A", host, dev["ttl"], dev["addr"], False])
    if s["props"]:
        recs.append(["T", full, dev["ttl"], s["props"]])
    if dev["info"]:
        recs.append(["T", ["svc", dev["name"], T_DEVINFO], dev["ttl"], [["model", dev["info"]]]])
    return recs


def unrequested_records(dev, rng):
    t = rng.choice(UNREQ)
    s = {"type": t, "inst": "Cast%d" % dev["addr"], "port": 8009, "props": [("id", "cast%d" % dev["addr"]), ("md", "Chromecast")]}
    d = dict(dev, info=None)
    return svc_records(d, s)


def device_datagrams_m(dev, rng, want):
    """Multicast: the device's records spread over `want`-ish datagrams (every service complete in one)."""
    groups = [[s] for s in dev["services"]]
    while len(groups) > max(1, want):
        i = rng.randrange(len(groups) - 1)
        groups[i:i + 2] = [groups[i] + groups[i + 1]]
    out = []
    # the host's A record need not be repeated in every datagram (it is in at least one)
    with_a = [rng.chance(0.6) for _ in groups]
    with_a[rng.randrange(len(groups))] = True
    for g, wa in zip(groups, with_a):
        recs = []
        for s in g:
            for r in svc_records(dev, s, with_a=wa):
                if r not in recs:
                    recs.append(r)
        out.append(recs)
    if dev["sleeping"]:
        out.append([["P", ["typ", s["type"]], dev["ttl"], ["svc", s["inst"], s["type"]]] for s in dev["services"][:2]])
    return out


def gen_case_m(rng, ndev, budget, protoset=None):
    devs = [gen_device(rng, i) for i in range(ndev)]
    dgrams, tag = [], 0
    for dev in devs:
        for recs in device_datagrams_m(dev, rng, rng.randint(1, max(1, budget // ndev))):
            dgrams.append({"src": dev["addr"], "tag": tag, "recs": recs})
            tag += 1
    return {"mode": "m", "protoset": protoset, "hosts": [], "enc": rng.choice(["r", "c"]),
            "dgrams": dgrams, "absent": [d["addr"] for d in devs if d["expect_absent"]], "consistent": True}


def gen_case_u(rng, ndev, protoset=None, short=False):
    """Unicast: every host answers each of the nq queries with exactly one datagram (possibly empty)."""
    from pyatv.core import mdns
    from pyatv.support import dns
    nq = len(mdns.create_service_queries(make_scanner(protoset).services, dns.QueryType.PTR))
    devs = [gen_device(rng, i) for i in range(ndev)]
    dgrams = []
    for dev in devs:
        buckets = [[] for _ in range(nq)]
        with_a = [rng.chance(0.6) for _ in range(nq)]
        placed = set()
        for s in dev["services"]:
            for b in rng.sample(range(nq), rng.choice([1, 1, 2]) if nq > 1 else 1):   # query chunks overlap
                placed.add(b)
                for r in svc_records(dev, s, with_a=with_a[b]):
                    if r not in buckets[b]:
                        buckets[b].append(r)
        if not any(with_a[b] for b in placed):
            b = sorted(placed)[0]
            buckets[b].append(["A", ["host", dev["host"]], dev["ttl"], dev["addr"], False])
        if rng.chance(0.3):
            buckets[rng.randrange(nq)] += unrequested_records(dev, rng)
        keep = range(nq - 1) if short and dev is devs[0] else range(nq)
        for q in keep:
            dgrams.append({"src": dev["addr"], "tag": q, "recs": buckets[q]})
    hosts = [d["addr"] for d in devs] + ([9] if rng.chance(0.2) else [])
    return {"mode": "u", "protoset": protoset, "hosts": hosts, "enc": rng.choice(["r", "c"]), "dgrams": dgrams,
            "absent": [d["addr"] for d in devs if d["expect_absent"]], "consistent": True}


def gen_case_mixed(rng, mode, nsvc):
    """Devices mixing services with and without identifier, ONE datagram per service, so that the
    permutations of the datagrams realise every order of the parser table / of `found_device.services`.
    A second host that only has identifier-less services may answer too (must never be returned)."""
    from pyatv.core import mdns
    from pyatv.support import dns
    dev = gen_device(rng, 0, mixed=True, nsvc=nsvc)
    devs = [dev]
    if rng.chance(0.4):
        lone = gen_device(rng, 1, mixed=False, nsvc=1)
        lone["services"] = [{"type": T_COMPANION, "inst": lone["name"], "port": 7021, "props": [("rpFl", "0x36782")]}]
        lone["expect_absent"], lone["sleeping"] = True, False
        devs.append(lone)
    dgrams = []
    if mode == "m":
        for d in devs:
            for s in d["services"]:
                dgrams.append({"src": d["addr"], "tag": len(dgrams), "recs": svc_records(d, s)})
        hosts, protoset = [], None
    else:
        protoset = None
        nq = len(mdns.create_service_queries(make_scanner(protoset).services, dns.QueryType.PTR))
        for d in devs:
            buckets = [[] for _ in range(nq)]
            where = list(range(nq))
            rng.shuffle(where)
            for k, s in enumerate(d["services"]):
                buckets[where[k % nq]] += [r for r in svc_records(d, s) if r not in buckets[where[k % nq]]]
            for q in range(nq):
                dgrams.append({"src": d["addr"], "tag": q, "recs": buckets[q]})
        hosts = [d["addr"] for d in devs]
    return {"mode": mode, "protoset": protoset, "hosts": hosts, "enc": rng.choice(["r", "c"]), "dgrams": dgrams,
            "absent": [d["addr"] for d in devs if d["expect_absent"]],
            "present": [d["addr"] for d in devs if not d["expect_absent"]], "consistent": True}


PROTO_TYPES = {1: [T_TOUCH, T_ATV2, T_HSCP], 2: [T_MRP], 3: [T_AIRPLAY], 4: [T_COMPANION], 5: [T_RAOP, T_AIRPORT]}


def layout(rng, mode, devs, protoset):
    """One datagram per service (multicast) / the services spread over the answers to the nq queries (unicast)."""
    from pyatv.core import mdns
    from pyatv.support import dns
    dgrams = []
    if mode == "m":
        for d in devs:
            for s in d["services"]:
                dgrams.append({"src": d["addr"], "tag": len(dgrams), "recs": svc_records(d, s)})
        return dgrams, []
    nq = len(mdns.create_service_queries(make_scanner(protoset).services, dns.QueryType.PTR))
    for d in devs:
        buckets = [[] for _ in range(nq)]
        where = list(range(nq))
        rng.shuffle(where)
        for k, s in enumerate(d["services"]):
            b = buckets[where[k % nq]]
            b += [r for r in svc_records(d, s) if r not in b]
        for q in range(nq):
            dgrams.append({"src": d["addr"], "tag": q, "recs": buckets[q]})
    return dgrams, [d["addr"] for d in devs]


def gen_case_filtered(rng, mode, i):
    """scan(protocol=...): devices announce services of requested AND of filtered-out protocols (those
    carry model / deviceid / properties of their own)."""
    protoset = [[2], [4], [3], [5], [1], [2, 4], [3, 5]][i % 7]
    wanted = [t for p in protoset for t in PROTO_TYPES[p]]
    devs = []
    for k in range(1 + i % 2):
        for _ in range(50):
            d = gen_device(rng, k, allow_noid=False, mixed=False, nsvc=rng.randint(3, 4) if mode == "m" and k == 0 else 2,
                           hostile=False)
            types = [s["type"] for s in d["services"]]
            if any(t in wanted for t in types) and any(t not in wanted and t in (T_AIRPLAY, T_RAOP, T_COMPANION, T_HSCP)
                                                        for t in types):
                break
        d["sleeping"] = False
        devs.append(d)
    dgrams, hosts = layout(rng, mode, devs, protoset)
    return {"mode": mode, "protoset": protoset, "hosts": hosts, "enc": rng.choice(["r", "c"]), "dgrams": dgrams,
            "absent": [], "consistent": True}


def gen_case_undecodable(rng, mode, i):
    """Self-consistent devices one of whose datagrams pyatv cannot decode (value-less non-ASCII TXT attribute,
    or a truncated datagram); it may arrive at any position, also repeated."""
    devs = []
    for k in range(1 + i % 2):
        d = gen_device(rng, k, allow_noid=False, mixed=False, nsvc=rng.randint(2, 3) if k == 0 else rng.randint(1, 2),
                       hostile=False)
        d["sleeping"] = False
        devs.append(d)
    protoset = None if mode == "m" else [[3, 5], [1], None][i % 3]
    dgrams, hosts = layout(rng, mode, devs, protoset)
    how = "cut" if i % 3 == 2 else "txt"
    if mode == "m":
        mine = [d for d in dgrams if d["src"] == devs[0]["addr"]]
        victim = rng.choice(mine)
        victim["bad"] = how
        if how == "txt":
            victim["recs"] = [(["X"] + r[1:3] + [r[3]]) if r[0] == "T" and r[1][0] == "svc" and r[1][2] != T_DEVINFO else r
                              for r in victim["recs"]]
            if not any(r[0] == "X" for r in victim["recs"]):
                victim["recs"].append(["X", victim["recs"][1][1], 120, []])
    else:
        # the host answers every query properly and sends one more datagram that cannot be decoded
        src = devs[0]["addr"]
        nq = max(d["tag"] for d in dgrams) + 1
        s0 = devs[0]["services"][0]
        recs = svc_records(devs[0], s0)
        recs = [(["X"] + r[1:3] + [r[3]]) if r[0] == "T" and r[1][2] != T_DEVINFO else r for r in recs]
        if not any(r[0] == "X" for r in recs):
            recs.append(["X", ["svc", s0["inst"], s0["type"]], 120, []])
        dgrams.append({"src": src, "tag": nq, "recs": recs, "bad": how})
    return {"mode": mode, "protoset": protoset, "hosts": hosts, "enc": rng.choice(["r", "c"]), "dgrams": dgrams,
            "absent": [], "consistent": True}


def strip_unrequested(desc):
    """The same scan in which the answers for service types that were not requested never arrive.
    Requested = the service types `pyatv.scan` is specified to register for the chosen protocols.
    Returns None when an answer mixes requested and unrequested services in a multicast datagram
    (the multicast protocol then drops the whole datagram; there is no 'same scan without')."""
    req = {TYPES.index(t) for t in make_scanner(desc.get("protoset")).services}

    def rtype(r):
        n = r[1]
        if n[0] == "svc":
            return n[2]
        if n[0] == "typ":
            return n[1]
        return None

    out = json.loads(json.dumps(desc))
    changed = False
    if desc["mode"] == "m":
        keep = []
        for d in out["dgrams"]:
            types = {rtype(r) for r in d["recs"]} - {None, T_DEVINFO}
            if d.get("bad") or not types or types <= req:
                keep.append(d)
            elif types & req:
                return None
            else:
                changed = True
        out["dgrams"] = keep
    else:
        for d in out["dgrams"]:
            recs = [r for r in d["recs"] if rtype(r) is None or rtype(r) in req]
            changed = changed or len(recs) != len(d["recs"])
            d["recs"] = recs
    return out if changed else None


def reference_check(ctx, rng, desc, orders):
    """Answers for service types that were not requested are ignored: every delivery order of the full scan
    must give what the scan gives when those answers never arrive."""
    stripped = strip_unrequested(desc)
    if stripped is None:
        return
    ref_case = Case(stripped)
    ref, _ = ref_case.real(list(range(len(stripped["dgrams"]))))
    want = oracle_snapshot(ref)
    full = Case(desc)
    ctx.note("reference-check")
    for o in orders:
        res, _ = full.real(o)
        ctx.case(["reference", desc["mode"], desc["dgrams"], desc.get("protoset"), o], True)
        got = oracle_snapshot(res)
        if got != want:
            ctx.fail("%s:unrequested-type-not-ignored" % desc["mode"], {"desc": desc, "without": stripped, "order": o},
                     repr(got)[:600], repr(want)[:600],
                     "answers for a service type that was not requested changed the scan result")
            break


def identifier_cases(ctx, rng):
    """scan(identifier=...), multicast, inside what the known finding leaves: every source sends fewer
    datagrams than there are queries and nothing is repeated, so the early exit cannot trigger.  Not modelled;
    direct oracle only: the same configurations for every arrival order."""
    for i in range(ctx.scale(3, 10)):
        r = rng.fork("ident", i)
        devs = []
        for k in range(2 + i % 2):
            d = gen_device(r, k, allow_noid=False, mixed=(k == 0), nsvc=r.randint(2, 3), hostile=False)
            d["sleeping"] = False
            d["services"] = d["services"][:3]
            devs.append(d)
        dgrams, _ = layout(r, "m", devs, None)
        desc = {"mode": "m", "protoset": None, "hosts": [], "enc": r.choice(["r", "c"]), "dgrams": dgrams,
                "absent": [], "consistent": True}
        c = Case(desc)
        if c.nq <= 3:
            continue
        base = list(range(len(dgrams)))
        plain = run_real("m", None, [], [(dgrams[j]["src"], c.wire[j]) for j in base])
        ids = sorted({x for cfg in plain["configs"] for x in cfg.all_identifiers if x})
        if not ids:
            continue
        ident = r.choice(ids)
        desc["identifier"] = ident
        orders = orders_for(r, len(base), 4, ctx.scale(10, 30), 0)
        ref = None
        for o in orders:
            res = run_real("m", None, [], [(dgrams[j]["src"], c.wire[j]) for j in o], identifier=ident)
            snap = oracle_snapshot(res)
            ctx.note("identifier-scan")
            ctx.case(["identifier", dgrams, ident, o], bool(res["configs"]) and o != base)
            if ref is None:
                ref = snap
            elif snap != ref:
                ctx.fail("m:identifier-scan-order-changes-result", {"desc": desc, "order": o, "reference_order": orders[0]},
                         repr(snap)[:600], repr(ref)[:600],
                         "scan(identifier=...) below the early-exit threshold: snapshot differs between arrival orders")
                break


def gen_case_lookalikes(rng, mode, i):
    """Two or three DIFFERENT devices at different addresses that share what is not an identifier: the name
    (factory-named units), the model, ports, instance names (or only their suffix after mDNS renaming) and the
    TXT content except the identifier.  One configuration per address, each with its own services, in every
    arrival order."""
    n = 2 + (i % 3 == 2)
    name = ["Apple TV", "HomePod", "Living Room"][i % 3]
    nsvc = rng.randint(2, 3) if n == 2 else 2
    devs = []
    for k in range(n):
        # the same random stream for every unit: same service types, same optional properties, same model
        d = gen_device(rng.fork("unit"), k, allow_noid=False, mixed=(i % 4 == 3), nsvc=nsvc, hostile=False,
                       name=name, look=0, renamed=(i % 2 == 1 and k > 0))
        d["sleeping"] = False
        if i % 5 == 4 and k == 1:
            d["info"] = "J42dAP" if d["info"] != "J42dAP" else "J105aAP"     # another hardware generation
        devs.append(d)
    protoset = None if mode == "m" else [None, [3, 5], [2, 4]][i % 3]
    dgrams, hosts = layout(rng, mode, devs, protoset)
    return {"mode": mode, "protoset": protoset, "hosts": hosts, "enc": rng.choice(["r", "c"]), "dgrams": dgrams,
            "absent": [d["addr"] for d in devs if d["expect_absent"]], "consistent": True}


def gen_case_inconsistent(rng, mode):
    """Correspondence only: contradictory records (exercise first-wins / last-wins / merge order)."""
    desc = gen_case_m(rng, rng.randint(1, 2), 4) if mode == "m" else gen_case_u(rng, rng.randint(1, 2))
    desc["consistent"] = False
    desc["absent"] = []
    ds = desc["dgrams"]
    for _ in range(rng.randint(1, 3)):
        d = rng.choice(ds)
        cands = [r for dd in ds if dd["src"] == d["src"] for r in dd["recs"]]
        if not cands:
            continue
        r = json.loads(json.dumps(rng.choice(cands)))
        what = rng.randrange(6)
        if r[0] == "S" and what < 3:
            r[3] += 1                                   # second SRV with another port
        elif r[0] == "T":
            r[3] = r[3][:-1] + [["late", "x%d" % rng.randint(0, 1)]] if what % 2 else [[k, v + "!"] for k, v in r[3]]
        elif r[0] == "A":
            r[3] = r[3] + 20                            # second routable address
        elif r[0] == "P" and what == 0:
            r = ["T", ["typ", r[1][1]], r[2], [["odd", "1"]]]    # TXT on a bare service type (instance None)
        elif r[0] == "P":
            r[3] = ["svc", "Ghost%d" % rng.randint(0, 1), r[1][1]]   # PTR to an unknown instance
        else:
            r = ["O", r[1], r[2], 47, rng.randint(0, 3)]
        rng.choice([dd for dd in ds if dd["src"] == d["src"]])["recs"].insert(rng.randint(0, 2), r)
    return desc


def duplications(rng, order, k):
    """`k` variants of `order` with some datagrams delivered again at arbitrary later/earlier positions."""
    out = []
    for _ in range(k):
        o = list(order)
        for _ in range(rng.randint(1, 3)):
            o.insert(rng.randint(0, len(o)), rng.choice(order))
        out.append(o)
    return out


def orders_for(rng, n, full_upto, samples, dups):
    base = list(range(n))
    if n <= full_upto:
        perms = [list(p) for p in itertools.permutations(base)]
    else:
        perms = [base, base[::-1]]
        while len(perms) < samples:
            p = base[:]
            rng.shuffle(p)
            perms.append(p)
    out = list(perms)
    for p in (perms if len(perms) <= 24 else rng.sample(perms, 24)):
        out += duplications(rng, p, dups)
    return out


# --------------------------------------------------------------------------------------
# evaluation
# --------------------------------------------------------------------------------------
def evaluate(ctx, desc, orders, label):
    """Run one case under every delivery order on the real code and on the model."""
    case = Case(desc)
    n = len(desc["dgrams"])
    reals = [case.real(o) for o in orders]
    answers = ctx.lean([case.line(o) for o in orders])
    ref = oracle_snapshot(reals[0][0])
    base = list(range(n))
    for o, (res, shown), ans in zip(orders, reals, answers):
        ctx.note("mode:" + desc["mode"])
        ctx.note("datagrams:%d" % n)
        ctx.note("delivered:%d" % len(o))
        ctx.note("kind:" + label)
        if res["error"]:
            ctx.note("real-error:" + res["error"])
        dup = len(o) != len(set(o))
        returned = bool(res["configs"])
        ctx.note("returned:%d" % len(res["configs"]))
        ctx.case([desc["mode"], desc["dgrams"], desc.get("protoset"), o],
                 n >= 2 and returned and (o != base or dup),
                 sample={"mode": desc["mode"], "order": o, "datagrams": n, "snapshot": repr(oracle_snapshot(res))[:300]})
        # correspondence
        model = parse_answer(ans)
        small = {"mode": desc["mode"], "order": o, "desc": desc}
        if model is None:
            ctx.disagree(small, shown, ans, where="driver answer")
        else:
            for field in ("resp", "raw", "snap"):
                if shown[field] is not None and shown[field] != model[field]:
                    ctx.disagree(small, shown[field], model[field], where=field)
                    break
            if desc["consistent"] and (model["sc"] != "1" or model["opq"] != "1"):
                ctx.disagree(small, "generated self-consistent", "sc=%s opq=%s" % (model["sc"], model["opq"]),
                             where="hypotheses of the theorems")
            if case.services is not None and res["services"] is not None and res["services"] != case.services:
                ctx.disagree(small, res["services"], case.services, where="registered services")
        ctx.validated()
        # direct oracle
        if not desc["consistent"]:
            continue
        failcase = {"desc": desc, "order": o, "reference_order": orders[0]}
        snap = oracle_snapshot(res)
        if snap != ref:
            kind = "duplication" if dup else "order"
            ctx.fail("%s:%s-changes-result" % (desc["mode"], kind), failcase, repr(snap)[:600], repr(ref)[:600],
                     "snapshot differs from the one of the reference delivery order")
        if not res["error"]:
            addrs = [str(c.address) for c in res["configs"]]
            if len(addrs) != len(set(addrs)):
                ctx.fail("%s:two-configs-one-address" % desc["mode"], failcase, addrs, "distinct addresses",
                         "more than one configuration for an address")
            for c in res["configs"]:
                if not any(s.identifier for s in c.services) or int(str(c.address).split(".")[-1]) in desc["absent"]:
                    ctx.fail("%s:no-identifier-returned" % desc["mode"], failcase, str(c.address), "not returned",
                             "a device without identifier was returned")
    return case, reals


def unrequested_check(ctx, rng, desc):
    """Answers for unrequested service types: the same scan with and without them."""
    extra = json.loads(json.dumps(desc))
    srcs = sorted({d["src"] for d in desc["dgrams"]})
    if desc["mode"] == "m":
        for s in rng.sample(srcs, min(len(srcs), 2)):
            dev = {"addr": s, "host": s, "ttl": 120, "linklocal": False, "info": None, "name": "Dev%d" % s}
            extra["dgrams"].insert(rng.randint(0, len(extra["dgrams"])),
                                   {"src": s, "tag": 90 + s, "recs": unrequested_records(dev, rng)})
        stripped = desc
    else:
        stripped = json.loads(json.dumps(desc))
        for d in stripped["dgrams"]:
            d["recs"] = [r for r in d["recs"] if not (r[1][0] == "svc" and r[1][2] in UNREQ)
                         and not (r[0] == "P" and r[1][1] in UNREQ)]
        for d in extra["dgrams"][:2]:
            dev = {"addr": d["src"], "host": d["src"], "ttl": 120, "linklocal": False, "info": None, "name": "Dev%d" % d["src"]}
            d["recs"] = d["recs"] + unrequested_records(dev, rng)
    a, b = Case(extra), Case(stripped)
    ra, _ = a.real(list(range(len(extra["dgrams"]))))
    rb, _ = b.real(list(range(len(stripped["dgrams"]))))
    ctx.note("unrequested-check")
    ctx.case(["unreq", extra["dgrams"]], True)
    if oracle_snapshot(ra) != oracle_snapshot(rb):
        ctx.fail("%s:unrequested-type-not-ignored" % desc["mode"], {"desc": extra, "without": stripped,
                                                                    "order": list(range(len(extra["dgrams"])))},
                 repr(oracle_snapshot(ra))[:600], repr(oracle_snapshot(rb))[:600],
                 "answers for an unrequested service type changed the scan result")
    for c in (ra["configs"] if not ra["error"] else []):
        for s in c.services:
            if any("cast" in v.lower() for v in s.properties.values()):
                ctx.fail("%s:unrequested-type-in-result" % desc["mode"], {"desc": extra, "order": list(range(len(extra["dgrams"])))},
                         dict(s.properties), "absent", "a service of an unrequested type reached a configuration")


def known_witness():
    """The witness of `unicast_excess_counterexample`: one query (scan restricted to MRP), two distinct
    response datagrams from the host - an empty answer and a complete one."""
    dev = {"addr": 1, "host": 1, "ttl": 120, "linklocal": False, "info": None, "name": "Dev1", "services": []}
    mrp = {"type": T_MRP, "inst": "Dev1", "port": 49152, "props": [("Name", "Dev1"), ("UniqueIdentifier", "MRP-1")]}
    dgrams = [{"src": 1, "tag": 0, "recs": []}, {"src": 1, "tag": 1, "recs": svc_records(dev, mrp)}]
    return {"mode": "u", "protoset": [2], "hosts": [1], "enc": "r", "dgrams": dgrams, "absent": [], "consistent": True}


KNOWN_SIG_IDENT = "multicast-identifier:early-exit-after-len(queries)-datagrams"


def identifier_witness(ctx):
    """Outside the model (scan *with* identifier): the multicast protocol aborts as soon as a source has sent
    len(queries) datagrams and the wanted identifier was seen - later datagrams of that device are lost."""
    dev = {"addr": 1, "host": 1, "ttl": 120, "linklocal": False, "info": None, "name": "Dev1"}
    svcs = [
        {"type": T_MRP, "inst": "Dev1", "port": 49152, "props": [("Name", "Dev1"), ("UniqueIdentifier", "MRP-1")]},
        {"type": T_AIRPLAY, "inst": "Dev1", "port": 7000, "props": [("deviceid", "AA:BB:CC:00:00:01")]},
        {"type": T_COMPANION, "inst": "Dev1", "port": 7001, "props": [("rpMRtID", "CID-1"), ("rpFl", "0x36782")]},
        {"type": T_RAOP, "inst": "AABBCC000001@Dev1", "port": 7002, "props": [("tp", "UDP")]},
        {"type": T_TOUCH, "inst": "DMAP0001_t", "port": 3689, "props": [("CtlN", "Dev1")]},
    ]
    desc = {"mode": "m", "protoset": None, "hosts": [], "enc": "r", "absent": [], "consistent": True,
            "identifier": "MRP-1",
            "dgrams": [{"src": 1, "tag": i, "recs": svc_records(dev, s)} for i, s in enumerate(svcs)]}
    c = Case(desc)
    first, other = [0, 1, 2, 3, 4], [4, 0, 1, 2, 3]
    snaps = []
    for o in (first, other):
        res = run_real("m", None, [], [(1, c.wire[i]) for i in o], identifier="MRP-1")
        snaps.append(oracle_snapshot(res))
        ctx.case(["identifier-witness", o], True)
    if snaps[0] != snaps[1]:
        ctx.fail(KNOWN_SIG_IDENT, {"desc": desc, "order": other, "reference_order": first},
                 repr(snaps[1])[:400], repr(snaps[0])[:400],
                 "scan(identifier=...) returns different services for different arrival orders")


def run(ctx, only=None):
    rng = ctx.rng
    full = ctx.scale(5, 6)
    samples = ctx.scale(12, 40)
    ncases = ctx.scale(8, 30)
    if only is not None:
        desc, orders = only
        evaluate(ctx, desc, orders, "replay")
        return

    # 1. multicast, self-consistent devices
    for i in range(ncases):
        r = rng.fork("m", i)
        ndev = 1 + i % 4
        protoset = [3, 5] if i % 5 == 4 else None                # scan(protocol={AirPlay, RAOP}) now and then
        desc = gen_case_m(r, ndev, r.randint(ndev, full + (2 if i % 3 == 2 else 0)), protoset)
        n = len(desc["dgrams"])
        evaluate(ctx, desc, orders_for(r, n, full, samples, 2), "consistent")
        unrequested_check(ctx, r, desc)
        if protoset:
            reference_check(ctx, r, desc, [list(range(n)), list(range(n))[::-1]])
    # 2. unicast, one response per query
    for i in range(ncases):
        r = rng.fork("u", i)
        ndev = 1 + i % 3
        protoset = [3, 5] if i % 3 == 1 else ([1] if i % 3 == 2 else None)   # nq = 2 / 1 / 4
        desc = gen_case_u(r, ndev, protoset, short=(i % 4 == 3))
        n = len(desc["dgrams"])
        evaluate(ctx, desc, orders_for(r, n, full, samples, 2), "consistent")
        unrequested_check(ctx, r, desc)
        if protoset:
            reference_check(ctx, r, desc, [list(range(n)), list(range(n))[::-1]])
    # 2b. devices mixing services with and without identifier, one datagram per service: every order of
    #     the parser table / of the found device's service list
    for i in range(ctx.scale(6, 24)):
        r = rng.fork("mix", i)
        mode = "mmu"[i % 3]
        desc = gen_case_mixed(r, mode, 2 + i % 4 if mode == "m" else 2 + i % 3)
        n = len(desc["dgrams"])
        evaluate(ctx, desc, orders_for(r, n, full, samples * 2, 1), "mixed-identifiers")
    # 2c. self-consistent devices whose TXT values make an extractor / service_info raise, among ordinary ones
    for i in range(ctx.scale(6, 24)):
        r = rng.fork("hostile", i)
        desc = gen_case_hostile(r, "mmu"[i % 3], i)
        n = len(desc["dgrams"])
        evaluate(ctx, desc, orders_for(r, n, full, samples * 2, 1), "hostile-values")
    # 2d. scans restricted by protocol: invariance, and the scan without the unrequested answers as reference
    for i in range(ctx.scale(7, 21)):
        r = rng.fork("filtered", i)
        desc = gen_case_filtered(r, "mmu"[i % 3], i)
        n = len(desc["dgrams"])
        orders = orders_for(r, n, min(full, 4), 10, 1)
        evaluate(ctx, desc, orders, "protocol-filter")
        reference_check(ctx, r, desc, orders[:3] + orders[-2:])
    # 2e. one datagram the decoder rejects, at every position
    for i in range(ctx.scale(6, 18)):
        r = rng.fork("undecodable", i)
        desc = gen_case_undecodable(r, "mmu"[i % 3], i)
        n = len(desc["dgrams"])
        evaluate(ctx, desc, orders_for(r, n, min(full, 5), samples, 1), "undecodable-datagram")
    # 2g. look-alike devices: everything but the identifiers (and addresses) in common
    for i in range(ctx.scale(6, 18)):
        r = rng.fork("lookalike", i)
        desc = gen_case_lookalikes(r, "mmu"[i % 3], i)
        n = len(desc["dgrams"])
        evaluate(ctx, desc, orders_for(r, n, min(full, 5), samples, 1), "lookalike-devices")
    # 2f. identifier-restricted scans below the early-exit threshold (oracle only)
    identifier_cases(ctx, rng)
    # 3. contradictory data: correspondence only
    for i in range(ctx.scale(10, 40)):
        r = rng.fork("x", i)
        desc = gen_case_inconsistent(r, "mu"[i % 2])
        n = len(desc["dgrams"])
        evaluate(ctx, desc, orders_for(r, n, min(full, 4), 8, 1), "inconsistent")
    identifier_witness(ctx)
    w = known_witness()
    case = Case(w)
    nq = case.nq
    # 4. known limitation: more distinct datagrams than queries -> order dependent (counterexample theorem)
    if nq != 1:
        ctx.disagree({"witness": "nq"}, nq, 1, where="number of queries of an MRP-only scan")
    first, last = [0, 1], [1, 0]
    (ra, sa), (rb, sb) = case.real(first), case.real(last)
    answers = ctx.lean([case.line(first), case.line(last)])
    for (res, shown), ans, o in (((ra, sa), answers[0], first), ((rb, sb), answers[1], last)):
        model = parse_answer(ans)
        ctx.case(["witness", o], True)
        ctx.validated()
        if model is None or any(shown[f] != model[f] for f in ("resp", "raw", "snap")) or model["opq"] != "0":
            ctx.disagree({"witness": o}, shown, ans, where="excess-response witness")
    if oracle_snapshot(ra) != oracle_snapshot(rb):
        ctx.fail(KNOWN_SIG, {"desc": w, "order": last, "reference_order": first},
                 repr(oracle_snapshot(rb))[:400], repr(oracle_snapshot(ra))[:400],
                 "a unicast host sending more distinct response datagrams than queries is reported order-dependently")


def widen(ctx):
    run(ctx)


def replay(ctx, failure):
    case = failure["case"]
    desc = case["desc"]
    c2 = type(ctx)(ctx.prop, ctx.tier, ctx.seed, ctx.driver.driver_rel)
    if "without" in case:
        a, b = Case(desc), Case(case["without"])
        ra, _ = a.real(case["order"])
        rb, _ = b.real(list(range(len(case["without"]["dgrams"]))))
        return oracle_snapshot(ra) != oracle_snapshot(rb)
    orders = [case.get("reference_order", list(range(len(desc["dgrams"])))), case["order"]]
    c = Case(desc)
    snaps = []
    for o in orders:
        if desc.get("identifier"):
            res = run_real("m", desc.get("protoset"), [], [(desc["dgrams"][i]["src"], c.wire[i]) for i in o],
                           identifier=desc["identifier"])
        else:
            res, _ = c.real(o)
        snaps.append(oracle_snapshot(res))
        if not res["error"]:
            addrs = [str(x.address) for x in res["configs"]]
            if len(addrs) != len(set(addrs)):
                return True
            for x in res["configs"]:
                if not any(s.identifier for s in x.services) or int(str(x.address).split(".")[-1]) in desc.get("absent", []):
                    return True
    return snaps[0] != snaps[1]
