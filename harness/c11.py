"""C11 — correspondence + direct oracle for the MRP now-playing state manager.

Real code driven (in-process, nothing of it replaced):
  * real protobuf `ProtocolMessage`s built with pyatv.protocols.mrp.messages.create, filled
    generically from a field tree through the protobuf descriptors, and round-tripped through
    SerializeToString/FromString (what the connection would hand over),
  * a real `MrpProtocol` (it *is* the `MessageDispatcher`) with a stub connection; messages
    enter through `MrpProtocol.message_received` exactly as `MrpConnection` delivers them,
  * the real `PlayerStateManager` (it registers its eight handlers with `listen_to`),
  * the real `MrpMetadata.playing()` / `.app`,
  * the real `MrpPushUpdater` (started with `start()`, fed by every wake-up) with a recording
    `PushListener` behind it,
  * `Playing.__init__/_post_process` for the clamping grid.
Only fakes: the connection object, the listener proxy on `psm.listener` (it samples
`metadata.playing()`/`.app` INSIDE `state_updated()` — the state as seen by a listener at the
moment it is woken — and then forwards to the real `MrpPushUpdater.state_updated`), the push
listener, a frozen `datetime.datetime.now()` inside pyatv.protocols.mrp.

A message is `M(kind, spec)`: `spec` is the inner protobuf message as a tree
{field name: value | sub-tree | [elements]} in which an absent key means "field not set"
(proto2 presence).  Which fields exist is read from the protobuf descriptors (`Schema`); the
generators vary the presence of every optional field independently of its value, and set
fields the model does not know about as noise.  `M.n` is the property-level reading of the
message (unset = proto2 default) used by the reference; `wire(M)` carries value AND presence to
the Lean driver, where `WMsg.decode` (Model.lean) says what an unset field means.

Comparisons per step:
  impl  vs  Lean model `run`  (correspondence: woken?, the report SEEN AT THE WAKE-UP, and every
                               reported field after the message),
  Lean `spec` vs Lean model   (sanity of the refinement theorem's two sides on the same input),
  impl  vs  `Ref` below       (direct oracle: a Python reference of the now-playing rules written
                               from the property text; independent of the Lean files), plus
  "the last state a listener observed when woken == the state reported after the message" and
  "the last Playing the real MrpPushUpdater delivered == the Playing reported after the message".
"""
import asyncio
import hashlib
import itertools
import json

RULE = ("message sequences over 2 clients x 3 players (default + 2; plus unset/empty client and player "
        "identifiers) x the 8 message kinds: (a) exhaustive over a small explicit-payload alphabet up to a "
        "tier-dependent length modulo renaming, from the initial state and after four warm-up histories; "
        "(b) exhaustive proto2-presence families enumerated from the protobuf descriptors (every optional field "
        "the handlers read: unset vs default-valued vs other values, in one- and two-message combinations on the "
        "reported player); (c) sampled longer sequences from ctx.rng with independent presence per field and "
        "noise in fields the model ignores; (d) the position cases and sampled histories under four process "
        "timezones x five offsets between elapsedTimeTimestamp and the frozen instant; (e) populations of up to "
        "14 clients / 14 players alive at once (deterministic ladders + sampled); (f) bursts: groups of 2-4 messages "
        "dispatched back to back while the listener stays suspended in state_updated() (all pairs of the reduced "
        "alphabet after each warm-up history, sampled histories cut into random groups); plus the full grid of "
        "Playing(position, total_time). non-trivial = "
        "the sequence changes the reported view at least twice or removes a client/player that was being "
        "reported; distinct = the sequence itself")
ASSUMPTIONS = [
    "wall clock frozen (datetime.datetime.now inside pyatv.protocols.mrp returns fromtimestamp(frozen instant) in the process timezone in force) so that position is a function of the messages and of that instant; POSIX TZ strings without DST rules",
    "float-valued metadata (playbackRate, duration, elapsedTime, elapsedTimeTimestamp) takes integer values; durations are >= 0 (negative durations are outside the property's domain, DESIGN §8)",
    "PlaybackQueue.location >= 0",
    "a listener is installed on the PlayerStateManager for the whole run",
]
TRUSTED = ["stub connection + sampling listener proxy + recording push listener + frozen clock of harness/c11.py",
           "protobuf (de)serialisation", "asyncio task scheduling of MessageDispatcher.dispatch"]

NOW_UNIX = 1_700_000_000
COCOA_DELTA = 978307200
NOW = NOW_UNIX - COCOA_DELTA

KINDS = "SUCPNXRD"
INNER_FIELD = {"S": "playerPath", "U": "playerPath", "P": "playerPath", "R": "playerPath", "D": "playerPath",
               "C": "client", "N": "client", "X": "client"}


# ----------------------------------------------------------------------------- messages
def _code(s, prefix):
    if s is None:
        return None
    if s == "":
        return 0
    if s.startswith(prefix) and s[len(prefix):].isdigit():
        return int(s[len(prefix):])
    return "?" + s


def _opt(x):
    return "_" if x is None else str(x)


def _int(x):
    return None if x is None else int(x)


class M:
    """One message: kind + inner-message field tree (absent key = field not set)."""
    __slots__ = ("kind", "spec", "key", "n")
    default_id = None          # set by Real()
    cmd_defaults = (0, 0, 0)   # proto2 defaults of CommandInfo.command/shuffleMode/repeatMode (set by Real())

    def __init__(self, kind, spec):
        self.kind, self.spec = kind, spec
        self.key = kind + json.dumps(spec, sort_keys=True, separators=(",", ":"))
        self.n = self._normalise()

    def __eq__(self, other):
        return isinstance(other, M) and self.key == other.key

    def __hash__(self):
        return hash(self.key)

    def __repr__(self):
        return self.key

    def json(self):
        return [self.kind, self.spec]

    # -- the parts the handlers look at --------------------------------------------------
    def client(self):
        if self.kind in "CNX":
            return self.spec.get("client", {})
        return self.spec.get("playerPath", {}).get("client", {})

    def player(self):
        return self.spec.get("playerPath", {}).get("player", {})

    def _player_code(self):
        ident = self.player().get("identifier")
        if not ident:
            return 0
        return 1 if ident == M.default_id else _code(ident, "p") + 2

    @staticmethod
    def _item(it):
        md = it.get("metadata", {})
        title = md.get("title")
        return (_code(it.get("identifier", ""), "i"), None if title is None else _code(title, "t"),
                _int(md.get("playbackRate")), _int(md.get("duration")), _int(md.get("elapsedTime")),
                _int(md.get("elapsedTimeTimestamp")))

    @staticmethod
    def _cmds(sc):
        d = M.cmd_defaults
        return tuple((c.get("command", d[0]), c.get("shuffleMode", d[1]), c.get("repeatMode", d[2]))
                     for c in sc.get("supportedCommands", []))

    def _normalise(self):
        """Property-level reading (the old tuple form): unset fields read as their proto2 default,
        an empty display name is no display name."""
        c = self.client()
        b = _code(c.get("bundleIdentifier", ""), "com.app")
        name = _code(c.get("displayName") or None, "Name")
        k = self.kind
        if k in "CNX":
            return (k, b, name)
        p = self._player_code()
        if k in "PR":
            return (k, b, name, p)
        if k == "S":
            sp = self.spec
            cmds = self._cmds(sp["supportedCommands"]) if "supportedCommands" in sp else None
            q = None
            if "playbackQueue" in sp:
                pq = sp["playbackQueue"]
                q = (pq.get("location", 0), tuple(self._item(i) for i in pq.get("contentItems", [])))
            return (k, b, name, p, sp.get("playbackState"), cmds, q)
        if k == "U":
            return (k, b, name, p, tuple(self._item(i) for i in self.spec.get("contentItems", [])))
        if k == "D":
            return (k, b, name, p, self._cmds(self.spec.get("supportedCommands", {})))
        raise ValueError(k)


def _item_wire(it):
    md = it.get("metadata", {})
    ident = it.get("identifier")
    title = md.get("title")
    return "~".join([_opt(None if ident is None else _code(ident, "i")),
                     _opt(None if title is None else _code(title, "t")),
                     _opt(_int(md.get("playbackRate"))), _opt(_int(md.get("duration"))),
                     _opt(_int(md.get("elapsedTime"))), _opt(_int(md.get("elapsedTimeTimestamp")))])


def _cmds_wire(sc):
    cmds = sc.get("supportedCommands", [])
    if not cmds:
        return "="
    return ",".join(".".join(_opt(c.get(f)) for f in ("command", "shuffleMode", "repeatMode")) for c in cmds)


def wire(m):
    """Value and presence of every field the model knows, for the Lean driver."""
    k, sp = m.kind, m.spec
    c = m.client()
    bi, dn = c.get("bundleIdentifier"), c.get("displayName")
    b = _opt(None if bi is None else _code(bi, "com.app"))
    n = _opt(None if dn is None else _code(dn, "Name"))
    if k in "CNX":
        return ":".join([k, b, n])
    ident = m.player().get("identifier")
    p = "_" if ident is None else ("=" if ident == "" else ident)
    if k in "PR":
        return ":".join([k, b, n, p])
    if k == "S":
        cmds = _cmds_wire(sp["supportedCommands"]) if "supportedCommands" in sp else "_"
        q = "_"
        if "playbackQueue" in sp:
            pq = sp["playbackQueue"]
            q = ";".join([_opt(pq.get("location"))] + ([_item_wire(i) for i in pq.get("contentItems", [])] or ["="]))
        return ":".join([k, b, n, p, _opt(sp.get("playbackState")), cmds, q])
    if k == "U":
        items = sp.get("contentItems", [])
        return ":".join([k, b, n, p, ";".join(_item_wire(i) for i in items) if items else "="])
    if k == "D":
        return ":".join([k, b, n, p, _cmds_wire(sp.get("supportedCommands", {}))])
    raise ValueError(k)


# compact constructors: None = field not set, 0 = set to the empty string, k = a name
def _client(b, n):
    c = {}
    if b is not None:
        c["bundleIdentifier"] = "com.app%d" % b if b else ""
    if n is not None:
        c["displayName"] = "Name%d" % n if n else ""
    return c


def _path(b, n, p):
    pp = {}
    c = _client(b, n)
    if c:
        pp["client"] = c
    if p is not None:
        pp["player"] = {"identifier": "" if p == 0 else (M.default_id if p == 1 else "p%d" % (p - 2))}
    return pp


def _item_spec(ident=None, title=None, rate=None, dur=None, el=None, ts=None):
    it, md = {}, {}
    if ident is not None:
        it["identifier"] = "i%d" % ident if ident else ""
    if title is not None:
        md["title"] = "t%d" % title if title else ""
    for name, v in (("playbackRate", rate), ("duration", dur), ("elapsedTime", el), ("elapsedTimeTimestamp", ts)):
        if v is not None:
            md[name] = float(v)
    if md:
        it["metadata"] = md
    return it


def _cmd_spec(c=None, sh=None, rp=None):
    return {k: v for k, v in (("command", c), ("shuffleMode", sh), ("repeatMode", rp)) if v is not None}


def mk(kind, b, n=None, p=None, **kw):
    """M from compact arguments; payload keywords: ps, cmds (list of cmd specs), queue (loc, [item specs])
    or a ready `playbackQueue` tree, items (U), dcmds (D)."""
    if kind in "CNX":
        c = _client(b, n)
        return M(kind, {"client": c} if c else {})
    sp = {}
    pp = _path(b, n, p)
    if pp:
        sp["playerPath"] = pp
    if kind == "S":
        if kw.get("ps") is not None:
            sp["playbackState"] = kw["ps"]
        if kw.get("cmds") is not None:
            sp["supportedCommands"] = {"supportedCommands": list(kw["cmds"])} if kw["cmds"] else {}
        if kw.get("queue") is not None:
            loc, items = kw["queue"]
            pq = {}
            if loc is not None:
                pq["location"] = loc
            if items:
                pq["contentItems"] = list(items)
            sp["playbackQueue"] = pq
    elif kind == "U":
        if kw.get("items"):
            sp["contentItems"] = list(kw["items"])
    elif kind == "D":
        sp["supportedCommands"] = {"supportedCommands": list(kw["dcmds"])} if kw.get("dcmds") else {}
    return M(kind, sp)


def from_tuple(t):
    """The explicit-payload alphabet (old tuple form: 0 = unset identifier, every payload field set)."""
    k = t[0]
    b = t[1] or None
    if k in "CNX":
        return mk(k, b, t[2])
    p = t[3] or None
    if k in "PR":
        return mk(k, b, t[2], p)
    item = lambda it: _item_spec(it[0] or None, *it[1:])
    cmd = lambda c: _cmd_spec(*c)
    if k == "S":
        _, _, _, _, ps, cmds, q = t
        return mk(k, b, t[2], p, ps=ps, cmds=None if cmds is None else [cmd(c) for c in cmds],
                  queue=None if q is None else (q[0], [item(i) for i in q[1]]))
    if k == "U":
        return mk(k, b, t[2], p, items=[item(i) for i in t[4]])
    if k == "D":
        return mk(k, b, t[2], p, dcmds=[cmd(c) for c in t[4]])
    raise ValueError(k)


class Real:
    """Everything imported from the tree under test, plus message construction."""

    def __init__(self):
        import datetime as _dt

        import pyatv.protocols.mrp as mrp
        from pyatv import const, interface
        from pyatv.core import MessageDispatcher, ProtocolStateDispatcher
        from pyatv.protocols.mrp import messages, player_state
        from pyatv.protocols.mrp import protobuf as pb
        from pyatv.protocols.mrp.protobuf import CommandInfo_pb2
        from pyatv.protocols.mrp.protocol import MrpProtocol

        self.mrp, self.pb, self.messages, self.player_state = mrp, pb, messages, player_state
        self.MrpProtocol, self.interface, self.const = MrpProtocol, interface, const
        self.MessageDispatcher, self.ProtocolStateDispatcher = MessageDispatcher, ProtocolStateDispatcher
        self.CommandInfo_pb2 = CommandInfo_pb2
        self.default_id = M.default_id = player_state.DEFAULT_PLAYER_ID
        self.types = {
            "S": pb.SET_STATE_MESSAGE, "U": pb.UPDATE_CONTENT_ITEM_MESSAGE,
            "C": pb.SET_NOW_PLAYING_CLIENT_MESSAGE, "P": pb.SET_NOW_PLAYING_PLAYER_MESSAGE,
            "N": pb.UPDATE_CLIENT_MESSAGE, "X": pb.REMOVE_CLIENT_MESSAGE,
            "R": pb.REMOVE_PLAYER_MESSAGE, "D": pb.SET_DEFAULT_SUPPORTED_COMMANDS_MESSAGE,
        }
        self.schema = Schema(self)
        cd = CommandInfo_pb2.CommandInfo.DESCRIPTOR.fields_by_name
        M.cmd_defaults = tuple(cd[f].default_value for f in ("command", "shuffleMode", "repeatMode"))
        self._bytes = {}

        real = self
        self.now_unix = NOW_UNIX          # the frozen wall clock (an instant, independent of any timezone)
        self.tz = None                    # process timezone forced by `clock()` (None = the host's)

        class FrozenDateTime(_dt.datetime):
            @classmethod
            def now(cls, tz=None):
                # what the real datetime.now() does with the frozen instant: local, naive time in
                # whatever timezone the process is in at the moment of the call
                return _dt.datetime.fromtimestamp(real.now_unix, tz)

        class Shim:
            datetime = FrozenDateTime

            def __getattr__(self, name):
                return getattr(_dt, name)

        self._shim = Shim()
        self._orig_dt = None

    @property
    def now(self):
        """the frozen instant on the Cocoa epoch (the unit of elapsedTimeTimestamp)"""
        return self.now_unix - COCOA_DELTA

    def clock(self, clock=None):
        """Context manager: frozen instant `now_unix` and process timezone `tz` (POSIX TZ string set
        through os.environ + time.tzset(), restored afterwards)."""
        import contextlib
        import os
        import time as _time

        @contextlib.contextmanager
        def cm():
            if not clock:
                yield
                return
            old_now, old_tz, old_env = self.now_unix, self.tz, os.environ.get("TZ")
            self.now_unix, self.tz = clock.get("now_unix", old_now), clock.get("tz")
            try:
                if self.tz is not None:
                    os.environ["TZ"] = self.tz
                    _time.tzset()
                yield
            finally:
                self.now_unix, self.tz = old_now, old_tz
                if old_env is None:
                    os.environ.pop("TZ", None)
                else:
                    os.environ["TZ"] = old_env
                _time.tzset()

        return cm()

    def freeze(self):
        self._orig_dt = self.mrp.datetime
        self.mrp.datetime = self._shim

    def thaw(self):
        if self._orig_dt is not None:
            self.mrp.datetime = self._orig_dt

    # -- protobuf construction: generic, through the descriptors -------------------------
    def _fill(self, msg, spec):
        fields = msg.DESCRIPTOR.fields_by_name
        for name, value in spec.items():
            fd = fields[name]                      # KeyError = the schema moved: an observation upstream
            repeated = fd.label == fd.LABEL_REPEATED
            if fd.type == fd.TYPE_MESSAGE:
                if repeated:
                    for el in value:
                        self._fill(getattr(msg, name).add(), el)
                else:
                    sub = getattr(msg, name)
                    sub.SetInParent()
                    self._fill(sub, value)
            elif repeated:
                getattr(msg, name).extend(value)
            else:
                setattr(msg, name, value.encode() if fd.type == fd.TYPE_BYTES else value)

    def build(self, m):
        """A fresh real ProtocolMessage for `m` (parsed from its serialisation)."""
        data = self._bytes.get(m.key)
        if data is None:
            pm = self.messages.create(self.types[m.kind])
            self._fill(pm.inner(), m.spec)
            data = self._bytes[m.key] = pm.SerializeToString()
        return self.pb.ProtocolMessage.FromString(data)


class Schema:
    """Which fields exist, read from the protobuf descriptors of the eight message kinds and of
    everything reachable from them.  MODELLED = the fields the handlers / build_playing_instance
    read (and the Lean model carries, with presence); every other field of those messages is
    NOISE: the generators set it at random and nothing reported may depend on it."""

    MODELLED = {
        "SetStateMessage": ("playbackState", "supportedCommands", "playbackQueue", "playerPath"),
        "SetDefaultSupportedCommandsMessage": ("supportedCommands", "playerPath"),
        "UpdateContentItemMessage": ("contentItems", "playerPath"),
        "SetNowPlayingClientMessage": ("client",),
        "SetNowPlayingPlayerMessage": ("playerPath",),
        "UpdateClientMessage": ("client",),
        "RemoveClientMessage": ("client",),
        "RemovePlayerMessage": ("playerPath",),
        "PlayerPath": ("client", "player"),
        "NowPlayingClient": ("bundleIdentifier", "displayName"),
        "NowPlayingPlayer": ("identifier",),
        "SupportedCommands": ("supportedCommands",),
        "CommandInfo": ("command", "shuffleMode", "repeatMode"),
        "PlaybackQueue": ("location", "contentItems"),
        "ContentItem": ("identifier", "metadata"),
        "ContentItemMetadata": ("title", "playbackRate", "duration", "elapsedTime", "elapsedTimeTimestamp"),
    }
    # noise that would change something my view does report through another path
    NOT_NOISE = {"ContentItemMetadata": ()}

    def __init__(self, real):
        self.desc = {}
        for k, t in real.types.items():
            self._walk(real.messages.create(t).inner().DESCRIPTOR)
        for name, fields in self.MODELLED.items():
            d = self.desc[name]                                   # KeyError: message type disappeared
            for f in fields:
                assert f in d.fields_by_name, (name, f)
        self.inner_name = {k: real.messages.create(t).inner().DESCRIPTOR.name for k, t in real.types.items()}

    def _walk(self, d):
        if d.name in self.desc:
            return
        self.desc[d.name] = d
        for f in d.fields:
            if f.type == f.TYPE_MESSAGE and d.name in self.MODELLED and f.name in self.MODELLED[d.name]:
                self._walk(f.message_type)

    def optional_scalars(self, name):
        """(field name, descriptor) of every modelled optional non-message field of message `name`."""
        d = self.desc[name]
        return [(f.name, f) for f in d.fields if f.name in self.MODELLED[name]
                and f.type != f.TYPE_MESSAGE and f.label != f.LABEL_REPEATED]

    def noise_fields(self, name):
        d = self.desc[name]
        return [f for f in d.fields if f.name not in self.MODELLED.get(name, ())]

    def enum_values(self, name, field):
        return [v.number for v in self.desc[name].fields_by_name[field].enum_type.values]

    @staticmethod
    def noise_value(f, rng):
        if f.type == f.TYPE_MESSAGE:
            v = {}
        elif f.type == f.TYPE_ENUM:
            v = rng.choice([x.number for x in f.enum_type.values])
        elif f.type == f.TYPE_STRING:
            v = rng.choice(["", "x", "noise"])
        elif f.type == f.TYPE_BYTES:
            v = "n"
        elif f.type == f.TYPE_BOOL:
            v = rng.choice([False, True])
        elif f.type in (f.TYPE_FLOAT, f.TYPE_DOUBLE):
            v = float(rng.choice([0, 1, 7]))
        else:
            v = rng.choice([0, 1, 3])
        return [v] if f.label == f.LABEL_REPEATED else v

    def add_noise(self, name, spec, rng, p=0.5):
        """Set up to two fields of message `name` that the model does not know about."""
        if rng.random() < p:
            fields = self.noise_fields(name)
            for f in rng.sample(fields, min(len(fields), rng.randint(1, 2))):
                spec[f.name] = self.noise_value(f, rng)
        return spec


class _Conn:
    listener = None

    def close(self):
        pass

    def __str__(self):
        return "verif"


class _Listener:
    """On `psm.listener`: forwards every wake-up to the real MrpPushUpdater.state_updated, which
    reads `metadata.playing()` at that moment; `_SampledMetadata` records what it read (plus
    `.app`) — the state as seen by a listener at the moment it is woken."""

    def __init__(self, impl):
        self.impl = impl
        self.seen = []
        self.suspend = 0          # loop iterations state_updated() stays suspended after reading the state

    async def state_updated(self):
        n = len(self.impl.sampled.samples)
        await self.impl.pu.state_updated()
        got = self.impl.sampled.samples[n:]
        self.seen.append(got[-1] if got else "err:listener-did-not-read-state")
        for _ in range(self.suspend):      # a slow consumer: further messages are handled meanwhile
            await asyncio.sleep(0)


class _SampledMetadata:
    """What the push updater holds as `metadata`: the real MrpMetadata, with every `playing()`
    result recorded together with `.app` at that moment."""

    def __init__(self, md):
        self._md = md
        self.samples = []

    async def playing(self):
        try:
            p = await self._md.playing()
            self.samples.append(view_of(p, self._md.app))
        except Exception as exc:
            self.samples.append(_errname(exc))
            raise
        return p

    def __getattr__(self, name):
        return getattr(self._md, name)


class _PushListener:
    def __init__(self):
        self.last = None
        self.errors = 0

    def playstatus_update(self, updater, playstatus):
        self.last = playstatus

    def playstatus_error(self, updater, exception):
        self.errors += 1


def _errname(exc):
    return "err:" + type(exc).__name__


class Impl:
    """One real PlayerStateManager + MrpMetadata + MrpPushUpdater behind one real MrpProtocol
    dispatcher.  Must be created inside a running event loop."""

    def __init__(self, real):
        self.real = real
        self.prot = real.MrpProtocol(_Conn(), None, None, None)
        self.psm = real.player_state.PlayerStateManager(self.prot)
        self.md = real.mrp.MrpMetadata(self.prot, self.psm, "verif", None)
        sd = real.ProtocolStateDispatcher(real.const.Protocol.MRP, real.MessageDispatcher())
        self.sampled = _SampledMetadata(self.md)
        self.pu = real.mrp.MrpPushUpdater(self.sampled, self.psm, sd)
        self.push = _PushListener()
        self.pu.listener = self.push
        self.listener = _Listener(self)
        self.pending = []
        orig = self.prot.dispatch

        def dispatch(t, message):           # only records the tasks the real dispatch created
            tasks = orig(t, message)
            self.pending.extend(tasks)
            return tasks

        self.prot.dispatch = dispatch

    async def start(self):
        """Real start(): the push updater registers itself and publishes the initial state; then
        the sampling proxy takes its place on psm.listener (and forwards every wake-up to it)."""
        self.pu.start()
        await asyncio.sleep(0)
        await asyncio.sleep(0)
        self.psm.listener = self.listener
        return await self.observe([])

    async def observe(self, wakes):
        await asyncio.sleep(0)              # loop.call_soon(listener.playstatus_update, …)
        try:
            now = await self.md.playing()
            view = view_of(now, self.md.app)
        except Exception as exc:            # observation, not a crash
            return (wakes, _errname(exc), None)
        stale = None
        if self.push.last is None:
            stale = "nothing"
        elif not self.push.last == now:
            stale = list(view_of(self.push.last, None))
        return (wakes, view, stale)

    async def feed(self, msg):
        """Deliver one message; returns (views seen at wake-ups, view afterwards, what the push
        updater last delivered if it differs from the current Playing else None)."""
        self.listener.seen = []
        m = self.real.build(msg)
        self.prot.message_received(m, None)
        pending, self.pending = self.pending, []
        for t in pending:
            await t
        return await self.observe(self.listener.seen)

    async def feed_burst(self, msgs, suspend):
        """Deliver several messages back to back (as one TCP segment carrying several frames does),
        with a listener that stays suspended in state_updated() for `suspend` loop iterations; the
        loop is drained before anything is observed."""
        self.listener.seen = []
        self.listener.suspend = suspend
        try:
            for msg in msgs:
                self.prot.message_received(self.real.build(msg), None)
            pending, self.pending = self.pending, []
            for t in pending:
                await t
            for _ in range(suspend + 2):
                await asyncio.sleep(0)
        finally:
            self.listener.suspend = 0
        return await self.observe(self.listener.seen)

    async def view(self):
        try:
            p = await self.md.playing()
            app = self.md.app
        except Exception as exc:  # observation, not a crash
            return _errname(exc)
        return view_of(p, app)


def view_of(p, app):
    sha = hashlib.sha256(f"{p.title}{p.artist}{p.album}{p.total_time}".encode()).hexdigest()
    h = p.hash
    h = "sha" if h == sha else _code(h, "i")
    a = None
    if app is not None:
        a = (_code(app.name, "Name"), _code(app.identifier, "com.app"))
    return (p.device_state.value, _code(p.title, "t"), h, p.total_time, p.position,
            p.shuffle.value, p.repeat.value, a)


def parse_report(txt):
    """Lean `report` -> same tuple shape as view_of."""
    if txt == "dangling":
        return "dangling"
    st, title, h, total, pos, sh, rp, app = txt.split("/")
    o = lambda x: None if x == "_" else int(x)
    hh = o(h)
    hh = "sha" if not hh else hh
    a = None
    if app != "_":
        n, b = app.split("@")
        a = (o(n), int(b) if int(b) else 0)
    return (int(st), o(title), hh, o(total), o(pos), int(sh), int(rp), a)


# ----------------------------------------------------------------------------- reference
class Ref:
    """Reference of the MRP now-playing rules, from the property text: per (client, player) the
    most recent state; one active client; per client one chosen player, else its default
    player; removal forgets; nothing active -> idle."""

    def __init__(self, real):
        pb, const = real.pb, __import__("pyatv.const", fromlist=["x"])
        self.PS = pb.PlaybackState
        self.const = const
        from pyatv.protocols.mrp.protobuf import CommandInfo_pb2
        self.shuffle_cmd, self.repeat_cmd = CommandInfo_pb2.ChangeShuffleMode, CommandInfo_pb2.ChangeRepeatMode
        self.sh = (pb.ShuffleMode.Off, pb.ShuffleMode.Albums)
        self.rp = (pb.RepeatMode.One, pb.RepeatMode.All)
        self.active = None
        self.clients = {}
        self.now = real.now

    def client(self, b, name):
        if b not in self.clients:
            self.clients[b] = {"name": name, "cmds": [], "chosen": None, "players": {}}
        return self.clients[b]

    def player(self, c, p):
        return c["players"].setdefault(p, {"ps": None, "cmds": [], "items": [], "loc": 0})

    def serving(self):
        if self.active is None:
            return None
        c = self.clients[self.active]
        return (self.active, c["chosen"] if c["chosen"] is not None else 1)

    def step(self, m):
        msg = m.n
        k, b, name = msg[0], msg[1], msg[2]
        if k == "X":
            if b in self.clients:
                del self.clients[b]
                if self.active == b:
                    self.active = None
            return
        c = self.client(b, name)
        if k == "C":
            self.active = b
        elif k == "N":
            if name is not None:
                c["name"] = name
        elif k == "D":
            c["cmds"] = list(msg[4])
        elif k == "P":
            c["chosen"] = msg[3]
        elif k == "R":
            if msg[3] != 0:
                c["players"].pop(msg[3], None)
                if c["chosen"] == msg[3]:
                    c["chosen"] = None
        elif k == "S":
            pl = self.player(c, msg[3])
            _, _, _, _, ps, cmds, queue = msg
            if ps is not None:
                pl["ps"] = ps
            if cmds is not None:
                pl["cmds"] = list(cmds)
            if queue is not None:
                pl["loc"], pl["items"] = queue[0], [list(i) for i in queue[1]]
        elif k == "U":
            pl = self.player(c, msg[3])
            for u in msg[4]:
                for e in pl["items"]:
                    if e[0] == u[0]:
                        for j in range(1, 6):
                            if u[j] is not None:
                                e[j] = u[j]

    def report(self):
        DS = self.const.DeviceState
        sv = self.serving()
        if sv is None:
            return (DS.Idle.value, None, "sha", None, None, 0, 0, None)
        b, p = sv
        c = self.clients[b]
        pl = c["players"].get(p, {"ps": None, "cmds": [], "items": [], "loc": 0})
        item = pl["items"][pl["loc"]] if pl["loc"] < len(pl["items"]) else None
        PS = self.PS
        ps = pl["ps"]
        if ps is None:
            st = DS.Idle
        elif ps == PS.Paused:
            st = DS.Paused if item is not None else DS.Idle
        elif ps == PS.Playing:
            rate = item[2] if item is not None else None
            st = DS.Playing if rate in (None, 0, 1) else DS.Seeking
        else:
            st = {PS.Stopped: DS.Stopped, PS.Interrupted: DS.Loading, PS.Seeking: DS.Seeking}.get(ps, DS.Paused)
        title = total = pos = None
        ident = "sha"
        if item is not None:
            ident = item[0] or "sha"
            title, rate, total, el, ts = item[1], item[2], item[3], item[4], item[5]
            if ts:
                pos = el or 0
                if st == DS.Playing and rate:
                    pos += self.now - ts
                if pos:
                    pos = max(pos, 0)
                    if total:
                        pos = min(pos, total)
        shuffle = repeat = 0
        for cmd in pl["cmds"] + c["cmds"]:
            if cmd[0] == self.shuffle_cmd:
                shuffle = 0 if cmd[1] == self.sh[0] else (1 if cmd[1] == self.sh[1] else 2)
                break
        for cmd in pl["cmds"] + c["cmds"]:
            if cmd[0] == self.repeat_cmd:
                repeat = 1 if cmd[2] == self.rp[0] else (2 if cmd[2] == self.rp[1] else 0)
                break
        return (st.value, title, ident, total, pos, shuffle, repeat, (c["name"], b))


# ----------------------------------------------------------------------------- generators
def payloads(real, rich):
    """Small field domain.  Items: (ident, title, rate, duration, elapsed, timestamp)."""
    pb = real.pb
    from pyatv.protocols.mrp.protobuf import CommandInfo_pb2
    PS = pb.PlaybackState
    it1 = (1, 1, 1, 100, 10, NOW - 10)
    sh = (CommandInfo_pb2.ChangeShuffleMode, pb.ShuffleMode.Songs, 0)
    rp = (CommandInfo_pb2.ChangeRepeatMode, 0, pb.RepeatMode.All)
    set_state = [
        (PS.Playing, None, None),
        (PS.Paused, None, None),
        (PS.Stopped, None, None),
        (None, None, (0, (it1,))),
    ]
    update = [((1, 2, 2, None, None, None),)]
    defaults = [(sh,)]
    if rich:
        it2 = (2, 3, 0, 50, 70, NOW - 30)       # elapsed beyond duration
        it3 = (0, None, 2, 0, -5, NOW + 20)      # no identifier, zero duration, negative elapsed, future timestamp
        it4 = (3, 0, None, None, None, 0)        # empty title, zero timestamp
        it5 = (1, 4, 1, 20, 5, NOW - 100)        # running past the end
        set_state += [
            (PS.Playing, (rp,), (0, (it1, it2))),
            (PS.Playing, None, (1, (it1, it2))),
            (PS.Playing, (), (0, (it5,))),
            (PS.Paused, None, (0, (it3,))),
            (PS.Seeking, None, None), (PS.Interrupted, None, None), (PS.Unknown, None, None),
            (None, (sh, rp), None),
            (None, None, (2, (it1,))),           # location beyond the queue
            (None, None, (0, ())),
            (PS.Playing, None, (0, (it4,))),
        ]
        update += [((1, None, 0, None, 200, None), (2, 5, None, 10, None, None)),
                   ((9, 6, None, None, None, None),), (),
                   ((1, None, None, None, None, NOW + 50),)]
        defaults += [(), (rp, sh), ((CommandInfo_pb2.ChangeShuffleMode, pb.ShuffleMode.Off, 0),),
                     ((CommandInfo_pb2.ChangeShuffleMode, pb.ShuffleMode.Albums, 0),
                      (CommandInfo_pb2.ChangeRepeatMode, 0, pb.RepeatMode.One))]
    return set_state, update, defaults


def alphabet(real, clients, players, rich, names=(None,), reduced=False):
    set_state, update, defaults = payloads(real, rich)
    if reduced:
        PS = real.pb.PlaybackState
        set_state = [(PS.Playing, None, (0, ((1, 1, 1, 100, 10, NOW - 10),))), (PS.Stopped, None, None)]
    out = []
    for b in clients:
        for n in names:
            out += [("C", b, n), ("X", b, n)]
            out.append(("N", b, n if n is not None else 7))
            for d in defaults:
                out.append(("D", b, n, players[0], d))
            for p in players:
                out += [("P", b, n, p), ("R", b, n, p)]
                for (ps, cmds, q) in set_state:
                    out.append(("S", b, n, p, ps, cmds, q))
                for u in update:
                    out.append(("U", b, n, p, u))
    return [from_tuple(t) for t in out]


def prefixes(real):
    """Histories after which something is being reported (so that suffixes act on a live state)."""
    PS = real.pb.PlaybackState
    it1 = (1, 1, 1, 100, 10, NOW - 10)
    it2 = (2, 3, 0, 50, 70, NOW - 30)
    pre = [
        (("C", 1, None), ("S", 1, None, 1, PS.Playing, None, (0, (it1,)))),
        (("C", 1, 5), ("P", 1, None, 2), ("S", 1, None, 2, PS.Playing, None, (0, (it1,))),
         ("S", 1, None, 1, PS.Paused, None, (0, (it2,)))),
        (("S", 2, None, 1, PS.Stopped, None, None), ("C", 2, None), ("C", 1, None), ("S", 1, None, 2, PS.Stopped, None, None)),
        (("C", 1, None), ("P", 1, None, 3), ("S", 1, None, 3, PS.Seeking, None, (1, (it2, it1))), ("P", 2, None, 3),
         ("S", 2, None, 3, PS.Playing, None, None)),
    ]
    return [tuple(from_tuple(t) for t in seq) for seq in pre]


def canonical(seq):
    """Representative modulo renaming clients 1<->2 and non-default players 2<->3: first
    mentioned client is 1, first mentioned non-default player is 2."""
    for m in seq:
        if m.n[1] in (1, 2):
            if m.n[1] != 1:
                return False
            break
    for m in seq:
        if m.kind not in "CNX" and m.n[3] in (2, 3):
            return m.n[3] == 2
    return True


def sequences_exhaustive(alpha, maxlen):
    for n in range(1, maxlen + 1):
        for t in itertools.product(alpha, repeat=n):
            if canonical(t):
                yield t


# -- proto2 presence, enumerated from the descriptors ------------------------------------------
UNSET = None


def field_domains(real):
    """Values (besides "not set") for every modelled optional scalar field, keyed by
    (message name, field name).  Enum domains are read from the descriptors."""
    sch, C = real.schema, real.CommandInfo_pb2
    return {
        ("SetStateMessage", "playbackState"): sch.enum_values("SetStateMessage", "playbackState"),
        ("PlaybackQueue", "location"): [0, 1, 2],
        ("ContentItem", "identifier"): ["", "i1", "i2"],
        ("ContentItemMetadata", "title"): ["", "t1", "t2"],
        ("ContentItemMetadata", "playbackRate"): [0.0, 1.0, 2.0],
        ("ContentItemMetadata", "duration"): [0.0, 20.0, 100.0],
        ("ContentItemMetadata", "elapsedTime"): [0.0, 10.0, 70.0, -5.0],
        ("ContentItemMetadata", "elapsedTimeTimestamp"): [0.0, float(NOW - 10), float(NOW - 100), float(NOW + 20)],
        ("CommandInfo", "command"): [C.ChangeShuffleMode, C.ChangeRepeatMode, C.Play],
        ("CommandInfo", "shuffleMode"): sch.enum_values("CommandInfo", "shuffleMode"),
        ("CommandInfo", "repeatMode"): sch.enum_values("CommandInfo", "repeatMode"),
        ("NowPlayingClient", "bundleIdentifier"): ["", "com.app1", "com.app2"],
        ("NowPlayingClient", "displayName"): ["", "Name5", "Name6"],
        ("NowPlayingPlayer", "identifier"): ["", real.default_id, "p0", "p1"],
    }


def presence_product(real, name, domains, limit=None):
    """Every combination of {not set} ∪ domain over the modelled optional scalar fields of message
    `name` (the field list comes from the descriptor; a modelled scalar without a domain is an error)."""
    fields = real.schema.optional_scalars(name)
    choices = []
    for fname, _fd in fields:
        dom = domains[(name, fname)]
        choices.append([UNSET] + list(dom if limit is None else dom[:limit]))
    for combo in itertools.product(*choices):
        yield {f[0]: v for f, v in zip(fields, combo) if v is not UNSET}


def presence_families(real):
    """Exhaustive one- and two-message combinations on the reported player (client 1 active, its
    default player), varying presence x value of every optional field the handlers read."""
    dom = field_domains(real)
    PS = real.pb.PlaybackState
    act = mk("C", 1)
    P = dict(b=1, p=1)

    def S(**sp):
        return M("S", dict({"playerPath": _path(1, None, 1)}, **sp))

    a = _item_spec(1, 1, 1, 100, 10, NOW - 10)
    bb = _item_spec(2, 2, 0, 50, 70, NOW - 30)
    fam = {}
    # F1: playbackState x playbackQueue{unset | location{unset,0,1,2} x items{0,1,2}} — all ordered pairs
    variants = []
    for ps in (UNSET, PS.Playing, PS.Paused):
        base = {} if ps is UNSET else {"playbackState": ps}
        variants.append(S(**base))
        for q in presence_product(real, "PlaybackQueue", dom):
            for items in ([], [a], [a, bb]):
                pq = dict(q)
                if items:
                    pq["contentItems"] = items
                variants.append(S(playbackQueue=pq, **base))
    fam["presence-queue-pairs"] = [(act, v1, v2) for v1 in variants for v2 in variants]
    # F2: every presence/value combination of ContentItem + ContentItemMetadata scalars
    items = []
    for it in presence_product(real, "ContentItem", dom, limit=2):
        for md in presence_product(real, "ContentItemMetadata", dom, limit=2):
            spec = dict(it)
            if md:
                spec["metadata"] = md
            items.append(spec)
    full = S(playbackState=PS.Playing, playbackQueue={"contentItems": [a]})
    upd_full = M("U", {"playerPath": _path(1, None, 1), "contentItems": [_item_spec(1, 2, 2, 20, 5, NOW - 100)]})
    f2 = []
    for it in items:
        s_it = S(playbackState=PS.Playing, playbackQueue={"contentItems": [it]})
        f2.append((act, s_it))
        f2.append((act, s_it, upd_full))
        if it.get("identifier") == "i1":
            f2.append((act, full, M("U", {"playerPath": _path(1, None, 1), "contentItems": [it]})))
    fam["presence-item-fields"] = f2
    # F2b: queues with repeated item identifiers (every item with a matching identifier is updated),
    # every location, updates carrying one or several items
    dup = []
    queues = [[a, dict(a, metadata=dict(a["metadata"], title="t2")), bb],
              [bb, a, dict(a, metadata={"title": "t2"})],
              [_item_spec(None, 1, 1, 100, 10, NOW - 10), _item_spec(0, 2, 1, 50, 5, NOW - 10), a]]
    updates = [[_item_spec(1, 3, 2)], [_item_spec(1, None, None, 20), _item_spec(2, 3)], [_item_spec(0, 3)],
               [_item_spec(None, 3)], [_item_spec(1, 3), _item_spec(1, None, 0)]]
    for qi in queues:
        for loc in (UNSET, 0, 1, 2):
            pq = {"contentItems": qi}
            if loc is not UNSET:
                pq["location"] = loc
            for u in updates:
                dup.append((act, S(playbackState=PS.Playing, playbackQueue=pq),
                            M("U", {"playerPath": _path(1, None, 1), "contentItems": u})))
    fam["presence-duplicate-items"] = dup
    # F3: CommandInfo fields, as the player's own commands against the client's defaults
    cmds = list(presence_product(real, "CommandInfo", dom, limit=3))
    f3 = []
    defaults = [c for c in cmds if c.get("command") in (real.CommandInfo_pb2.ChangeShuffleMode, real.CommandInfo_pb2.ChangeRepeatMode)][::3] + [{}]
    for d in defaults:
        dm = M("D", {"playerPath": _path(1, None, None), "supportedCommands": {"supportedCommands": [d]}})
        for c in cmds:
            f3.append((act, dm, S(supportedCommands={"supportedCommands": [c]})))
            f3.append((act, S(supportedCommands={"supportedCommands": [c, d]})))
    fam["presence-command-fields"] = f3
    # F4: client / player identification fields of every kind, after a set-now-playing-client variant
    clients = [{}] + [{"client": c} for c in presence_product(real, "NowPlayingClient", dom, limit=2)] + [{"client": {}}]
    players = [{}] + [{"player": p} for p in presence_product(real, "NowPlayingPlayer", dom, limit=3)]
    f4 = []
    seconds = []
    for c in clients:
        seconds += [M("N", dict(c)), M("X", dict(c))]
        for pl in players:
            pp = dict(c.items())
            pp.update(pl)
            path = {"playerPath": pp} if pp else {}
            seconds += [M("S", dict(path, playbackState=PS.Stopped)), M("P", dict(path)), M("R", dict(path))]
    for c in clients:
        for m2 in seconds:
            f4.append((M("C", dict(c)), m2))
    fam["presence-path-fields"] = f4
    return fam


def rand_items(real, rng, dom):
    out = []
    for _ in range(rng.choice([0, 1, 1, 2, 3])):
        it = {}
        if rng.chance(0.8):
            it["identifier"] = rng.choice(dom[("ContentItem", "identifier")])
        if rng.chance(0.85):
            md = {}
            for fname, _fd in real.schema.optional_scalars("ContentItemMetadata"):
                if rng.chance(0.6):
                    md[fname] = rng.choice(dom[("ContentItemMetadata", fname)])
            real.schema.add_noise("ContentItemMetadata", md, rng, p=0.2)
            it["metadata"] = md
        real.schema.add_noise("ContentItem", it, rng, p=0.1)
        out.append(it)
    return out


def rand_cmds(real, rng, dom):
    out = []
    for _ in range(rng.choice([0, 1, 1, 2])):
        c = {}
        for fname, _fd in real.schema.optional_scalars("CommandInfo"):
            if rng.chance(0.7):
                c[fname] = rng.choice(dom[("CommandInfo", fname)])
        real.schema.add_noise("CommandInfo", c, rng, p=0.1)
        out.append(c)
    return {"supportedCommands": out} if out else {}


def rand_msg(real, rng, dom, b, p, kind=None):
    """A random message of a random kind for client code b / player code p (0 = unnamed: unset or ""),
    every optional field independently present or not, plus noise in fields the model ignores."""
    sch = real.schema
    k = kind or rng.choice("SSSSUUCPNXRD")
    c = {}
    if b:
        c["bundleIdentifier"] = "com.app%d" % b
    elif rng.chance(0.5):
        c["bundleIdentifier"] = ""
    if rng.chance(0.3):
        c["displayName"] = rng.choice(dom[("NowPlayingClient", "displayName")])
    sch.add_noise("NowPlayingClient", c, rng, p=0.1)
    sp = {}
    if k in "CNX":
        if c or rng.chance(0.5):
            sp["client"] = c
    else:
        pp = {}
        if c or rng.chance(0.5):
            pp["client"] = c
        pl = {}
        if p:
            pl["identifier"] = real.default_id if p == 1 else "p%d" % (p - 2)
        elif rng.chance(0.5):
            pl["identifier"] = ""
        sch.add_noise("NowPlayingPlayer", pl, rng, p=0.1)
        if pl or rng.chance(0.3):
            pp["player"] = pl
        sch.add_noise("PlayerPath", pp, rng, p=0.05)
        if pp or rng.chance(0.5):
            sp["playerPath"] = pp
        if k == "S":
            if rng.chance(0.6):
                sp["playbackState"] = rng.choice(dom[("SetStateMessage", "playbackState")])
            if rng.chance(0.35):
                sp["supportedCommands"] = rand_cmds(real, rng, dom)
            if rng.chance(0.6):
                pq = {}
                if rng.chance(0.5):
                    pq["location"] = rng.choice(dom[("PlaybackQueue", "location")])
                items = rand_items(real, rng, dom)
                if items:
                    pq["contentItems"] = items
                sch.add_noise("PlaybackQueue", pq, rng, p=0.1)
                sp["playbackQueue"] = pq
        elif k == "U":
            items = rand_items(real, rng, dom)
            if items:
                sp["contentItems"] = items
        elif k == "D":
            sp["supportedCommands"] = rand_cmds(real, rng, dom)
    sch.add_noise(sch.inner_name[k], sp, rng, p=0.15)
    return M(k, sp)


def sample_sequences(real, rng, alpha, count, lo, hi):
    """Focused random histories: a focus client (activated early, most of the time) receives most
    of the traffic, and within it a focus player; the rest is noise about other clients/players.
    Half of the messages come from the explicit-payload alphabet, half are built field by field
    from the descriptors with independent presence."""
    dom = field_domains(real)
    by_client = {}
    for m in alpha:
        by_client.setdefault(m.n[1], []).append(m)
    clients = sorted(by_client)
    for _ in range(count):
        n = rng.randint(lo, hi)
        focus = rng.choice(clients)
        mine = by_client[focus]
        fplayer = rng.choice([1, 1, 2, 3, 0])
        mine_p = [m for m in mine if m.kind in "CNXD" or m.n[3] == fplayer]
        activate = [m for m in mine if m.kind == "C"]
        p_noise = rng.choice([0.1, 0.3, 0.6])
        p_desc = rng.choice([0.2, 0.5, 0.9])
        seq = []
        for i in range(n):
            r = rng.random()
            if i == 0 and rng.chance(0.8):
                seq.append(rng.choice(activate))
            elif rng.random() < p_desc:
                if r < p_noise:
                    seq.append(rand_msg(real, rng, dom, rng.choice(clients), rng.choice([0, 1, 2, 3])))
                else:
                    seq.append(rand_msg(real, rng, dom, focus, fplayer if r < 0.8 else rng.choice([0, 1, 2, 3])))
            elif r < p_noise:
                seq.append(rng.choice(alpha))
            elif r < p_noise + (1 - p_noise) * 0.6:
                seq.append(rng.choice(mine_p))
            else:
                seq.append(rng.choice(mine))
        yield tuple(seq)


# ----------------------------------------------------------------------------- running
async def _run_impl(real, seqs):
    out = []
    for seq in seqs:
        try:
            impl = Impl(real)
            steps = [await impl.start()]
            for msg in seq:
                try:
                    steps.append(await impl.feed(msg))
                except Exception as exc:
                    steps.append(([], _errname(exc), None))
        except Exception as exc:
            steps = [([], _errname(exc), None)] * (len(seq) + 1)
        out.append(steps)
    return out


def run_impl(real, seqs):
    loop = asyncio.new_event_loop()
    real.freeze()
    try:
        return loop.run_until_complete(_run_impl(real, seqs))
    finally:
        real.thaw()
        loop.close()


def _case(seq, step=None, real=None):
    c = {"seq": [m.json() for m in seq]}
    if step is not None:
        c["step"] = step
    if real is not None and (real.tz is not None or real.now_unix != NOW_UNIX):
        c["clock"] = {"tz": real.tz, "now_unix": real.now_unix}
    return c


def oracle(ctx, real, seq, steps):
    """The property evaluated on the real code's observations, against the reference."""
    ref = Ref(real)
    _w, prev_impl, stale = steps[0]
    if prev_impl != ref.report():
        ctx.fail("initial-not-idle", {"seq": []}, _jsonable(prev_impl), list(ref.report()), "before any message the report is not idle")
        return 0, False
    changes = 0
    removed_serving = False
    seen = prev_impl            # what a listener knows: the last state it observed when it was woken
    for i, (m, (wakes, view, stale)) in enumerate(zip(seq, steps[1:])):
        msg = m.n
        serving_before = ref.serving()
        ref.step(m)
        want = ref.report()
        k = m.kind
        case = _case(seq, i, real)
        if isinstance(view, str) or any(isinstance(w, str) for w in wakes):
            bad = view if isinstance(view, str) else next(w for w in wakes if isinstance(w, str))
            ctx.fail(f"exception:{k}:{bad}", case, bad, list(want), "the real code raised while reporting the now-playing state")
            return changes, removed_serving
        about = (msg[1], msg[3]) if k in "SUR" else None
        if k == "X" and serving_before and serving_before[0] == msg[1]:
            removed_serving = True
        if k == "R" and serving_before == about and msg[3] != 0:
            removed_serving = True
        # the app's display name is compared by the correspondence only: which message may carry
        # a client's name is an MRP detail the property text does not fix
        if _no_name(view) != _no_name(want):
            if about is not None and serving_before != about and view != prev_impl:
                ctx.fail(f"other-player-changed-report:{k}", case, list(view), list(prev_impl),
                         "a message about a player that is not the active player of the active client changed the reported state")
            elif k in "XR" and removed_serving:
                ctx.fail(f"remove-active-not-reset:{k}", case, list(view), list(want),
                         "removing the active client/player did not return the report to idle / the default player")
            else:
                ctx.fail(f"report-mismatch:{k}", case, list(view), list(want),
                         "reported state is not derived from the most recent state of the active player of the active client")
        if view != prev_impl:
            changes += 1
        # woken whenever the reported state can change — observed where a listener observes: at the wake-up
        if wakes:
            seen = wakes[-1]
        if seen != view:
            if not wakes:
                ctx.fail(f"no-wake:{k}", case, {"listener_last_saw": list(seen), "reported_now": list(view), "wakeups": 0},
                         "listener.state_updated() called", "the reported state changed but the listener was not woken")
            else:
                ctx.fail(f"stale-wake:{k}", case, {"seen_at_wakeup": list(wakes[-1]), "reported_now": list(view), "wakeups": len(wakes)},
                         "the state a listener reads when woken is the state reported after the message",
                         "the listener was woken before the state change was complete: it saw a stale state and is not woken again")
            seen = view     # report each stale observation once
        if stale is not None:
            ctx.fail(f"push-stale:{k}", case, {"push_updater_last_delivered": stale, "reported_now": list(view)},
                     "the Playing last delivered by MrpPushUpdater equals metadata.playing()",
                     "the real MrpPushUpdater's consumer is left with an outdated now-playing state")
        pos, total = view[4], view[3]
        if pos is not None and (pos < 0 or (total is not None and total > 0 and pos > total)):
            ctx.fail("position-out-of-range", case, {"position": pos, "total": total}, "0 <= position <= total", "reported position outside [0, total]")
        prev_impl = view
    return changes, removed_serving


def _no_name(v):
    return tuple(v[:7]) + ((v[7][1] if v[7] is not None else None),)


def _jsonable(x):
    if isinstance(x, tuple):
        return [_jsonable(y) for y in x]
    return x


def check_batch(ctx, real, seqs, label, clocks=None):
    """Run a batch on the real code, the Lean model and (every 4th sequence; the refinement
    theorem covers the rest) the Lean spec; diff; oracle.  `label` is one label or one per sequence;
    `clocks` (optional, one per sequence) = {"tz": POSIX TZ string, "now_unix": frozen instant}: the
    real code runs in that process timezone with datetime.now() frozen at that instant, the model
    and the reference get the same instant as `now` (they know no timezone)."""
    seqs = list(seqs)
    if not seqs:
        return
    labels = [label] * len(seqs) if isinstance(label, str) else list(label)
    clocks = [None] * len(seqs) if clocks is None else list(clocks)
    impl, i = [], 0
    while i < len(seqs):                      # consecutive sequences with the same clock run together
        j = i
        while j < len(seqs) and clocks[j] == clocks[i]:
            j += 1
        with real.clock(clocks[i]):
            impl += run_impl(real, seqs[i:j])
        i = j
    lines, at = [], []
    for i, seq in enumerate(seqs):
        ws = " ".join(wire(m) for m in seq)
        at.append(len(lines))
        with real.clock(clocks[i]):
            now = real.now
        lines.append(f"run 1 {now} {ws}")
        if i % 4 == 0:
            lines.append(f"spec {now} {ws}")
    answers = ctx.lean(lines)
    for idx, (seq, steps, label) in enumerate(zip(seqs, impl, labels)):
      with real.clock(clocks[idx]):
            mline = answers[at[idx]]
            model = mline.split(",")
            spec = answers[at[idx] + 1].split(",") if idx % 4 == 0 else [None] * len(seq)
            kinds = "".join(m.kind for m in seq)
            ctx.note("len:%d" % len(seq))
            ctx.note("set:" + label)
            for m in seq:
                ctx.note("kind:" + m.kind)
            case = _case(seq, real=real)
            if len(model) != len(seq) or len(spec) != len(seq) or mline == "bad-op":
                ctx.disagree(case, "n/a", mline, where="driver answer shape")
                continue
            for i, ((wakes, view, _stale), mtxt, stxt) in enumerate(zip(steps[1:], model, spec)):
                mn, mseen, mrep = mtxt.split("|")
                mview = parse_report(mrep)
                mwake = [] if mseen == "-" else [parse_report(mseen)]
                if isinstance(view, str) or mview != view or mwake != wakes:
                    ctx.disagree(dict(case, step=i), [_jsonable(wakes), _jsonable(view)], mtxt,
                                 where="model vs real PlayerStateManager/MrpMetadata (woken?, state seen at the wake-up, state after)")
                    break
                if stxt is not None and parse_report(stxt) != mview:
                    ctx.disagree(dict(case, step=i), stxt, mtxt, where="Lean spec vs Lean model (refinement sides)")
                    break
                ctx.note("state:%d" % view[0])
                ctx.note("notified:%d" % len(wakes))
            ctx.validated()
            changes, removed = oracle(ctx, real, seq, steps)
            ctx.case([label, case["seq"], case.get("clock")], changes >= 2 or removed, sample={"kinds": kinds, "seq": case["seq"]} if removed and changes >= 2 else None)


# -- concurrent delivery: several messages dispatched while the listener is still suspended ------
async def _run_bursts(real, cases):
    out = []
    for seq, groups, suspend in cases:
        try:
            impl = Impl(real)
            obs = [await impl.start()]
            i = 0
            for g in groups:
                try:
                    obs.append(await impl.feed_burst(seq[i:i + g], suspend if g > 1 else 0))
                except Exception as exc:
                    obs.append(([], _errname(exc), None))
                i += g
        except Exception as exc:
            obs = [([], _errname(exc), None)] * (len(groups) + 1)
        out.append(obs)
    return out


def check_bursts(ctx, real, cases, label):
    """cases: (sequence, group sizes, suspend).  Each group is dispatched back to back; the handlers
    contain no await before the wake-up, so the model's sequential semantics still applies: the
    states a suspending listener reads are, in order, the model's wake-up states of the group."""
    cases = [(tuple(q), tuple(g), k) for q, g, k in cases]
    if not cases:
        return
    labels = [label] * len(cases) if isinstance(label, str) else list(label)
    loop = asyncio.new_event_loop()
    real.freeze()
    try:
        impl = loop.run_until_complete(_run_bursts(real, cases))
    finally:
        real.thaw()
        loop.close()
    answers = ctx.lean([f"run 1 {real.now} " + " ".join(wire(m) for m in seq) for seq, _g, _k in cases])
    for (seq, groups, suspend), obs, ans, label in zip(cases, impl, answers, labels):
        case = dict(_case(seq, real=real), groups=list(groups), suspend=suspend)
        ctx.note("set:" + label)
        ctx.note("burst-max:%d" % max(groups))
        model = ans.split(",")
        if ans == "bad-op" or len(model) != len(seq):
            ctx.disagree(case, "n/a", ans, where="driver answer shape")
            continue
        ref = Ref(real)
        seen = obs[0][1]
        i, changes = 0, 0
        for gi, (g, (wakes, view, stale)) in enumerate(zip(groups, obs[1:])):
            mwakes, mview = [], None
            for mtxt in model[i:i + g]:
                _n, mseen, mrep = mtxt.split("|")
                if mseen != "-":
                    mwakes.append(parse_report(mseen))
                mview = parse_report(mrep)
            for m in seq[i:i + g]:
                ref.step(m)
            i += g
            k = seq[i - 1].kind
            c = dict(case, step=i - 1)
            if isinstance(view, str) or any(isinstance(w, str) for w in wakes):
                ctx.fail(f"exception:{k}:burst", c, _jsonable([wakes, view]), "no exception", "the real code raised while messages were handled concurrently")
                break
            if mview != view or mwakes != wakes:
                ctx.disagree(c, [_jsonable(wakes), _jsonable(view)], ",".join(model[i - g:i]),
                             where="model vs real code, messages dispatched back to back with a suspending listener")
            want = ref.report()
            if _no_name(view) != _no_name(want):
                ctx.fail(f"report-mismatch:{k}", c, list(view), list(want),
                         "reported state is not derived from the most recent state of the active player of the active client")
            if wakes:
                seen = wakes[-1]
            if seen != view:
                changes += 1
                ctx.fail(f"no-wake:{k}:suspended-listener" if g > 1 else f"no-wake:{k}", c,
                         {"listener_last_saw": list(seen), "reported_now": list(view), "wakeups_in_group": len(wakes)},
                         "after the loop has drained, the last state the listener observed is the reported state",
                         "a wake-up was lost while the listener was still busy with the previous one")
                seen = view
            if stale is not None:
                ctx.fail(f"push-stale:{k}", c, {"push_updater_last_delivered": stale, "reported_now": list(view)},
                         "the Playing last delivered by MrpPushUpdater equals metadata.playing()",
                         "the real MrpPushUpdater's consumer is left with an outdated now-playing state")
        ctx.validated()
        ctx.case([label, case["seq"], case["groups"], suspend], max(groups) > 1 and len(obs) > 2, sample=None)


def burst_cases(ctx, real, rng):
    """(label, (sequence, groups, suspend)): after each warm-up history every pair of messages of the
    reduced alphabet dispatched as one burst; sampled histories cut into random groups of 1..4."""
    reduced = alphabet(real, (1, 2), (1, 2), rich=False, reduced=True)
    for pi, pre in enumerate(prefixes(real)):
        for t in itertools.product(reduced, repeat=2):
            yield "burst-after-prefix%d" % pi, (pre + t, (1,) * len(pre) + (2,), 1)
    for t in itertools.product(reduced, repeat=ctx.scale(2, 3)):
        if canonical(t):
            yield "burst-from-empty", (t, (len(t),), 2)
    rich = alphabet(real, (1, 2), (1, 2, 3), rich=True)
    for seq in sample_sequences(real, rng, rich, ctx.scale(400, 8000), 4, 12):
        groups, left = [], len(seq)
        while left:
            g = min(left, rng.choice([1, 1, 2, 2, 3, 4]))
            groups.append(g)
            left -= g
        yield "burst-sampled", (seq, tuple(groups), rng.choice([1, 2, 5]))


def crowd_cases(real, rng, count):
    """Larger identifier populations than the 2 x 3 of the alphabets: up to 14 clients / 14 players
    alive at once, the reported one being the oldest, the newest or in the middle."""
    PS = real.pb.PlaybackState
    it = lambda k: _item_spec(k % 3 + 1, k % 4 + 1, 1, 100, 10, NOW - 10)
    for n in range(3, 15):
        # many clients; client 1 is active and keeps being updated / is finally removed
        for first_active in (True, False):
            seq = [mk("C", 1)] if first_active else []
            seq.append(mk("S", 1, None, 1, ps=PS.Playing, queue=(0, [it(1)])))
            for j in range(2, n + 1):
                seq.append(mk("S", j, None, 1, ps=PS.Stopped))
            if not first_active:
                seq.append(mk("C", 1))
            seq += [mk("S", 1, None, 1, ps=PS.Paused, queue=(0, [it(2)])), mk("U", 1, None, 1, items=[_item_spec(3, 4)]),
                    mk("X", 1), mk("S", 1, None, 1, ps=PS.Playing)]
            yield "crowd-clients", tuple(seq)
        # many players inside the active client; the chosen one is the first
        seq = [mk("C", 1), mk("P", 1, None, 2), mk("S", 1, None, 2, ps=PS.Playing, queue=(0, [it(1)]))]
        for j in range(3, n + 2):
            seq.append(mk("S", 1, None, j, ps=PS.Stopped))
        seq += [mk("S", 1, None, 2, ps=PS.Paused, queue=(0, [it(2)])), mk("R", 1, None, n + 1), mk("R", 1, None, 2),
                mk("S", 1, None, 1, ps=PS.Seeking)]
        yield "crowd-players", tuple(seq)
    dom = field_domains(real)
    for _ in range(count):
        n = rng.randint(6, 14)
        ids = list(range(1, n + 1))
        focus = rng.choice(ids)
        fplayer = rng.choice([1, 1, 2, rng.randint(3, n + 2)])
        seq = []
        for i in range(rng.randint(n, 3 * n)):
            r = rng.random()
            if r < 0.45:
                seq.append(rand_msg(real, rng, dom, rng.choice(ids), rng.choice([0, 1, 2, rng.randint(3, n + 2)])))
            elif r < 0.55:
                seq.append(mk("C", focus))
            else:
                seq.append(rand_msg(real, rng, dom, focus, fplayer, kind=rng.choice("SSSUPRNXD")))
        yield "crowd-sampled", tuple(seq)


def clamp_grid(ctx, real):
    """Playing._post_process on the full small grid, vs the Lean `post` op and the bounds."""
    Playing = real.interface.Playing
    vals = [None] + list(range(-4, 12))
    totals = [None] + list(range(0, 9))
    cases = [(p, t) for p in vals for t in totals]
    answers = ctx.lean([f"post {_opt(p)} {_opt(t)}" for p, t in cases])
    for (p, t), ans in zip(cases, answers):
        try:
            got = Playing(position=p, total_time=t).position
        except Exception as exc:
            got = _errname(exc)
        ctx.note("clamp-grid")
        ctx.case(["clamp", p, t], p is not None and t is not None and (p < 0 or p > t), sample=None)
        if _opt(got) != ans:
            ctx.disagree({"position": p, "total": t}, got, ans, where="Playing._post_process")
        ctx.validated()
        if isinstance(got, str) or (got is not None and (got < 0 or (t is not None and t > 0 and got > t))):
            ctx.fail("position-clamp", {"position": p, "total": t}, got, "0 <= position and (total > 0 -> position <= total)",
                     "Playing reports a position outside [0, total_time]")


TIMEZONES = ("UTC0", "JST-9", "EST5", "IST-5:30")       # POSIX TZ strings: no DST rules
CLOCK_OFFSETS = (-20, 0, 7, 90, 5000)                   # seconds between elapsedTimeTimestamp and "now"


def position_cases(real):
    """Everything the derived position depends on: playback state, rate, elapsed time, duration,
    presence of the timestamp — on the reported player.  The timestamp is the frozen default instant;
    the clocks of `clock_family` put "now" before, at and after it, in several process timezones."""
    PS = real.pb.PlaybackState
    act = mk("C", 1)
    out = []
    for ps in (PS.Playing, PS.Paused):
        for rate in (None, 0, 1, 2):
            for dur in (None, 0, 100):
                for el in (None, 10, -5, 95):
                    it = _item_spec(1, 1, rate, dur, el, NOW)
                    out.append((act, mk("S", 1, None, 1, ps=ps, queue=(None, [it]))))
    it = _item_spec(1, 1, 1, 100, 10, None)
    out.append((act, mk("S", 1, None, 1, ps=PS.Playing, queue=(0, [it])),
                mk("U", 1, None, 1, items=[_item_spec(1, None, None, None, None, NOW - 3)])))
    out.append((act, mk("S", 1, None, 1, ps=PS.Playing, queue=(0, [_item_spec(1, 1, 1, 100, 10, 0)]))))
    return out


def clock_family(ctx, real, rng):
    """(label, sequence, clock): the position cases under every timezone x offset, and sampled
    histories under random ones."""
    cases = position_cases(real)
    for tz in TIMEZONES:
        for off in CLOCK_OFFSETS:
            clock = {"tz": tz, "now_unix": NOW_UNIX + off}
            for seq in cases:
                yield "clock-" + tz, seq, clock
    rich = alphabet(real, (1, 2), (1, 2), rich=True)
    for tz in TIMEZONES[1:]:
        clock = {"tz": tz, "now_unix": NOW_UNIX + rng.choice(CLOCK_OFFSETS)}
        for seq in sample_sequences(real, rng.fork(tz), rich, ctx.scale(100, 1500), 3, 8):
            yield "clock-sampled-" + tz, seq, clock


def witnesses():
    """D8 (DESIGN §6) and its siblings: always replayed first."""
    seqs = [
        (("C", 1, None), ("S", 1, None, 1, 3, None, None), ("R", 1, None, 1)),
        (("C", 1, None), ("S", 1, None, 2, 3, None, None), ("P", 1, None, 2), ("R", 1, None, 2)),
        (("C", 1, None), ("S", 1, None, 1, 3, None, None), ("X", 1, None)),
        (("C", 1, 5), ("N", 1, 6), ("N", 2, 6)),
        (("S", 1, None, 1, 3, None, None), ("C", 1, None), ("P", 1, None, 0), ("R", 1, None, 0), ("R", 1, None, 1)),
    ]
    return [tuple(from_tuple(t) for t in seq) for seq in seqs]


def run(ctx, only=None):
    real = Real()
    if only is not None:
        check_batch(ctx, real, only, "replay")
        return
    clamp_grid(ctx, real)
    check_batch(ctx, real, witnesses(), "witness")

    full = alphabet(real, (1, 2), (1, 2, 3), rich=False)                    # 50 messages
    reduced = alphabet(real, (1, 2), (1, 2), rich=False, reduced=True)      # 28 messages
    fullset = set(full)

    def stream():
        # proto2 presence x value of every optional field the handlers read, from the descriptors
        for label, seqs in presence_families(real).items():
            for q in seqs:
                yield label, q
        # from the initial state, modulo renaming of clients / non-default players
        for q in sequences_exhaustive(full, ctx.scale(2, 3)):
            yield "exhaustive-full", q
        for q in sequences_exhaustive(reduced, ctx.scale(3, 4)):
            if len(q) > ctx.scale(2, 3) or any(m not in fullset for m in q):
                yield "exhaustive-reduced", q
        # every suffix after histories that leave something being reported
        for pi, pre in enumerate(prefixes(real)):
            for m in full:
                yield "after-prefix%d-full" % pi, pre + (m,)
            for t in itertools.product(full if ctx.thorough else reduced, repeat=2):
                yield "after-prefix%d-%s" % (pi, "full" if ctx.thorough else "reduced"), pre + t
            if ctx.thorough and pi < 2:
                for t in itertools.product(reduced, repeat=3):
                    yield "after-prefix%d-reduced" % pi, pre + t

    batch = []
    for item in stream():
        batch.append(item)
        if len(batch) >= 25000:
            check_batch(ctx, real, [q for _l, q in batch], [l for l, _q in batch])
            batch = []
    check_batch(ctx, real, [q for _l, q in batch], [l for l, _q in batch])
    ctx.exhaustive = True

    # many clients / players alive at once
    crowd = list(crowd_cases(real, ctx.rng.fork("crowd"), ctx.scale(300, 3000)))
    check_batch(ctx, real, [q for _l, q in crowd], [l for l, _q in crowd])
    # several messages handled while the listener is still suspended in state_updated()
    bursts = list(burst_cases(ctx, real, ctx.rng.fork("burst")))
    check_bursts(ctx, real, [c for _l, c in bursts], [l for l, _c in bursts])

    # the derived position must not depend on the host's timezone, only on the instant "now"
    fam = list(clock_family(ctx, real, ctx.rng.fork("clock")))
    check_batch(ctx, real, [q for _l, q, _c in fam], [l for l, _q, _c in fam], [c for _l, _q, c in fam])

    rich = alphabet(real, (0, 1, 2), (0, 1, 2, 3), rich=True, names=(None, 5))
    rng = ctx.rng.fork("sampled")
    n = ctx.scale(3000, 20000)
    check_batch(ctx, real, sample_sequences(real, rng, rich, n, 3, ctx.scale(10, 14)), "sampled")


def _seq_of(case):
    return tuple(M(k, spec) for k, spec in case["seq"])


def replay(ctx, failure):
    case = failure["case"]
    c2 = type(ctx)(ctx.prop, ctx.tier, ctx.seed, ctx.driver.driver_rel)
    if "seq" in case:
        real = Real()                # sets M.default_id / defaults before messages are rebuilt
        with real.clock(case.get("clock")):
            if "groups" in case:
                check_bursts(c2, real, [(_seq_of(case), case["groups"], case.get("suspend", 1))], "replay")
            else:
                check_batch(c2, real, [_seq_of(case)], "replay")
    else:
        clamp_grid(c2, Real())
    return bool(c2.failures)


def _fails_with(ctx, real, seq, sig, clock=None):
    c2 = type(ctx)(ctx.prop, ctx.tier, ctx.seed, ctx.driver.driver_rel)
    with real.clock(clock):
        steps = run_impl(real, [seq])[0]
        oracle(c2, real, seq, steps)
    return next((f for f in c2.failures if f["sig"] == sig), None)


def shrink(ctx, failure):
    """Drop messages one at a time while the real code still fails with the same signature."""
    case = failure["case"]
    if "seq" not in case or "groups" in case:
        return failure
    real = Real()
    seq = list(_seq_of(case))
    seq = seq[: case.get("step", len(seq) - 1) + 1]
    clock = case.get("clock")
    best = _fails_with(ctx, real, tuple(seq), failure["sig"], clock) or failure
    changed = True
    while changed and len(seq) > 1:
        changed = False
        for i in range(len(seq) - 1, -1, -1):
            cand = seq[:i] + seq[i + 1:]
            f = _fails_with(ctx, real, tuple(cand), failure["sig"], clock) if cand else None
            if f is not None:
                seq, best, changed = cand, f, True
                break
    return best
