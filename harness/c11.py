"""C11 — correspondence + direct oracle for the MRP now-playing state manager.

Real code driven (in-process, nothing of it replaced):
  * real protobuf `ProtocolMessage`s built with pyatv.protocols.mrp.messages.create and
    round-tripped through SerializeToString/FromString (what the connection would hand over),
  * a real `MrpProtocol` (it *is* the `MessageDispatcher`) with a stub connection; messages
    enter through `MrpProtocol.message_received` exactly as `MrpConnection` delivers them,
  * the real `PlayerStateManager` (it registers its eight handlers with `listen_to`),
  * the real `MrpMetadata.playing()` / `.app`, a counting listener on `psm.listener`,
  * `Playing.__init__/_post_process` for the clamping grid.
Only fakes: the connection object, the listener, a frozen `datetime.datetime.now()` inside
pyatv.protocols.mrp (the position computation reads the wall clock).

Message tuples (internal):  (kind, bundle, cname, player, payload…)  with identifier codes:
bundle 0 = unset, k -> "com.app<k>"; cname None | k -> "Name<k>"; player 0 = unset,
1 = DEFAULT_PLAYER_ID, k>=2 -> "p<k-2>"; title/item codes k -> "t<k>"/"i<k>" (0 = "").

Three comparisons per step:
  impl  vs  Lean model `run`  (correspondence: notified flag and every reported field),
  Lean `spec` vs Lean model   (sanity of the refinement theorem's two sides on the same input),
  impl  vs  `Ref` below       (direct oracle: a Python reference of the now-playing rules written
                               from the property text; independent of the Lean files).
"""
import asyncio
import hashlib
import itertools

RULE = ("message sequences over 2 clients x 3 players (default + 2; plus the unnamed player and an unset "
        "client in sampled runs) x the 8 message kinds x a small payload set: exhaustive up to a tier-dependent "
        "length modulo renaming of clients / non-default players, then sampled longer sequences from ctx.rng; "
        "plus the full grid of Playing(position, total_time). non-trivial = the sequence changes the reported "
        "view at least twice or removes a client/player that was being reported; distinct = the sequence itself")
ASSUMPTIONS = [
    "wall clock frozen (datetime.datetime.now inside pyatv.protocols.mrp) so that position is a function of the messages",
    "float-valued metadata (playbackRate, duration, elapsedTime, elapsedTimeTimestamp) takes integer values; durations are >= 0 (negative durations are outside the property's domain, DESIGN §8)",
    "PlaybackQueue.location >= 0",
    "a listener is installed on the PlayerStateManager for the whole run",
]
TRUSTED = ["stub connection + counting listener + frozen clock of harness/c11.py",
           "protobuf (de)serialisation", "asyncio task scheduling of MessageDispatcher.dispatch"]

NOW_UNIX = 1_700_000_000
COCOA_DELTA = 978307200
NOW = NOW_UNIX - COCOA_DELTA

KINDS = "SUCPNXRD"


# ----------------------------------------------------------------------------- encoding
def bundle_str(k):
    return None if k == 0 else "com.app%d" % k


def player_str(k, default_id):
    return None if k == 0 else (default_id if k == 1 else "p%d" % (k - 2))


def _opt(x):
    return "_" if x is None else str(x)


def item_wire(it):
    ident, title, rate, dur, el, ts = it
    return "~".join([str(ident), _opt(title), _opt(rate), _opt(dur), _opt(el), _opt(ts)])


def cmds_wire(cmds, absent="_"):
    if cmds is None:
        return absent
    if not cmds:
        return "="
    return ",".join("%d.%d.%d" % c for c in cmds)


def wire(msg, default_id):
    k = msg[0]
    b, n = str(msg[1]), _opt(msg[2])
    if k in "CNX":
        return ":".join([k, b, n])
    p = "_" if msg[3] == 0 else player_str(msg[3], default_id)
    if k in "PR":
        return ":".join([k, b, n, p])
    if k == "S":
        _, _, _, _, ps, cmds, queue = msg
        q = "_" if queue is None else ";".join([str(queue[0])] + [item_wire(i) for i in queue[1]])
        return ":".join([k, b, n, p, _opt(ps), cmds_wire(cmds), q])
    if k == "U":
        items = msg[4]
        return ":".join([k, b, n, p, ";".join(item_wire(i) for i in items) if items else "="])
    if k == "D":
        return ":".join([k, b, n, p, cmds_wire(msg[4], absent="=")])
    raise ValueError(k)


class Real:
    """Everything imported from the tree under test, plus message construction."""

    def __init__(self):
        import datetime as _dt

        import pyatv.protocols.mrp as mrp
        from pyatv import interface
        from pyatv.protocols.mrp import messages, player_state
        from pyatv.protocols.mrp import protobuf as pb
        from pyatv.protocols.mrp.protocol import MrpProtocol

        self.mrp, self.pb, self.messages, self.player_state = mrp, pb, messages, player_state
        self.MrpProtocol, self.interface = MrpProtocol, interface
        self.default_id = player_state.DEFAULT_PLAYER_ID
        self.types = {
            "S": pb.SET_STATE_MESSAGE, "U": pb.UPDATE_CONTENT_ITEM_MESSAGE,
            "C": pb.SET_NOW_PLAYING_CLIENT_MESSAGE, "P": pb.SET_NOW_PLAYING_PLAYER_MESSAGE,
            "N": pb.UPDATE_CLIENT_MESSAGE, "X": pb.REMOVE_CLIENT_MESSAGE,
            "R": pb.REMOVE_PLAYER_MESSAGE, "D": pb.SET_DEFAULT_SUPPORTED_COMMANDS_MESSAGE,
        }
        self._bytes = {}

        frozen = _dt.datetime.fromtimestamp(NOW_UNIX)

        class FrozenDateTime(_dt.datetime):
            @classmethod
            def now(cls, tz=None):
                return frozen

        class Shim:
            datetime = FrozenDateTime

            def __getattr__(self, name):
                return getattr(_dt, name)

        self._shim = Shim()
        self._orig_dt = None

    def freeze(self):
        self._orig_dt = self.mrp.datetime
        self.mrp.datetime = self._shim

    def thaw(self):
        if self._orig_dt is not None:
            self.mrp.datetime = self._orig_dt

    # -- protobuf construction ---------------------------------------------------------
    def _client(self, c, msg):
        if msg[1]:
            c.bundleIdentifier = bundle_str(msg[1])
        if msg[2] is not None:
            c.displayName = "Name%d" % msg[2]

    def _path(self, inner, msg):
        self._client(inner.playerPath.client, msg)
        if msg[3]:
            inner.playerPath.player.identifier = player_str(msg[3], self.default_id)

    def _item(self, item, it):
        ident, title, rate, dur, el, ts = it
        if ident:
            item.identifier = "i%d" % ident
        md = item.metadata
        if title is not None:
            md.title = "t%d" % title if title else ""
        if rate is not None:
            md.playbackRate = float(rate)
        if dur is not None:
            md.duration = float(dur)
        if el is not None:
            md.elapsedTime = float(el)
        if ts is not None:
            md.elapsedTimeTimestamp = float(ts)

    def _cmds(self, sc, cmds):
        sc.SetInParent()
        for (c, sh, rp) in cmds:
            ci = sc.supportedCommands.add()
            ci.command = c
            ci.shuffleMode = sh
            ci.repeatMode = rp

    def build(self, msg):
        """A fresh real ProtocolMessage for the tuple (parsed from its serialisation)."""
        data = self._bytes.get(msg)
        if data is None:
            m = self.messages.create(self.types[msg[0]])
            inner = m.inner()
            k = msg[0]
            if k in "CNX":
                self._client(inner.client, msg)
            else:
                self._path(inner, msg)
            if k == "S":
                _, _, _, _, ps, cmds, queue = msg
                if ps is not None:
                    inner.playbackState = ps
                if cmds is not None:
                    self._cmds(inner.supportedCommands, cmds)
                if queue is not None:
                    inner.playbackQueue.SetInParent()
                    inner.playbackQueue.location = queue[0]
                    for it in queue[1]:
                        self._item(inner.playbackQueue.contentItems.add(), it)
            elif k == "U":
                for it in msg[4]:
                    self._item(inner.contentItems.add(), it)
            elif k == "D":
                self._cmds(inner.supportedCommands, msg[4])
            data = self._bytes[msg] = m.SerializeToString()
        return self.pb.ProtocolMessage.FromString(data)


class _Conn:
    listener = None

    def close(self):
        pass

    def __str__(self):
        return "verif"


class _Listener:
    def __init__(self):
        self.count = 0

    async def state_updated(self):
        self.count += 1


def _errname(exc):
    return "err:" + type(exc).__name__


class Impl:
    """One real PlayerStateManager + MrpMetadata behind one real MrpProtocol dispatcher."""

    def __init__(self, real):
        self.real = real
        self.prot = real.MrpProtocol(_Conn(), None, None, None)
        self.psm = real.player_state.PlayerStateManager(self.prot)
        self.listener = _Listener()
        self.psm.listener = self.listener
        self.md = real.mrp.MrpMetadata(self.prot, self.psm, "verif", None)
        self.pending = []
        orig = self.prot.dispatch

        def dispatch(t, message):           # only records the tasks the real dispatch created
            tasks = orig(t, message)
            self.pending.extend(tasks)
            return tasks

        self.prot.dispatch = dispatch

    async def feed(self, msg):
        """Deliver one message; returns (listener calls, view) or an error observation."""
        before = self.listener.count
        m = self.real.build(msg)
        self.prot.message_received(m, None)
        pending, self.pending = self.pending, []
        for t in pending:
            await t
        return (self.listener.count - before, await self.view())

    async def view(self):
        try:
            p = await self.md.playing()
            app = self.md.app
        except Exception as exc:  # observation, not a crash
            return _errname(exc)
        return view_of(p, app)


def _code(s, prefix):
    if s is None:
        return None
    if s == "":
        return 0
    if s.startswith(prefix) and s[len(prefix):].isdigit():
        return int(s[len(prefix):])
    return "?" + s


def view_of(p, app):
    sha = hashlib.sha256(f"{p.title}{p.artist}{p.album}{p.total_time}".encode()).hexdigest()
    h = p.hash
    h = "sha" if h == sha else _code(h, "i")
    a = None
    if app is not None:
        a = (_code(app.name, "Name"), _code(app.identifier, "com.app"))
    return (p.device_state.value, _code(p.title, "t"), h, p.total_time, p.position,
            p.shuffle.value, p.repeat.value, a)


def parse_report(txt):
    """Lean `report` -> same tuple shape as view_of."""
    if txt == "dangling":
        return "dangling"
    st, title, h, total, pos, sh, rp, app = txt.split("/")
    o = lambda x: None if x == "_" else int(x)
    hh = o(h)
    hh = "sha" if not hh else hh
    a = None
    if app != "_":
        n, b = app.split("@")
        a = (o(n), int(b) if int(b) else 0)
    return (int(st), o(title), hh, o(total), o(pos), int(sh), int(rp), a)


# ----------------------------------------------------------------------------- reference
class Ref:
    """Reference of the MRP now-playing rules, from the property text: per (client, player) the
    most recent state; one active client; per client one chosen player, else its default
    player; removal forgets; nothing active -> idle."""

    def __init__(self, real):
        pb, const = real.pb, __import__("pyatv.const", fromlist=["x"])
        self.PS = pb.PlaybackState
        self.const = const
        from pyatv.protocols.mrp.protobuf import CommandInfo_pb2
        self.shuffle_cmd, self.repeat_cmd = CommandInfo_pb2.ChangeShuffleMode, CommandInfo_pb2.ChangeRepeatMode
        self.sh = (pb.ShuffleMode.Off, pb.ShuffleMode.Albums)
        self.rp = (pb.RepeatMode.One, pb.RepeatMode.All)
        self.active = None
        self.clients = {}

    def client(self, b, name):
        if b not in self.clients:
            self.clients[b] = {"name": name, "cmds": [], "chosen": None, "players": {}}
        return self.clients[b]

    def player(self, c, p):
        return c["players"].setdefault(p, {"ps": None, "cmds": [], "items": [], "loc": 0})

    def serving(self):
        if self.active is None:
            return None
        c = self.clients[self.active]
        return (self.active, c["chosen"] if c["chosen"] is not None else 1)

    def step(self, msg):
        k, b, name = msg[0], msg[1], msg[2]
        if k == "X":
            if b in self.clients:
                del self.clients[b]
                if self.active == b:
                    self.active = None
            return
        c = self.client(b, name)
        if k == "C":
            self.active = b
        elif k == "N":
            if name is not None:
                c["name"] = name
        elif k == "D":
            c["cmds"] = list(msg[4])
        elif k == "P":
            c["chosen"] = msg[3]
        elif k == "R":
            if msg[3] != 0:
                c["players"].pop(msg[3], None)
                if c["chosen"] == msg[3]:
                    c["chosen"] = None
        elif k == "S":
            pl = self.player(c, msg[3])
            _, _, _, _, ps, cmds, queue = msg
            if ps is not None:
                pl["ps"] = ps
            if cmds is not None:
                pl["cmds"] = list(cmds)
            if queue is not None:
                pl["loc"], pl["items"] = queue[0], [list(i) for i in queue[1]]
        elif k == "U":
            pl = self.player(c, msg[3])
            for u in msg[4]:
                for e in pl["items"]:
                    if e[0] == u[0]:
                        for j in range(1, 6):
                            if u[j] is not None:
                                e[j] = u[j]

    def report(self):
        DS = self.const.DeviceState
        sv = self.serving()
        if sv is None:
            return (DS.Idle.value, None, "sha", None, None, 0, 0, None)
        b, p = sv
        c = self.clients[b]
        pl = c["players"].get(p, {"ps": None, "cmds": [], "items": [], "loc": 0})
        item = pl["items"][pl["loc"]] if pl["loc"] < len(pl["items"]) else None
        PS = self.PS
        ps = pl["ps"]
        if ps is None:
            st = DS.Idle
        elif ps == PS.Paused:
            st = DS.Paused if item is not None else DS.Idle
        elif ps == PS.Playing:
            rate = item[2] if item is not None else None
            st = DS.Playing if rate in (None, 0, 1) else DS.Seeking
        else:
            st = {PS.Stopped: DS.Stopped, PS.Interrupted: DS.Loading, PS.Seeking: DS.Seeking}.get(ps, DS.Paused)
        title = total = pos = None
        ident = "sha"
        if item is not None:
            ident = item[0] or "sha"
            title, rate, total, el, ts = item[1], item[2], item[3], item[4], item[5]
            if ts:
                pos = el or 0
                if st == DS.Playing and rate:
                    pos += NOW - ts
                if pos:
                    pos = max(pos, 0)
                    if total:
                        pos = min(pos, total)
        shuffle = repeat = 0
        for cmd in pl["cmds"] + c["cmds"]:
            if cmd[0] == self.shuffle_cmd:
                shuffle = 0 if cmd[1] == self.sh[0] else (1 if cmd[1] == self.sh[1] else 2)
                break
        for cmd in pl["cmds"] + c["cmds"]:
            if cmd[0] == self.repeat_cmd:
                repeat = 1 if cmd[2] == self.rp[0] else (2 if cmd[2] == self.rp[1] else 0)
                break
        return (st.value, title, ident, total, pos, shuffle, repeat, (c["name"], b))


# ----------------------------------------------------------------------------- generators
def payloads(real, rich):
    """Small field domain.  Items: (ident, title, rate, duration, elapsed, timestamp)."""
    pb = real.pb
    from pyatv.protocols.mrp.protobuf import CommandInfo_pb2
    PS = pb.PlaybackState
    it1 = (1, 1, 1, 100, 10, NOW - 10)
    sh = (CommandInfo_pb2.ChangeShuffleMode, pb.ShuffleMode.Songs, 0)
    rp = (CommandInfo_pb2.ChangeRepeatMode, 0, pb.RepeatMode.All)
    set_state = [
        (PS.Playing, None, None),
        (PS.Paused, None, None),
        (PS.Stopped, None, None),
        (None, None, (0, (it1,))),
    ]
    update = [((1, 2, 2, None, None, None),)]
    defaults = [(sh,)]
    if rich:
        it2 = (2, 3, 0, 50, 70, NOW - 30)       # elapsed beyond duration
        it3 = (0, None, 2, 0, -5, NOW + 20)      # no identifier, zero duration, negative elapsed, future timestamp
        it4 = (3, 0, None, None, None, 0)        # empty title, zero timestamp
        it5 = (1, 4, 1, 20, 5, NOW - 100)        # running past the end
        set_state += [
            (PS.Playing, (rp,), (0, (it1, it2))),
            (PS.Playing, None, (1, (it1, it2))),
            (PS.Playing, (), (0, (it5,))),
            (PS.Paused, None, (0, (it3,))),
            (PS.Seeking, None, None), (PS.Interrupted, None, None), (PS.Unknown, None, None),
            (None, (sh, rp), None),
            (None, None, (2, (it1,))),           # location beyond the queue
            (None, None, (0, ())),
            (PS.Playing, None, (0, (it4,))),
        ]
        update += [((1, None, 0, None, 200, None), (2, 5, None, 10, None, None)),
                   ((9, 6, None, None, None, None),), (),
                   ((1, None, None, None, None, NOW + 50),)]
        defaults += [(), (rp, sh), ((CommandInfo_pb2.ChangeShuffleMode, pb.ShuffleMode.Off, 0),),
                     ((CommandInfo_pb2.ChangeShuffleMode, pb.ShuffleMode.Albums, 0),
                      (CommandInfo_pb2.ChangeRepeatMode, 0, pb.RepeatMode.One))]
    return set_state, update, defaults


def alphabet(real, clients, players, rich, names=(None,), reduced=False):
    set_state, update, defaults = payloads(real, rich)
    if reduced:
        PS = real.pb.PlaybackState
        set_state = [(PS.Playing, None, (0, ((1, 1, 1, 100, 10, NOW - 10),))), (PS.Stopped, None, None)]
    out = []
    for b in clients:
        for n in names:
            out += [("C", b, n), ("X", b, n)]
            out.append(("N", b, n if n is not None else 7))
            for d in defaults:
                out.append(("D", b, n, players[0], d))
            for p in players:
                out += [("P", b, n, p), ("R", b, n, p)]
                for (ps, cmds, q) in set_state:
                    out.append(("S", b, n, p, ps, cmds, q))
                for u in update:
                    out.append(("U", b, n, p, u))
    return out


def prefixes(real):
    """Histories after which something is being reported (so that suffixes act on a live state)."""
    PS = real.pb.PlaybackState
    it1 = (1, 1, 1, 100, 10, NOW - 10)
    it2 = (2, 3, 0, 50, 70, NOW - 30)
    return [
        (("C", 1, None), ("S", 1, None, 1, PS.Playing, None, (0, (it1,)))),
        (("C", 1, 5), ("P", 1, None, 2), ("S", 1, None, 2, PS.Playing, None, (0, (it1,))),
         ("S", 1, None, 1, PS.Paused, None, (0, (it2,)))),
        (("S", 2, None, 1, PS.Stopped, None, None), ("C", 2, None), ("C", 1, None), ("S", 1, None, 2, PS.Stopped, None, None)),
        (("C", 1, None), ("P", 1, None, 3), ("S", 1, None, 3, PS.Seeking, None, (1, (it2, it1))), ("P", 2, None, 3),
         ("S", 2, None, 3, PS.Playing, None, None)),
    ]


def canonical(seq):
    """Representative modulo renaming clients 1<->2 and non-default players 2<->3: first
    mentioned client is 1, first mentioned non-default player is 2."""
    for m in seq:
        if m[1] in (1, 2):
            if m[1] != 1:
                return False
            break
    for m in seq:
        if m[0] not in "CNX" and m[3] in (2, 3):
            return m[3] == 2
    return True


def sequences_exhaustive(alpha, maxlen):
    for n in range(1, maxlen + 1):
        for t in itertools.product(alpha, repeat=n):
            if canonical(t):
                yield t


def sample_sequences(rng, alpha, count, lo, hi):
    """Focused random histories: a focus client (activated early, most of the time) receives most
    of the traffic, and within it a focus player; the rest is noise about other clients/players."""
    by_client = {}
    for m in alpha:
        by_client.setdefault(m[1], []).append(m)
    clients = sorted(by_client)
    for _ in range(count):
        n = rng.randint(lo, hi)
        focus = rng.choice(clients)
        mine = by_client[focus]
        fplayer = rng.choice([1, 1, 2, 3, 0])
        mine_p = [m for m in mine if m[0] in "CNXD" or m[3] == fplayer]
        activate = [m for m in mine if m[0] == "C"]
        p_noise = rng.choice([0.1, 0.3, 0.6])
        seq = []
        for i in range(n):
            r = rng.random()
            if i == 0 and rng.chance(0.8):
                seq.append(rng.choice(activate))
            elif r < p_noise:
                seq.append(rng.choice(alpha))
            elif r < p_noise + (1 - p_noise) * 0.6:
                seq.append(rng.choice(mine_p))
            else:
                seq.append(rng.choice(mine))
        yield tuple(seq)


# ----------------------------------------------------------------------------- running
async def _run_impl(real, seqs):
    out = []
    for seq in seqs:
        try:
            impl = Impl(real)
            steps = [(0, await impl.view())]
            for msg in seq:
                try:
                    steps.append(await impl.feed(msg))
                except Exception as exc:
                    steps.append((0, _errname(exc)))
        except Exception as exc:
            steps = [(0, _errname(exc))] * (len(seq) + 1)
        out.append(steps)
    return out


def run_impl(real, seqs):
    loop = asyncio.new_event_loop()
    real.freeze()
    try:
        return loop.run_until_complete(_run_impl(real, seqs))
    finally:
        real.thaw()
        loop.close()




def oracle(ctx, real, seq, steps):
    """The property evaluated on the real code's observations, against the reference."""
    ref = Ref(real)
    prev_impl = steps[0][1]
    if prev_impl != ref.report():
        ctx.fail("initial-not-idle", {"seq": []}, _jsonable(prev_impl), list(ref.report()), "before any message the report is not idle")
        return 0, False
    changes = 0
    removed_serving = False
    for i, (msg, (notified, view)) in enumerate(zip(seq, steps[1:])):
        serving_before = ref.serving()
        ref.step(msg)
        want = ref.report()
        k = msg[0]
        case = {"seq": [list(map(_jsonable, m)) for m in seq], "step": i}
        if isinstance(view, str):
            ctx.fail(f"exception:{k}:{view}", case, view, list(want), "the real code raised while reporting the now-playing state")
            return changes, removed_serving
        about = (msg[1], msg[3]) if k in "SUR" else None
        if k == "X" and serving_before and serving_before[0] == msg[1]:
            removed_serving = True
        if k == "R" and serving_before == about and msg[3] != 0:
            removed_serving = True
        # the app's display name is compared by the correspondence only: which message may carry
        # a client's name is an MRP detail the property text does not fix
        if _no_name(view) != _no_name(want):
            if about is not None and serving_before != about and view != prev_impl:
                ctx.fail(f"other-player-changed-report:{k}", case, list(view), list(prev_impl),
                         "a message about a player that is not the active player of the active client changed the reported state")
            elif k in "XR" and removed_serving:
                ctx.fail(f"remove-active-not-reset:{k}", case, list(view), list(want),
                         "removing the active client/player did not return the report to idle / the default player")
            else:
                ctx.fail(f"report-mismatch:{k}", case, list(view), list(want),
                         "reported state is not derived from the most recent state of the active player of the active client")
        if view != prev_impl:
            changes += 1
            if not notified:
                ctx.fail(f"no-wake:{k}", case, {"before": list(prev_impl), "after": list(view), "listener_calls": notified},
                         "listener.state_updated() called", "the reported state changed but the listener was not woken")
        pos, total = view[4], view[3]
        if pos is not None and (pos < 0 or (total is not None and total > 0 and pos > total)):
            ctx.fail("position-out-of-range", case, {"position": pos, "total": total}, "0 <= position <= total", "reported position outside [0, total]")
        prev_impl = view
    return changes, removed_serving


def _no_name(v):
    return tuple(v[:7]) + ((v[7][1] if v[7] is not None else None),)


def _jsonable(x):
    if isinstance(x, tuple):
        return [_jsonable(y) for y in x]
    return x


def _tuplify(x):
    if isinstance(x, list):
        return tuple(_tuplify(y) for y in x)
    return x


def check_batch(ctx, real, seqs, label):
    """Run a batch on the real code, the Lean model and the Lean spec; diff; oracle."""
    seqs = list(seqs)
    if not seqs:
        return
    impl = run_impl(real, seqs)
    lines = []
    for seq in seqs:
        ws = " ".join(wire(m, real.default_id) for m in seq)
        lines.append(f"run 1 {NOW} {ws}")
        lines.append(f"spec {NOW} {ws}")
    answers = ctx.lean(lines)
    for idx, (seq, steps) in enumerate(zip(seqs, impl)):
        model = answers[2 * idx].split(",")
        spec = answers[2 * idx + 1].split(",")
        kinds = "".join(m[0] for m in seq)
        ctx.note("len:%d" % len(seq))
        ctx.note("set:" + label)
        for m in seq:
            ctx.note("kind:" + m[0])
        case = {"seq": [_jsonable(m) for m in seq]}
        if len(model) != len(seq) or len(spec) != len(seq) or answers[2 * idx] == "bad-op":
            ctx.disagree(case, "n/a", answers[2 * idx], where="driver answer shape")
            continue
        for i, ((notified, view), mtxt, stxt) in enumerate(zip(steps[1:], model, spec)):
            mn, mrep = mtxt.split("/", 1)
            mview = parse_report(mrep)
            if isinstance(view, str) or mview != view or int(mn) != (1 if notified else 0) or notified > 1:
                ctx.disagree(dict(case, step=i), [notified, _jsonable(view)], mtxt, where="model vs real PlayerStateManager/MrpMetadata")
                break
            if parse_report(stxt) != mview:
                ctx.disagree(dict(case, step=i), stxt, mtxt, where="Lean spec vs Lean model (refinement sides)")
                break
            if not isinstance(view, str):
                ctx.note("state:%d" % view[0])
                ctx.note("notified:%d" % (1 if notified else 0))
        ctx.validated()
        changes, removed = oracle(ctx, real, seq, steps)
        ctx.case([label, case["seq"]], changes >= 2 or removed, sample={"kinds": kinds, "seq": case["seq"]} if removed and changes >= 2 else None)


def clamp_grid(ctx, real):
    """Playing._post_process on the full small grid, vs the Lean `post` op and the bounds."""
    Playing = real.interface.Playing
    vals = [None] + list(range(-4, 12))
    totals = [None] + list(range(0, 9))
    cases = [(p, t) for p in vals for t in totals]
    answers = ctx.lean([f"post {_opt(p)} {_opt(t)}" for p, t in cases])
    for (p, t), ans in zip(cases, answers):
        try:
            got = Playing(position=p, total_time=t).position
        except Exception as exc:
            got = _errname(exc)
        ctx.note("clamp-grid")
        ctx.case(["clamp", p, t], p is not None and t is not None and (p < 0 or p > t), sample=None)
        if _opt(got) != ans:
            ctx.disagree({"position": p, "total": t}, got, ans, where="Playing._post_process")
        ctx.validated()
        if isinstance(got, str) or (got is not None and (got < 0 or (t is not None and t > 0 and got > t))):
            ctx.fail("position-clamp", {"position": p, "total": t}, got, "0 <= position and (total > 0 -> position <= total)",
                     "Playing reports a position outside [0, total_time]")


D8 = (("C", 1, None), ("S", 1, None, 1, 3, None, None), ("R", 1, None, 1))


def run(ctx, only=None):
    real = Real()
    if only is not None:
        check_batch(ctx, real, only, "replay")
        return
    clamp_grid(ctx, real)
    # the D8 witness (DESIGN §6) and its siblings are always replayed first
    siblings = [
        D8,
        (("C", 1, None), ("S", 1, None, 2, 3, None, None), ("P", 1, None, 2), ("R", 1, None, 2)),
        (("C", 1, None), ("S", 1, None, 1, 3, None, None), ("X", 1, None)),
        (("C", 1, 5), ("N", 1, 6), ("N", 2, 6)),
        (("S", 1, None, 1, 3, None, None), ("C", 1, None), ("P", 1, None, 0), ("R", 1, None, 0), ("R", 1, None, 1)),
    ]
    check_batch(ctx, real, siblings, "witness")

    full = alphabet(real, (1, 2), (1, 2, 3), rich=False)                    # 50 messages
    reduced = alphabet(real, (1, 2), (1, 2), rich=False, reduced=True)      # 28 messages

    def exhaustive(seqs, label):
        batch = []
        for seq in seqs:
            batch.append(seq)
            if len(batch) >= 20000:
                check_batch(ctx, real, batch, label)
                batch = []
        check_batch(ctx, real, batch, label)

    # from the initial state, modulo renaming of clients / non-default players
    exhaustive(sequences_exhaustive(full, ctx.scale(2, 3)), "exhaustive-full")
    exhaustive((s for s in sequences_exhaustive(reduced, ctx.scale(3, 4)) if len(s) > ctx.scale(2, 3)
                or any(m not in full for m in s)), "exhaustive-reduced")
    # every suffix after histories that leave something being reported
    for pi, pre in enumerate(prefixes(real)):
        exhaustive((pre + t for n in range(1, ctx.scale(2, 2) + 1) for t in itertools.product(full, repeat=n)),
                   "after-prefix%d-full" % pi)
        if ctx.thorough:
            exhaustive((pre + t for t in itertools.product(reduced, repeat=3)), "after-prefix%d-reduced" % pi)
    ctx.exhaustive = True

    rich = alphabet(real, (0, 1, 2), (0, 1, 2, 3), rich=True, names=(None, 5))
    rng = ctx.rng.fork("sampled")
    n = ctx.scale(5000, 60000)
    check_batch(ctx, real, sample_sequences(rng, rich, n, 3, ctx.scale(10, 14)), "sampled")


def replay(ctx, failure):
    case = failure["case"]
    c2 = type(ctx)(ctx.prop, ctx.tier, ctx.seed, ctx.driver.driver_rel)
    if "seq" in case:
        run(c2, only=[tuple(_tuplify(m) for m in case["seq"])])
    else:
        clamp_grid(c2, Real())
    return bool(c2.failures)


def _fails_with(ctx, seq, sig):
    c2 = type(ctx)(ctx.prop, ctx.tier, ctx.seed, ctx.driver.driver_rel)
    real = Real()
    steps = run_impl(real, [seq])[0]
    oracle(c2, real, seq, steps)
    return next((f for f in c2.failures if f["sig"] == sig), None)


def shrink(ctx, failure):
    """Drop messages one at a time while the real code still fails with the same signature."""
    case = failure["case"]
    if "seq" not in case:
        return failure
    seq = [tuple(_tuplify(m)) for m in case["seq"]]
    seq = seq[: case.get("step", len(seq) - 1) + 1]
    best = _fails_with(ctx, tuple(seq), failure["sig"]) or failure
    changed = True
    while changed and len(seq) > 1:
        changed = False
        for i in range(len(seq) - 1, -1, -1):
            cand = seq[:i] + seq[i + 1:]
            f = _fails_with(ctx, tuple(cand), failure["sig"]) if cand else None
            if f is not None:
                seq, best, changed = cand, f, True
                break
    return best
