"""C04 / credential strings — correspondence + direct oracle.

Real code driven: pyatv.auth.hap_pairing.HapCredentials (constructor, __str__, __eq__, .type)
and parse_credentials.
Model lines (Driver/C04Creds.lean): `s hex hex hex hex` -> `<type> <str>` | err;  `p <code points>` /
`pn` -> `ok hex hex hex hex <type>` | `err:<class>`.

Case kinds
  enc      constructible credentials of every type (Null, Transient, Legacy, HAP; fields of 1..64
           bytes incl. 0x00, 0xff and 0x3a = ':'): str(c), parse(str(c)), round trip field by field
  ctor     field combinations the constructor rejects (error class)
  upper    the same string in upper / mixed case hex (legal input the encoder never emits)
  legacy   the 2-field form `client_id:ltsk`
  bad      wrong field count, odd-length / non-hex / non-ASCII fields, stray characters, None
The reference writer is ":".join(field.hex()) in the order ltpk, ltsk, atv_id, client_id.
"""

PROPS_FILES = ["PyatvModel/Props/C04Creds.lean"]
LEAN_TARGETS = ["PyatvModel.Props.C04Creds", "PyatvModel.C04.Creds.Driver"]
DRIVER = "Driver/C04Creds.lean"
RULE = ("credentials of each authentication type with field lengths from {1,2,16,32,36,64,random} and bytes biased "
        "to 00/ff/3a; rejected field combinations; upper/mixed-case spellings; legacy 2-field strings; malformed "
        "strings (1/3/5+ fields, odd length, non-hex, non-ASCII, spaces) and None. non-trivial = anything but the "
        "all-empty credentials; distinct = (kind, fields / string)")
ASSUMPTIONS = ["creds: CPython binascii.hexlify/unhexlify semantics are modelled (lower-case output; both cases, "
               "even length, ASCII only on input), not verified"]
TRUSTED = ["harness/c04_creds.py reference credential writer"]

ORDER = ("ltpk", "ltsk", "atv_id", "client_id")


def _hex(b):
    return bytes(b).hex() if b else "-"


def _obs(fn, *a):
    try:
        return ("ok", fn(*a))
    except Exception as e:
        return ("err", type(e).__name__)


def _cps(s):
    return ",".join(str(ord(ch)) for ch in s) if s else "-"


def _field(rng, allow_empty=False):
    ln = rng.choice([1, 1, 2, 16, 32, 32, 36, 64, rng.randint(1, 80)])
    if allow_empty and rng.chance(0.3):
        ln = 0
    mode = rng.randint(0, 3)
    if mode == 0:
        return bytes(rng.choice([0x00, 0xFF, 0x3A, 0x0A, 0x41]) for _ in range(ln))
    return rng.bytes_(ln)


def gen_cases(ctx):
    rng = ctx.rng.fork("creds")
    cases = [{"kind": "enc", "f": ["", "", "", ""]},
             {"kind": "enc", "f": [b"transient".hex(), "", "", ""]},
             {"kind": "enc", "f": ["3a", "3a3a", "003a", "ff"]},
             {"kind": "bad", "s": None}]
    for _ in range(ctx.scale(600, 6000)):
        t = rng.choice(["hap", "hap", "legacy", "transient"])
        if t == "hap":
            f = [_field(rng) for _ in range(4)]
        elif t == "legacy":
            f = [b"", _field(rng), b"", _field(rng)]
        else:
            f = [b"transient"] + [_field(rng, allow_empty=True) for _ in range(3)]
        cases.append({"kind": "enc", "f": [x.hex() for x in f]})
    for _ in range(ctx.scale(60, 1000)):
        f = [_field(rng, allow_empty=True) if rng.chance(0.6) else b"" for _ in range(4)]
        cases.append({"kind": "ctor", "f": [x.hex() for x in f]})
    for _ in range(ctx.scale(80, 1500)):
        f = [_field(rng) for _ in range(4)]
        s = ":".join(x.hex() for x in f)
        s = "".join(ch.upper() if rng.chance(0.5) else ch for ch in s)
        cases.append({"kind": "upper", "f": [x.hex() for x in f], "s": s})
    for _ in range(ctx.scale(60, 1000)):
        cid, ltsk = _field(rng, allow_empty=True), _field(rng, allow_empty=True)
        cases.append({"kind": "legacy", "f": ["", ltsk.hex(), "", cid.hex()], "s": cid.hex() + ":" + ltsk.hex()})
    junk = ["", ":", "::", ":::", "::::", "a", "ab", "ab:c", "ab:cd:ef", "ab:cd:ef:01:23", "zz:00:00:00", "0g:11",
            "ab :cd", " ab:cd", "ab:cd\n", "é:00", "00:é", "00:00:00:€0", "0:0:0:0", "abc:de:f0:11", "ab;cd;ef;01",
            "ab:cd:ef:0x", "AB:CD", "aB:Cd:eF:01"]
    for s in junk:
        cases.append({"kind": "bad", "s": s})
    alphabet = "0123456789abcdefABCDEF::::  gxé\n-"
    for _ in range(ctx.scale(150, 4000)):
        n = rng.randint(0, 24)
        cases.append({"kind": "bad", "s": "".join(rng.choice(alphabet) for _ in range(n))})
    return cases


def _mk(case):
    from pyatv.auth.hap_pairing import HapCredentials

    return HapCredentials(*[bytes.fromhex(x) for x in case["f"]])


def _dump(c):
    """typed field dump of a HapCredentials, or a complaint"""
    out = []
    for name in ORDER:
        v = getattr(c, name, None)
        if type(v) is not bytes:
            return "bad-type:%s=%s" % (name, type(v).__name__)
        out.append(v.hex())
    return out + [getattr(getattr(c, "type", None), "name", "?")]


def oracle(case):
    from pyatv.auth import hap_pairing

    out = []
    kind = case["kind"]
    if kind == "enc":
        c = _obs(_mk, case)
        if c[0] != "ok":
            return [("creds:ctor-raises", repr(c), "HapCredentials", "constructor rejected credentials of a defined type")]
        s = _obs(str, c[1])
        ref = ":".join(case["f"])
        if s != ("ok", ref):
            out.append(("creds:ref-encode", repr(s), ref, "str(credentials) differs from ':'.join(hex fields)"))
        if s[0] != "ok":
            return out
        p = _obs(hap_pairing.parse_credentials, s[1])
        got = _dump(p[1]) if p[0] == "ok" else "err:" + p[1]
        want = _dump(c[1])
        if got != want or want[:4] != case["f"]:
            out.append(("creds:roundtrip", repr(got), repr(want), "parse_credentials(str(c)) != c (field by field, typed)"))
        elif not (p[1] == c[1]):
            out.append(("creds:eq", "parsed != original under __eq__", "equal", "HapCredentials.__eq__ disagrees with field equality"))
    elif kind in ("upper", "legacy"):
        p = _obs(hap_pairing.parse_credentials, case["s"])
        got = _dump(p[1]) if p[0] == "ok" else "err:" + p[1]
        c = _obs(_mk, case)
        want = _dump(c[1]) if c[0] == "ok" else "err:" + c[1]
        if got != want:
            out.append((f"creds:{kind}-decode", repr(got), repr(want),
                        "upper/mixed-case hex must parse like lower case" if kind == "upper" else
                        "legacy 2-field form must parse to HapCredentials(b'', ltsk, b'', client_id)"))
    return out


def run(ctx, only=None):
    from pyatv.auth import hap_pairing

    cases = only if only is not None else gen_cases(ctx)
    lines, plan = [], []
    for c in cases:
        if c["kind"] in ("enc", "ctor"):
            lines.append("s " + " ".join(x or "-" for x in c["f"]))
            obj = _obs(_mk, c)
            s = _obs(str, obj[1]) if obj[0] == "ok" else None
            if s is not None and s[0] == "ok" and isinstance(s[1], str) and all(ord(ch) < 0x110000 for ch in s[1]):
                lines.append("p " + _cps(s[1]))
            else:
                s = None
            plan.append((c, obj, s))
        else:
            lines.append("pn" if c["s"] is None else "p " + _cps(c["s"]))
            plan.append((c, None, None))
    answers = iter(ctx.lean(lines, driver=DRIVER))

    def show_parse(p):
        if p[0] != "ok":
            return "err:" + p[1]
        d = _dump(p[1])
        return "ok " + " ".join((x or "-") for x in d) if isinstance(d, list) else "err:" + d

    for c, obj, s in plan:
        kind = c["kind"]
        ctx.note("creds:kind:" + kind)
        if kind in ("enc", "ctor"):
            m = next(answers)
            if obj[0] == "ok":
                impl = f"{getattr(getattr(obj[1], 'type', None), 'name', '?')} {s[1] if s else '<str failed>'}"
            else:
                impl = "err:" + obj[1]
            if impl != m:
                ctx.disagree(c, impl, m, where="creds HapCredentials()/__str__")
            ctx.validated()
            ctx.note("creds:type:" + impl.split(" ")[0])
            if s is not None:
                m = next(answers)
                impl = show_parse(_obs(hap_pairing.parse_credentials, s[1]))
                if impl != m:
                    ctx.disagree(c, impl, m, where="creds parse_credentials(str(c))")
                ctx.validated()
        else:
            m = next(answers)
            impl = show_parse(_obs(hap_pairing.parse_credentials, c["s"]))
            if impl != m:
                ctx.disagree(c, impl, m, where="creds parse_credentials")
            ctx.validated()
            ctx.note("creds:parse:" + impl.split(" ")[0])
        nontrivial = not (kind == "enc" and not any(c["f"]))
        ctx.case([kind, c.get("f"), c.get("s")], nontrivial, sample=c)
        for sig, observed, required, what in oracle(c):
            ctx.fail(sig, c, observed, required, what)


def replay(ctx, failure):
    return bool(oracle(failure["case"]))
