"""C02 — framing is independent of segmentation: correspondence + direct oracle.

Real code driven (in-process, fake transports/listeners, real ChaCha20-Poly1305 keys):

  mrp / mrp-enc        MrpConnection.data_received                (varint prefix)
  companion / -enc     CompanionConnection.data_received          (1+3 byte header)
  hap                  HAPSession.decrypt                          (2-byte LE length + tag)
  data                 DataStreamChannel.data_received  (HAP blocks -> 32-byte header frames)
  event                EventChannel.data_received       (HAP blocks -> RTSP requests)
  http / http-hap      HttpConnection.data_received (plain / receive_processor=HAPSession.decrypt)
  server / server-hap  BasicHttpServer.data_received (plain / process_received=HAPSession.decrypt)

Every case = one generated valid stream (1..k frames, last frame = a *probe* that always
arrives as its own read, so "the connection stays usable" is observed) + one list of cut
positions.  The stream is fed read by read to a fresh real object; after every read the
harness records the frames cut off, what reached the layer above and the length of the
unconsumed buffer(s).  The same stream and cuts go to the Lean driver
(`run <framer> <cuts>` / `layer <upper> <cuts>`), whose per-read trace must be identical.

Direct oracle (no model involved): what the split run delivered upward, in order, equals
what the unsplit run delivered; no exception leaves data_received/decrypt; the probe is
delivered; the residual buffers are equal at the end.
"""
import bisect
import logging
import signal
import zlib

from harness.core.prng import Rng, split_at

RULE = ("streams of 1..k valid frames per connection type with sizes straddling 0/1, 127/128, 16383/16384 "
        "(varint), 0xFFFF/0x10000 (Companion), 1023/1024/1025 and multiples (HAP), header-only frames; cuts: "
        "unsplit, every single cut (short streams) or every cut within 3 bytes of a structural boundary (long "
        "streams), all 2-cuts (short streams), byte-at-a-time, random multi-cuts; non-trivial = at least one "
        "cut strictly inside a frame (prefix/header/tag/body), distinct = (target, stream, cuts, sends); also: the "
        "last frame split with nothing arriving after it (tail), the application sending between the reads "
        "(real send()/send_and_receive, HTTP request i sent no later than the read bringing response i), 2-3 live "
        "connection objects of one type with interleaved reads (objects created at first use), and multi-MiB frames "
        "(1/5/17 MiB; 16 MiB-1 for Companion) with a handful of cuts on the real code only; and the layer above "
        "(fake listener / request handler) raising on its k-th call, every k, compared with the one-read stream "
        "under the same fault (MRP, Companion, data channel, HTTP server); and other events between the reads: "
        "enable_encryption called once the last clear-text frame was delivered while 1..N-1 bytes of the next "
        "(encrypted) frame are already buffered (Companion, MRP; reference: the read ends on the frame boundary), and "
        "the caller of an HTTP request giving up (task cancelled, as a timeout does) after j reads of its response in a "
        "strictly sequential exchange (reference: the whole response arrives after the caller gave up)")
ASSUMPTIONS = [
    "asyncio calls data_received sequentially with non-empty chunks and closes the transport when it raises",
    "ChaCha20-Poly1305 is a parameter of the model: the Lean driver is told the plaintext of each HAP block",
    "streams are valid (every frame well formed and authentic); behaviour after a parse/auth error is C05/C07",
    "multi-MiB frames are checked by the direct oracle only (the Lean driver is not shown those bytes; the theorems "
    "hold for every length, the model/code correspondence is validated up to 64 KiB frames)",
    "a consumer fault is injected by call index; the pinned code swallows it for MRP, Companion and the HTTP server "
    "(framing goes on) and lets it escape data_received for the data channel (asyncio then closes the transport: the "
    "harness stops feeding); EventChannel and HttpConnection call no user code while receiving",
    "events between reads are applied where the pinned code defines the outcome: encryption is switched on only while no "
    "complete encrypted frame has been read yet (a complete one in the same read as the last clear-text frame would be "
    "handed up undecrypted by the pinned code - the device does not send before the client does), an abandoned request's "
    "successor is sent after the late response arrived completely (otherwise C03's known FIFO mismatch D9 applies); "
    "HAPSession.enable / receive_processor switching mid-stream and close-and-reuse of a connection object are not exercised",
    "sends and other connections are operations that leave the receive state untouched in the model "
    "(C02_sends_irrelevant, C02_connections_independent); the harness checks the real objects behave so",
]
TRUSTED = ["fake transports/listeners and cipher/decoder spies of harness/c02.py",
           "the stream generators of harness/c02.py (independent encoders: own varint, cryptography's AEAD)"]


_PATTERN = bytes(range(256)) * 16


def pattern(size, salt=0):
    """`size` deterministic bytes, built without a Python-level loop (multi-MiB frames)."""
    rot = _PATTERN[salt % 251:] + _PATTERN[:salt % 251]
    return (rot * (size // len(rot) + 1))[:size]


def sig(b):
    b = bytes(b)
    return "%d.%d" % (len(b), zlib.adler32(b))


def varint(n):
    out = bytearray()
    while True:
        if n < 128:
            out.append(n)
            return bytes(out)
        out.append((n & 0x7F) | 0x80)
        n >>= 7


class ConsumerFault(RuntimeError):
    """Raised by the fake listener/handler (the layer above the framer) on a chosen message."""


CONSUMER_TARGETS = ("mrp", "mrp-enc", "companion", "companion-enc", "data", "server", "server-hap")


class Hang(BaseException):
    """Raised by the watchdog inside a receive callback that does not return (BaseException:
    the event channel swallows `Exception` inside its loop)."""


WATCHDOG_S = 5.0
HANGS = {}          # target -> receive callbacks that did not return (after 3 the target is skipped)


def _on_alarm(_sig, _frame):
    raise Hang()


_LOOP = []


def loop():
    """One private event loop for the HTTP client sessions (send_and_receive is a coroutine)."""
    import asyncio
    if not _LOOP:
        _LOOP.append(asyncio.new_event_loop())
    return _LOOP[0]


def spin(n=2):
    import asyncio
    for _ in range(n):
        loop().run_until_complete(asyncio.sleep(0))


class Peer:
    """The device side of an encrypted channel: cryptography's AEAD used directly."""

    def __init__(self, key, nonce_len):
        from cryptography.hazmat.primitives.ciphers.aead import ChaCha20Poly1305
        self.aead = ChaCha20Poly1305(key)
        self.counter = 0
        self.nonce_len = nonce_len

    def seal(self, data, aad=None):
        nonce = self.counter.to_bytes(self.nonce_len, "little").rjust(12, b"\x00")
        self.counter += 1
        return self.aead.encrypt(nonce, data, aad)


class FakeTransport:
    def __init__(self, on_write=None):
        self.written = []
        self.on_write = on_write

    def write(self, data):
        if self.on_write:
            self.on_write(bytes(data))
        else:
            self.written.append(bytes(data))

    def close(self):
        pass

    def get_extra_info(self, *a, **k):
        return None

    def can_write_eof(self):
        return False


class Stream:
    """A generated valid stream: wire bytes + what the generator knows about it."""

    def __init__(self, target, spec, keys):
        self.target, self.spec, self.keys = target, spec, keys
        self.wire = b""
        self.descs = []       # model descriptor of every (upper) frame, in order
        self.contents = []    # what the real code must hand upward for that frame
        self.regions = []     # (start, end, label) covering `wire`
        self.plains = None    # layered: plaintext of every HAP block
        self.probe_at = 0

    def add(self, label, data):
        self.regions.append((len(self.wire), len(self.wire) + len(data), label))
        self.wire += data

    def finish(self):
        self.starts = [r[0] for r in self.regions]
        self.boundaries = sorted({r[0] for r in self.regions} | {len(self.wire)})
        self.frame_starts = {r[0] for r in self.regions if r[2].endswith("^")}
        return self

    def classify(self, pos):
        """Where a cut at `pos` falls."""
        i = bisect.bisect_right(self.starts, pos) - 1
        start, _end, label = self.regions[i]
        if pos == start and label.endswith("^"):
            return "boundary"
        return label.rstrip("^")


# --------------------------------------------------------------------------- generators

def hap_encrypt(st, peer, plaintext, sends, zero_blocks=()):
    """Encrypt `plaintext` as the device would: cut into `sends`, each send into <=1024 byte
    blocks (2-byte LE length as AAD).  `zero_blocks`: indexes of sends preceded by an empty
    block (authentic, zero bytes of plaintext)."""
    st.plains = []
    prev = 0
    for idx, end in enumerate(list(sends) + [len(plaintext)]):
        part = plaintext[prev:end]
        prev = end
        blocks = [part[i:i + 1024] for i in range(0, len(part), 1024)]
        if idx in zero_blocks:
            blocks.insert(0, b"")
        for blk in blocks:
            length = len(blk).to_bytes(2, "little")
            sealed = peer.seal(blk, aad=length)
            st.add("hap-length^", length)
            if blk:
                st.add("hap-body", sealed[:-16])
            st.add("hap-tag", sealed[-16:])
            st.plains.append(blk)


def mrp_plain(target):
    """A valid serialized ProtocolMessage of (about) `target` bytes; exact for the sizes used."""
    from pyatv.protocols.mrp import protobuf
    if target <= 0:
        return b""
    msg = protobuf.ProtocolMessage()
    msg.type = protobuf.ProtocolMessage.DEVICE_INFO_MESSAGE
    if target <= 3:
        return msg.SerializeToString()
    best = None
    for n in range(max(0, target - 8), target):
        msg.identifier = "i" * n
        s = msg.SerializeToString()
        if len(s) == target:
            return s
        if len(s) < target:
            best = s
    return best


def build_mrp(rng, spec):
    enc0 = spec["enc"]
    switch = spec.get("switch_at")      # frames from this index on are encrypted: the application
    keys = (rng.bytes_(32), rng.bytes_(32))  # enables encryption once the frame before it was delivered
    st = Stream("mrp-enc" if enc0 else "mrp", spec, keys)
    st.switch_at = switch
    peer = Peer(keys[1], 8) if (enc0 or switch is not None) else None
    sizes = spec["sizes"]
    st.ends = []
    for i, size in enumerate(sizes):
        enc = enc0 or (switch is not None and i >= switch)
        if i == len(sizes) - 1:
            st.probe_at = len(st.wire)
        plain = mrp_plain(size - 16 if enc else size)
        payload = peer.seal(plain) if enc else plain
        st.add("prefix^", varint(len(payload)))
        if enc:
            if plain:
                st.add("body", payload[:-16])
            st.add("tag", payload[-16:])
        elif payload:
            st.add("body", payload)
        st.descs.append(sig(payload))
        st.contents.append(sig(plain))
        st.ends.append(len(st.wire))
    return st.finish()


COMPANION_TYPES = [1, 3, 4, 5, 6, 7, 8, 9, 10, 11, 16, 17, 18, 32, 33, 34]


def build_companion(rng, spec):
    enc0 = spec["enc"]
    switch = spec.get("switch_at")
    keys = (rng.bytes_(32), rng.bytes_(32))
    st = Stream("companion-enc" if enc0 else "companion", spec, keys)
    st.switch_at = switch
    peer = Peer(keys[1], 12) if (enc0 or switch is not None) else None
    sizes = spec["sizes"]
    st.ends = []
    for i, size in enumerate(sizes):
        enc = enc0 or (switch is not None and i >= switch)
        if i == len(sizes) - 1:
            st.probe_at = len(st.wire)
        ftype = rng.choice(COMPANION_TYPES)
        plain = rng.bytes_(size) if size < 4096 else pattern(size, i)
        wire_len = len(plain) + (16 if (enc and plain) else 0)
        header = bytes([ftype]) + wire_len.to_bytes(3, "big")
        payload = peer.seal(plain, aad=header) if (enc and plain) else plain
        st.add("header^", header)
        if enc and plain:
            st.add("body", payload[:-16])
            st.add("tag", payload[-16:])
        elif payload:
            st.add("body", payload)
        st.descs.append("%d.%s" % (ftype, sig(payload)))
        st.contents.append([ftype, sig(plain)])
        st.ends.append(len(st.wire))
    return st.finish()


def build_hap(rng, spec):
    keys = (rng.bytes_(32), rng.bytes_(32))
    st = Stream("hap", spec, keys)
    peer = Peer(keys[1], 8)
    sizes = spec["sizes"]
    plaintext = b"".join(rng.bytes_(s) if s < 512 else bytes((j + s) % 256 for j in range(s)) for s in sizes)
    sends, acc = [], 0
    for s in sizes[:-1]:
        acc += s
        sends.append(acc)
    hap_encrypt(st, peer, plaintext, sends, zero_blocks=[i for i, s in enumerate(sizes) if s == 0])
    # probe = the blocks of the last send
    nlast = max(1, (sizes[-1] + 1023) // 1024)
    starts = [r[0] for r in st.regions if r[2] == "hap-length^"]
    st.probe_at = starts[-nlast]
    pos = 0
    for blk in st.plains:
        n = 2 + len(blk) + 16
        raw = st.wire[pos:pos + n]
        st.descs.append("%s.%s" % (raw[:2].hex(), sig(raw[2:])))
        st.contents.append(st.descs[-1])   # the cipher spy sees the block as it is on the wire
        pos += n
    return st.finish()


def layered(st, rng, frames, probe_plain_at, spec):
    """Encrypt upper-layer `frames` (concatenated) into HAP blocks with sends that do not
    respect frame boundaries; the probe frame is always sent separately."""
    plaintext = b"".join(frames)
    peer = Peer(st.keys[1], 8)
    body_len = probe_plain_at
    sends = set()
    if "send_at" in spec:
        # sweep: the device flushes after `send_at` plaintext bytes, so the upper framer sees
        # exactly that prefix when the read ends on the block boundary
        if 0 < spec["send_at"] < body_len:
            sends.add(spec["send_at"])
    elif spec.get("sends") == "per-frame":
        acc = 0
        for f in frames[:-1]:
            acc += len(f)
            sends.add(acc)
    else:
        for _ in range(rng.randint(0, 3)):
            if body_len > 1:
                sends.add(rng.randint(1, body_len - 1))
    sends.add(body_len)
    sends = sorted(sends)
    zero = [rng.randrange(len(sends))] if spec.get("zero_block") else []
    hap_encrypt(st, peer, plaintext, sends, zero_blocks=zero)
    # wire offset where the probe's first block starts = after all blocks of earlier sends
    consumed, pos = 0, 0
    for blk in st.plains:
        if consumed >= body_len and blk:
            break
        consumed += len(blk)
        pos += 2 + len(blk) + 16
    st.probe_at = pos
    # wire offset of the block that carries the first byte of each upper frame
    block_at, off, pos = [], 0, 0
    for blk in st.plains:
        block_at.append((off, pos))
        off += len(blk)
        pos += 2 + len(blk) + 16
    st.first, acc = [], 0
    for f in frames:
        st.first.append(max(w for (o, w) in block_at if o <= acc))
        acc += len(f)


def data_frame(rng, kind, seqno):
    """(wire frame, model descriptor, expected deliveries [protobuf sigs], reply seqno or None)."""
    import plistlib
    from pyatv.protocols.mrp import protobuf
    pbs = []
    if kind == "empty":
        payload = b""
    else:
        huge = int(kind[5:]) if kind.startswith("huge:") else 0
        count = 1 if huge else {"one": 1, "three": 3, "big": 2}[kind]
        data = b""
        for j in range(count):
            msg = protobuf.ProtocolMessage()
            msg.type = protobuf.ProtocolMessage.DEVICE_INFO_MESSAGE
            msg.identifier = "d" * (huge or (rng.randint(40, 60) if kind != "big" else rng.randint(900, 1300)))
            raw = msg.SerializeToString()
            pbs.append(sig(raw))
            data += varint(len(raw)) + raw
        payload = plistlib.dumps({"params": {"data": data}}, fmt=plistlib.FMT_BINARY)
    sync = kind != "empty" or rng.chance(0.5)
    mtype = (b"sync" if sync else b"rply") + 8 * b"\x00"
    command = b"comm" if sync else 4 * b"\x00"
    header = (32 + len(payload)).to_bytes(4, "big") + mtype + command + seqno.to_bytes(8, "big") + bytes(4)
    return header + payload, "%s.%s" % (header.hex(), sig(payload)), pbs, (seqno if sync else None)


def build_data(rng, spec):
    keys = (rng.bytes_(32), rng.bytes_(32))
    st = Stream("data", spec, keys)
    frames, st.deliveries, st.call_frame = [], [], []
    for i, kind in enumerate(spec["kinds"]):
        wire, desc, pbs, reply = data_frame(rng, kind, 1000 + i)
        st.call_frame += [i] * len(pbs)        # consumer call (handle_protobuf) -> frame it belongs to
        frames.append(wire)
        st.descs.append(desc)
        st.contents.append(desc)
        st.deliveries += [["pb", p] for p in pbs] + ([["reply", reply]] if reply is not None else [])
    layered(st, rng, frames, sum(len(f) for f in frames[:-1]), spec)
    return st.finish()


def http_message(rng, kind, i, request):
    """(wire, header block, body, key)"""
    if kind.startswith("huge:"):
        size = int(kind[5:])
    else:
        size = {"nobody": 0, "zero": 0, "small": rng.randint(1, 40), "sep": 24, "kilo": rng.choice([1023, 1024, 1025]),
                "big": rng.randint(2000, 5000)}[kind]
    if kind.startswith("huge:"):
        body = (b"0123456789abcdef\r\n\r\nxyz " * (size // 24 + 1))[:size]
    elif kind == "sep":
        body = b"ab\r\n\r\ncd\r\n\r\nGET / HTTP/1.1\r\n"[:size]
    else:
        body = bytes(rng.choice(b"abcdefghijklmnopqrstuvwxyz \r\n") for _ in range(size))
    proto = rng.choice(["HTTP/1.1", "RTSP/1.0"])
    if request:
        method = rng.choice(["GET", "POST", "SET_PARAMETER", "OPTIONS"])
        path = rng.choice(["/", "/command", "/a/b?c=d", "rtsp://10.0.0.1/1234"])
        first = "%s %s %s" % (method, path, proto)
    else:
        code = rng.choice([200, 200, 404, 500])
        first = "%s %d %s" % (proto, code, rng.choice(["OK", "Not Found", "Internal Server Error"]))
    lines = [first, "CSeq: %d" % i, "Server: verif/1.0"]
    if kind != "nobody":
        lines.insert(rng.randint(1, 3), "%s: %d" % (rng.choice(["Content-Length", "content-length", "CONTENT-LENGTH"]), size))
    if rng.chance(0.3):
        lines.append("Content-Type: application/octet-stream")
    header = "\r\n".join(lines).encode()
    key = ([method, path] if request else [code]) + [str(i), sig(body)]
    return header + b"\r\n\r\n" + body, header, body, key


def build_http(rng, spec):
    target = spec["target"]
    request = target.startswith("server") or target == "event"
    keys = (rng.bytes_(32), rng.bytes_(32))
    st = Stream(target, spec, keys)
    frames = []
    for i, kind in enumerate(spec["kinds"]):
        wire, header, body, key = http_message(rng, kind, i, request)
        frames.append((wire, header, body))
        st.descs.append("%s.%s" % (sig(header), sig(body)))
        st.contents.append(key)
    if target in ("http", "server"):
        st.first = []
        for j, (wire, header, body) in enumerate(frames):
            st.first.append(len(st.wire))
            if j == len(frames) - 1:
                st.probe_at = len(st.wire)
            st.add("header^", header + b"\r\n\r\n")
            if body:
                st.add("body", body)
    else:
        layered(st, rng, [f[0] for f in frames], sum(len(f[0]) for f in frames[:-1]), spec)
    return st.finish()


BUILDERS = {"mrp": build_mrp, "companion": build_companion, "hap": build_hap, "data": build_data, "http": build_http}


def build(seed, path, spec):
    return BUILDERS[spec["family"]](Rng(seed, *path), spec)


# --------------------------------------------------------------------------- real objects

class Session:
    """One fresh real object; `feed(chunk)` = one data_received; returns the observation."""

    def __init__(self, st, fault=None):
        self.st = st
        self.fault = fault     # index of the consumer call (listener/handler) that raises, or None
        self.calls = 0
        self.frames = []       # framer-level observation of the current read
        self.up = []           # what reached the layer above (all reads so far)
        self.blocks = 0
        self.quiet = False     # True while the harness itself sends (not a reaction to received data)
        self.sent = 0
        self.send_op = lambda: None
        self.close = lambda: None
        getattr(self, "_init_" + st.target.replace("-", "_"))()

    def consumer_called(self):
        """The layer above is being handed a message; it fails on call number `fault`."""
        k = self.calls
        self.calls += 1
        if k == self.fault:
            self.up[-1] = self.up[-1] + ["consumer-raised"]
            raise ConsumerFault("verif: the layer above fails on its call #%d" % k)

    # -- MRP
    def _init_mrp(self, enc=False):
        from pyatv.protocols.mrp.connection import MrpConnection
        sess = self

        class Listener:
            def message_received(self, parsed, data):
                sess.frames.append(sig(data))
                sess.up.append(["msg", int(parsed.type), sig(data)])
                sess.consumer_called()

            def stop(self):
                pass

        self.listener = Listener()
        self.obj = MrpConnection("verif", 0, None)
        self.obj.listener = self.listener
        self.obj._transport = FakeTransport()
        if enc:
            self.obj.enable_encryption(self.st.keys[0], self.st.keys[1])
        self.call = self.obj.data_received
        self.rest = lambda: [len(self.obj._buffer)]
        self.send_op = lambda: self.obj.send_raw(b"verif-ping-%d" % self.sent)

    def _init_mrp_enc(self):
        self._init_mrp(enc=True)

    # -- Companion
    def _init_companion(self, enc=False):
        from pyatv.protocols.companion.connection import CompanionConnection
        sess = self

        class Listener:
            def frame_received(self, frame_type, data):
                sess.frames.append([frame_type.value, sig(data)])
                sess.up.append(["frame", frame_type.value, sig(data)])
                sess.consumer_called()

        self.listener = Listener()
        self.obj = CompanionConnection(None, "verif", 0)
        self.obj.set_listener(self.listener)
        self.obj.transport = FakeTransport()
        if enc:
            self.obj.enable_encryption(self.st.keys[0], self.st.keys[1])
        self.call = self.obj.data_received
        self.rest = lambda: [len(self.obj._buffer)]
        from pyatv.protocols.companion.connection import FrameType
        self.send_op = lambda: self.obj.send(FrameType.NoOp if self.sent % 2 else FrameType.E_OPACK, b"ping" * (self.sent % 3))

    def _init_companion_enc(self):
        self._init_companion(enc=True)

    # -- HAP blocks
    def _spy_cipher(self, session, record):
        inner = session.chacha20.decrypt
        sess = self

        def decrypt(data, nonce=None, aad=None):
            sess.blocks += 1
            if record:
                sess.frames.append("%s.%s" % (bytes(aad).hex(), sig(data)))
            return inner(data, nonce=nonce, aad=aad)

        session.chacha20.decrypt = decrypt

    def _init_hap(self):
        from pyatv.auth.hap_session import HAPSession
        self.obj = HAPSession()
        self.obj.enable(self.st.keys[0], self.st.keys[1])
        self._spy_cipher(self.obj, True)

        def call(chunk):
            # HAP hands a byte stream upward: what matters is the concatenation
            self._plain = getattr(self, "_plain", b"") + self.obj.decrypt(chunk)
            self.up[:] = [["plaintext", sig(self._plain)]]

        self.call = call
        self.rest = lambda: [len(self.obj._encrypted_data)]
        self.send_op = lambda: self.obj.encrypt(b"verif-ping-%d" % self.sent)

    # -- channels above HAP
    def _channel(self, cls, on_reply):
        from cryptography.hazmat.primitives.ciphers.aead import ChaCha20Poly1305
        self.obj = cls(self.st.keys[0], self.st.keys[1])
        reply_peer = [ChaCha20Poly1305(self.st.keys[0]), 0]

        def on_write(data):
            """Decrypt what the channel wrote back (HAP blocks under the output key)."""
            out = b""
            while data:
                n = int.from_bytes(data[:2], "little")
                nonce = bytes(4) + reply_peer[1].to_bytes(8, "little")
                reply_peer[1] += 1
                out += reply_peer[0].decrypt(nonce, data[2:2 + n + 16], data[:2])
                data = data[2 + n + 16:]
            if not self.quiet:
                on_reply(out)

        self.obj.transport = FakeTransport(on_write)
        self._spy_cipher(self.obj.session, False)
        self.call = self.obj.data_received
        self.rest = lambda: [len(self.obj.session._encrypted_data), len(self.obj.buffer)]
        self.send_op = lambda: self.obj.send(b"verif-ping-%d" % self.sent)

    def _init_data(self):
        from pyatv.protocols.airplay.channels import DataStreamChannel
        sess = self

        def on_reply(replies):
            while replies:
                size = int.from_bytes(replies[:4], "big")
                sess.up.append(["reply", int.from_bytes(replies[20:28], "big")])
                replies = replies[size:]

        self._channel(DataStreamChannel, on_reply)

        class Listener:
            def handle_protobuf(self, message):
                sess.up.append(["pb", sig(message.SerializeToString())])
                sess.consumer_called()

            def handle_connection_lost(self, exc):
                pass

        self.listener = Listener()
        self.obj.listener = self.listener
        inner = self.obj.decode_message

        def decode_message(data):
            message, raw, rest = inner(data)
            if message is not None:
                sess.frames.append("%s.%s" % (bytes(raw[:32]).hex(), sig(raw[32:])))
            return message, raw, rest

        self.obj.decode_message = decode_message

    def _init_event(self):
        from pyatv.protocols.airplay.channels import EventChannel
        sess = self

        def on_reply(replies):
            for part in replies.split(b"\r\n\r\n")[:-1]:
                lines = part.decode().split("\r\n")
                cseq = [l.split(": ")[1] for l in lines if l.startswith("CSeq")]
                sess.up.append(["response", lines[0], cseq])

        self._channel(EventChannel, on_reply)
        inner = self.obj.parse_request

        def parse_request(data):
            request, raw, rest = inner(data)
            if request is not None:
                body = request.body.encode() if isinstance(request.body, str) else request.body
                sess.frames.append([request.method, request.path, request.headers.get("CSeq"), sig(body)])
            return request, raw, rest

        self.obj.parse_request = parse_request

    # -- HTTP client
    def _init_http(self, hap=False):
        from pyatv.support.http import HttpConnection
        self.obj = HttpConnection()
        self.obj.transport = FakeTransport(lambda data: None)
        self.tasks = []
        self.seen = 0
        rest = [lambda: len(self.obj._buffer)]
        if hap:
            from pyatv.auth.hap_session import HAPSession
            self.hap = HAPSession()
            self.hap.enable(self.st.keys[0], self.st.keys[1])
            self._spy_cipher(self.hap, False)
            self.obj.receive_processor = self.hap.decrypt
            self.obj.send_processor = self.hap.encrypt
            rest.insert(0, lambda: len(self.hap._encrypted_data))

        def issue():
            """The application sends the next request through the real send_and_receive."""
            if len(self.tasks) >= len(self.st.descs):
                return
            self.tasks.append(loop().create_task(
                self.obj.send_and_receive("GET", "/verif/%d" % len(self.tasks), allow_error=True, timeout=3600)))
            spin(1)

        def collect():
            spin(2)
            while self.seen < len(self.tasks) and self.tasks[self.seen].done():
                t = self.tasks[self.seen]
                if t.cancelled() or t.exception() is not None:
                    key = ["error", None if t.cancelled() else type(t.exception()).__name__, "-"]
                else:
                    r = t.result()
                    body = r.body.encode() if isinstance(r.body, str) else r.body
                    key = [r.code, r.headers.get("CSeq"), sig(body)]
                self.frames.append(key)
                self.up.append(["response", self.seen] + key)
                self.seen += 1

        def call(chunk):
            try:
                self.obj.data_received(chunk)
            finally:
                collect()

        def close():
            for t in self.tasks:
                if not t.done():
                    t.cancel()
            spin(2)
            for t in self.tasks:
                if t.done() and not t.cancelled():
                    t.exception()

        def cancel(i):
            """The caller of request i gives up (timeout / task cancelled): send_and_receive's
            `finally` takes the pending request out of the queue."""
            if i < len(self.tasks) and not self.tasks[i].done():
                self.tasks[i].cancel()
            collect()

        self.call = call
        self.send_op = issue
        self.cancel_op = cancel
        self.close = close
        self.rest = lambda: [f() for f in rest]

    def _init_http_hap(self):
        self._init_http(hap=True)

    # -- HTTP server
    def _init_server(self, hap=False):
        from pyatv.support.http import AbstractHttpServerHandler, BasicHttpServer, HttpResponse
        sess = self

        class Handler(AbstractHttpServerHandler):
            def handle_request(self, request):
                body = request.body.encode() if isinstance(request.body, str) else request.body
                key = [request.method, request.path, request.headers.get("CSeq"), sig(body)]
                sess.frames.append(key)
                sess.up.append(["request"] + key)
                sess.consumer_called()
                return HttpResponse("HTTP", "1.1", 200, "OK", {"CSeq": request.headers.get("CSeq", "-")}, b"")

        rest = [lambda: len(self.obj._request_buffer)]
        if hap:
            from pyatv.auth.hap_session import HAPSession
            self.hap = HAPSession()
            self.hap.enable(self.st.keys[0], self.st.keys[1])
            self._spy_cipher(self.hap, False)
            hap_session = self.hap

            class Server(BasicHttpServer):
                def process_received(self, data):
                    return hap_session.decrypt(data)

            self.obj = Server(Handler())
            rest.insert(0, lambda: len(self.hap._encrypted_data))
        else:
            self.obj = BasicHttpServer(Handler())

        def on_write(data):
            lines = data.split(b"\r\n")
            sess.up.append(["sent", lines[0].decode(), [l.decode() for l in lines if l.startswith(b"CSeq")]])

        self.obj.connection_made(FakeTransport(on_write))
        self.call = self.obj.data_received
        self.rest = lambda: [f() for f in rest]

    def _init_server_hap(self):
        self._init_server(hap=True)

    # -- the application sends something between two reads
    def send(self):
        self.quiet = True
        try:
            self.send_op()
            self.sent += 1
            return None
        except Exception as e:
            return type(e).__name__
        finally:
            self.quiet = False

    # -- one read
    def feed(self, chunk):
        self.frames, self.blocks = [], 0
        exc = None
        old = signal.signal(signal.SIGALRM, _on_alarm)
        signal.setitimer(signal.ITIMER_REAL, WATCHDOG_S)
        try:
            self.call(bytes(chunk))
        except Exception as e:  # observation, never a harness crash
            exc = type(e).__name__
        except Hang:
            exc = "Hang(receive callback did not return within %gs)" % WATCHDOG_S
            HANGS[self.st.target] = HANGS.get(self.st.target, 0) + 1
        finally:
            signal.setitimer(signal.ITIMER_REAL, 0)
            signal.signal(signal.SIGALRM, old)
        try:
            rest = self.rest()
        except Exception as e:
            rest = ["?" + type(e).__name__]
        return {"frames": self.frames, "blocks": self.blocks, "rest": rest, "exc": exc}


LAYERED = {"data": "data", "event": "httpreq", "http-hap": "http", "server-hap": "httpreq"}
FRAMER = {"mrp": "mrp", "mrp-enc": "mrp", "companion": "companion", "companion-enc": "companion", "hap": "hap",
          "http": "http", "server": "httpreq"}


class Run:
    """One real connection object fed read by read, with the application's sends in between."""

    def __init__(self, st, cuts, sends=None, initial=None, fault=None, ctl=None):
        self.st = st
        self.fault = fault
        self.ctl = {int(k): v for k, v in (ctl or {}).items()}       # read index -> other operations before it
        self.enabled = False
        self.chunks = [c for c in split_at(st.wire, cuts) if c]
        self.sends = {int(k): v for k, v in (sends or {}).items()}   # read index -> sends just before it
        self.initial = initial
        self.sess, self.trace, self.i, self.dead = None, [], 0, False

    def step(self):
        if self.sess is None:                      # connection objects are created when first needed
            self.sess = Session(self.st, self.fault)
            n0 = self.initial
            if n0 is None:                         # HTTP client: every request already sent (pipelined)
                n0 = len(self.st.descs) if self.st.target in ("http", "http-hap") else 0
            for _ in range(n0):
                self.sess.send()
        for _ in range(self.sends.get(self.i, 0)):
            self.sess.send()
        for op in self.ctl.get(self.i, []):
            if op == "send":
                self.sess.send()
            elif op.startswith("cancel:"):
                self.sess.cancel_op(int(op[7:]))
        ob = self.sess.feed(self.chunks[self.i])
        self.trace.append(ob)
        self.i += 1
        self.dead = bool(ob["exc"])
        switch = getattr(self.st, "switch_at", None)
        if switch is not None and not self.enabled and len(self.sess.up) >= switch:
            # what CompanionProtocol._setup_encryption / MRP pair-verify do: a task that was waiting
            # for the last clear-text frame runs after data_received returned and turns encryption on
            self.enabled = True
            self.sess.obj.enable_encryption(self.st.keys[0], self.st.keys[1])

    def done(self):
        return self.dead or self.i >= len(self.chunks)

    def finish(self):
        if self.sess is None:
            self.sess = Session(self.st)
        self.sess.close()
        return self.trace, self.sess.up


def run_real(st, cuts, sends=None, initial=None, fault=None, ctl=None):
    """Feed the stream cut at `cuts` (+ the probe as its own read) to a fresh real object."""
    r = Run(st, cuts, sends, initial, fault, ctl)
    while not r.done():
        r.step()
    return r.finish()


def run_multi(members, order):
    """Several live connections of the same type; `order` = whose read comes next."""
    runs = [Run(st, cuts, sends, initial) for (st, cuts, sends, initial) in members]
    for idx in order:
        if not runs[idx].done():
            runs[idx].step()
    for r in runs:
        while not r.done():
            r.step()
    return [r.finish() for r in runs]


def send_schedule(st, cuts, rng):
    """Where the application sends between the reads of `cuts + [probe]`.  HTTP client: request i
    is sent no later than just before the read that brings the first byte of response i."""
    bounds = list(cuts) + [st.probe_at]
    nreads = len(bounds) + 1
    sends = {}
    if st.target in ("http", "http-hap"):
        total = len(st.descs)
        initial = rng.randint(1, total)
        prev = 0
        for i in range(initial, total):
            latest = bisect.bisect_right(bounds, st.first[i])
            p = latest if rng.chance(0.6) else rng.randint(prev, latest)
            p = max(prev, min(p, latest))
            sends[p] = sends.get(p, 0) + 1
            prev = p
        return sends, initial
    for k in range(nreads):
        if rng.chance(0.5):
            sends[k] = rng.randint(1, 2)
    return sends, 0


# --------------------------------------------------------------------------- model side

def read_cuts(st, kind, cuts, extra=None):
    """Cut positions actually used: the probe is its own read except for `whole` and `tail`."""
    if cuts is None:
        return []
    tail = kind == "tail" or bool((extra or {}).get("tail"))
    return list(cuts) if tail else list(cuts) + [st.probe_at]


def consumer_calls(st):
    """How many times a valid stream makes the real object call the layer above."""
    if st.target not in CONSUMER_TARGETS:
        return 0
    return len(st.call_frame) if st.target == "data" else len(st.descs)


def fault_frame(st, k):
    """Frame during whose processing consumer call #k happens."""
    return st.call_frame[k] if st.target == "data" else k


def model_line(st, cuts):
    if st.target in LAYERED:
        return "layer %s %s" % (LAYERED[st.target], ",".join(map(str, cuts)) or "-")
    return "run %s %s" % (FRAMER[st.target], ",".join(map(str, cuts)) or "-")


def parse_model(st, answer):
    """-> list of per-read dicts {descs, rest, blocks, err}"""
    out = []
    for part in answer.split(";"):
        f = part.split("|")
        err = None
        if f[-1].startswith("err:"):
            err = f.pop()[4:]
        if st.target in LAYERED:
            nblocks, lrest, msgs, urest = f
            out.append({"descs": [] if msgs == "-" else msgs.split(","), "rest": [int(lrest), int(urest)],
                        "blocks": int(nblocks), "err": err})
        else:
            msgs, rest = f
            out.append({"descs": [] if msgs == "-" else msgs.split(","), "rest": [int(rest)], "blocks": None, "err": err})
    return out


def compare_buffers(st, trace, model):
    """Reduced comparison (reads processed, exception, buffer lengths) for cases in which the
    layer above does not see every frame (a response nobody waits for any more)."""
    if len(trace) != len(model):
        return "number of reads processed: impl %d model %d" % (len(trace), len(model))
    for i, (ob, mo) in enumerate(zip(trace, model)):
        if (ob["exc"] is None) != (mo["err"] is None):
            return "read %d: impl exception %s, model %s" % (i, ob["exc"], mo["err"])
        if ob["rest"] != mo["rest"]:
            return "read %d: residual buffer impl %s model %s" % (i, ob["rest"], mo["rest"])
    return None


def compare(st, trace, model, fault=None):
    """Model trace vs real trace, read by read.  Returns None or a description.
    `fault` = consumer call that raises.  MRP, Companion and the HTTP server swallow the
    consumer's exception and go on (the framer-level trace is unchanged); the data channel
    lets it escape data_received while processing that frame (asyncio closes the transport):
    the reads before must agree, the raising read must be the one in which the model
    delivers that frame, and the frames cut off in it a prefix ending with that frame."""
    escapes = fault is not None and st.target == "data"
    if escapes:
        e = len(trace) - 1
        if trace[e]["exc"] != "ConsumerFault":
            return "consumer fault #%d did not escape data_received (impl %s)" % (fault, trace[e]["exc"])
        if len(trace) > len(model):
            return "number of reads processed: impl %d model %d" % (len(trace), len(model))
        k = sum(len(mo["descs"]) for mo in model[:e])
        got = trace[e]["frames"]
        want = model[e]["descs"][:len(got)]
        if k + len(got) - 1 != fault_frame(st, fault) or len(want) != len(got) or want != st.descs[k:k + len(got)] \
                or got != st.contents[k:k + len(got)]:
            return "read %d: consumer fault #%d escaped after frames %s, model delivers %s in that read" % (e, fault, got, model[e]["descs"])
        trace, model = trace[:e], model[:e]
    elif len(trace) != len(model):
        return "number of reads processed: impl %d model %d" % (len(trace), len(model))
    k = 0
    for i, (ob, mo) in enumerate(zip(trace, model)):
        if (ob["exc"] is None) != (mo["err"] is None):
            return "read %d: impl exception %s, model %s" % (i, ob["exc"], mo["err"])
        if ob["rest"] != mo["rest"]:
            return "read %d: residual buffer impl %s model %s" % (i, ob["rest"], mo["rest"])
        if mo["blocks"] is not None and ob["blocks"] != mo["blocks"]:
            return "read %d: HAP blocks opened impl %d model %d" % (i, ob["blocks"], mo["blocks"])
        if len(ob["frames"]) != len(mo["descs"]):
            return "read %d: frames impl %d model %d" % (i, len(ob["frames"]), len(mo["descs"]))
        for fr, de in zip(ob["frames"], mo["descs"]):
            # the model names the frame by its wire bytes, the real object by what it handed
            # upward; both must be the k-th generated frame
            if k >= len(st.descs) or de != st.descs[k]:
                return "read %d: model frame %s is not generated frame #%d" % (i, de, k)
            if fr != st.contents[k]:
                return "read %d: impl delivered %s, generated frame #%d is %s" % (i, fr, k, st.contents[k])
            k += 1
    return None


# --------------------------------------------------------------------------- cuts

def near(st, n, radius):
    pts = set()
    for b in st.boundaries:
        for d in range(-radius, radius + 1):
            if 0 < b + d < n:
                pts.add(b + d)
    return sorted(pts)


def self_describing(st, n):
    """(p, q) with p strictly inside a frame and wire[p:q] sized as a length prefix read at p says."""
    w, starts, out = st.wire, set(st.boundaries), []
    for p in range(1, n - 2):
        if p in starts:
            continue
        sizes = {int.from_bytes(w[p:p + 2], "little") + 2 + 16,      # HAP block: LE16 | data | tag
                 int.from_bytes(w[p:p + 2], "little") + 2,
                 int.from_bytes(w[p + 1:p + 4], "big") + 4,           # Companion: type | BE24 | payload
                 int.from_bytes(w[p + 1:p + 4], "big") + 4 + 16,
                 int.from_bytes(w[p:p + 4], "big")}                   # data stream: BE32 total size
        v, shift, i = 0, 0, p                                         # MRP: varint | payload
        while i < n and i < p + 5:
            v |= (w[i] & 0x7F) << shift
            shift += 7
            i += 1
            if not w[i - 1] & 0x80:
                sizes.add(v + (i - p))
                sizes.add(v + (i - p) + 16)
                break
        for size in sizes:
            if 2 < size and p + size <= n:
                out.append((p, p + size))
    return out


def make_plan(ctx, n, weight):
    """Which segmentations to try for a stream whose pre-probe part has `n` bytes."""
    if weight == "blocks":     # layered sweep: reads that end on HAP block boundaries
        return dict(single=0, double=0, bytewise=ctx.scale(0, 600), random=2, extra=0, pairs=3, blocks=True)
    if weight == "light":      # very long streams: structural positions only
        return dict(single=0, double=0, bytewise=0, random=ctx.scale(6, 40), extra=ctx.scale(6, 40), pairs=ctx.scale(10, 80))
    return dict(single=ctx.scale(800, 4096), double=ctx.scale(40, 110), bytewise=4096, random=ctx.scale(14, 150),
                extra=ctx.scale(30, 200), pairs=ctx.scale(40, 400))


def cut_sets(ctx, st, rng, plan):
    """Yield (kind, cuts) over the part of the stream before the probe."""
    n = st.probe_at
    yield "whole", None          # the entire stream, probe included, in ONE read: the reference
    yield "unsplit", []          # stream | probe
    # the last frame is split too (no read boundary before it): the stream simply ends
    # inside/after it, nothing arrives later to flush a stalled parser
    total = len(st.wire)
    tail = list(range(n + 1, total))
    if len(tail) > plan.get("tail", ctx.scale(24, 60)):
        keep = set(c for c in near(st, total, 3) if c > n) | set(rng.sample(tail, min(8, len(tail))))
        tail = sorted(keep)
    if plan.get("blocks"):
        tail = sorted(rng.sample(tail, min(3, len(tail))))
    for c in tail:
        yield "tail", [c]
    for _ in range(0 if plan.get("blocks") else min(plan["random"], 10)):
        if n > 1 and tail:
            yield "tail", sorted({rng.randint(1, n), rng.choice(tail)})
    if total <= plan["bytewise"] and not plan.get("blocks"):
        yield "tail", list(range(1, total))
    if n <= 1:
        return
    if plan.get("blocks"):
        ends = sorted(b for b in st.frame_starts if 0 < b < n)
        for b in ends:
            yield "block-end", [b]
        if len(ends) > 1:
            yield "block-end", ends
        for _ in range(plan["random"]):
            yield "random", sorted(rng.sample(range(1, n), min(rng.randint(2, 6), n - 1)))
        if n <= plan["bytewise"]:
            yield "bytewise", list(range(1, n))
        return
    interesting = near(st, n, 3)
    if n <= plan["single"]:
        singles = list(range(1, n))
    else:
        singles = sorted(set(interesting) | set(rng.sample(range(1, n), min(plan["extra"], n - 1))))
    for c in singles:
        yield "single", [c]
    if n <= plan["double"]:
        for a in range(1, n):
            for b in range(a + 1, n):
                yield "double", [a, b]
    elif len(interesting) >= 2:
        for _ in range(plan["pairs"]):
            a, b = sorted(rng.sample(interesting, 2))
            yield "double", [a, b]
    # self-describing continuations: a read that starts INSIDE a frame and whose first bytes, taken
    # for a length prefix of any of the wire formats, describe exactly the size of that read
    # (a receiver that looks at a read before looking at its buffer mistakes it for a whole frame)
    described = self_describing(st, n)
    for a, b in (described if len(described) <= plan.get("described", ctx.scale(120, 1500))
                 else rng.sample(described, plan.get("described", ctx.scale(120, 1500)))):
        yield "described", [a] if b == n else [a, b]
    if n <= plan["bytewise"]:
        yield "bytewise", list(range(1, n))
    for _ in range(plan["random"]):
        k = rng.randint(3, 12)
        pool = interesting if (rng.chance(0.5) and len(interesting) > k) else range(1, n)
        yield "random", sorted(rng.sample(pool, min(k, len(pool))))


# --------------------------------------------------------------------------- streams per tier

def specs(ctx, rng):
    T = ctx.thorough
    out = []

    def add(family, weight="auto", **spec):
        spec["family"] = family
        spec["plan"] = weight
        out.append(spec)

    # MRP: varint classes 0/1, 127/128, 16383/16384
    add("mrp", enc=False, sizes=[0, 2, 5, 0, 9, 2])
    add("mrp", enc=False, sizes=[127, 128, 0, 129, 4])
    add("mrp", "light", enc=False, sizes=[16383, 16384, 2, 130])
    add("mrp", enc=True, sizes=[16, 18, 18])
    add("mrp", enc=True, sizes=[127, 128, 16, 40])
    add("mrp", "light", enc=True, sizes=[16384, 16383, 16])
    for _ in range(ctx.scale(2, 8)):
        add("mrp", enc=rng.chance(0.5),
            sizes=[rng.choice([0, 2, 4, 17, 30, 126, 127, 128, 129, 200, 300]) for _ in range(rng.randint(1, 5))] + [6])
    add("mrp", enc=False, sizes=[2, 0, 0])            # the last frame (probe) is an empty message
    # Companion: 0/1, 0xFFFF/0x10000
    add("companion", enc=False, sizes=[1, 0, 0])      # header-only probe
    add("companion", enc=True, sizes=[1, 0])
    add("companion", enc=False, sizes=[0, 1, 5, 0, 3])
    add("companion", enc=False, sizes=[255, 256, 0, 1])
    add("companion", "light", enc=False, sizes=[0xFFFF, 0x10000, 0, 2])
    add("companion", enc=True, sizes=[0, 1, 0, 2])
    add("companion", enc=True, sizes=[239, 240, 0, 7])
    add("companion", "light", enc=True, sizes=[0xFFFF - 16, 0x10000 - 16, 1])
    for _ in range(ctx.scale(2, 8)):
        add("companion", enc=rng.chance(0.5),
            sizes=[rng.choice([0, 1, 2, 15, 16, 17, 100, 255, 256, 257]) for _ in range(rng.randint(1, 5))] + [3])
    # HAP blocks: 1023/1024/1025 and multiples, empty block
    add("hap", sizes=[1, 0, 2, 1])
    add("hap", "auto" if T else "light", sizes=[1023, 1, 1024, 3])
    add("hap", "light", sizes=[1025, 2048, 2049, 0, 5])
    if T:
        add("hap", "light", sizes=[3072, 1, 3073, 2])
    # data stream channel (above HAP)
    add("data", kinds=["empty", "empty", "empty"], sends="per-frame")
    add("data", kinds=["one", "empty", "three", "one"])
    add("data", kinds=["one", "empty", "one"], zero_block=True)
    add("data", "light", kinds=["big", "one", "big", "empty"])
    # sweep of the flush position under the upper framer: every plaintext prefix length
    for k in range(1, ctx.scale(190, 400)):
        add("data", "blocks", kinds=["empty", "one", "empty"], send_at=k)
        for target in ("event", "http-hap", "server-hap"):
            add("http", "blocks", target=target, kinds=["nobody", "small", "nobody"], send_at=k)
    # HTTP client / server (plain and above HAP), event channel (above HAP)
    for target in ("http", "server", "event", "http-hap", "server-hap"):
        plain = target in ("http", "server")
        add("http", target=target, kinds=["nobody", "nobody"])
        add("http", target=target, kinds=["nobody", "small", "nobody"], sends="per-frame")
        add("http", target=target, kinds=["small", "sep", "zero", "nobody", "small"])
        add("http", "auto" if (T or plain) else "light", target=target, kinds=["kilo", "small", "kilo", "nobody"],
            zero_block=not plain)
        if T:
            add("http", "light", target=target, kinds=["big", "nobody", "big", "small"])
    return out


# --------------------------------------------------------------------------- run

def prepare(ctx, seed, path, spec):
    """Build the stream, choose the segmentations, produce the model driver lines."""
    rng = Rng(seed, *path)
    st = build(seed, path, spec)
    n = st.probe_at
    cases = [(k, c, None) for k, c in cut_sets(ctx, st, rng.fork("cuts"), make_plan(ctx, n, spec["plan"]))]
    # the same segmentations with the application sending between the reads
    srng = rng.fork("sends")
    pool = [c for c in cases if c[1] and c[0] != "tail"]
    want = ctx.scale(2, 4) if spec["plan"] == "blocks" else ctx.scale(12, 120)
    for kind, cuts, _ in (srng.sample(pool, min(want, len(pool))) if pool else []):
        sends, initial = send_schedule(st, cuts, srng)
        cases.append(("sends", cuts, {"sends": {str(k): v for k, v in sorted(sends.items())}, "initial": initial}))
    # the layer above fails on one message (listener / request handler raises)
    ncalls = consumer_calls(st)
    if ncalls:
        frng = rng.fork("fault")
        every = [c for c in cases if c[0] not in ("sends",)]
        ks = list(range(ncalls)) if ncalls <= 6 else sorted(frng.sample(range(ncalls), 6))
        per_k = ctx.scale(1, 2) if spec["plan"] == "blocks" else ctx.scale(5, 40)
        for k in ks:
            cases.append(("fault", None, {"fault": k}))            # reference: one read
            for kind, cuts, _ in frng.sample(every, min(per_k, len(every))):
                if cuts is not None:
                    cases.append(("fault", cuts, {"fault": k, "tail": kind == "tail"}))
    lines = stream_lines(st)
    lines += [model_line(st, read_cuts(st, kind, cuts, x)) for kind, cuts, x in cases]
    return st, cases, lines


def stream_lines(st):
    lines = ["stream " + st.wire.hex()]
    if st.plains is not None:
        lines.append("plains " + " ".join(p.hex() or "-" for p in st.plains))
    return lines


def real_runs(st, cases):
    """Drive the real object through every case of one stream."""
    out = []
    for kind, cuts, extra in cases:
        if HANGS.get(st.target, 0) >= 3:
            out.append(None)             # the hangs themselves are recorded as failing inputs
            continue
        extra = extra or {}
        out.append(run_real(st, read_cuts(st, kind, cuts, extra), extra.get("sends"), extra.get("initial"),
                            extra.get("fault")))
    return out


def evaluate(ctx, path, spec, st, cases, answers, reals):
    n = st.probe_at
    head = 2 if st.plains is not None else 1
    if not all(a.startswith("ok ") for a in answers[:head]):
        ctx.disagree({"target": st.target, "spec": _public(spec)}, "n/a", answers[:head], where="driver setup")
        return
    base = None
    fault_base = {}
    for (kind, cuts, extra), ans, real in zip(cases, answers[head:], reals):
        case = {"target": st.target, "spec": _public(spec), "rng_path": list(path), "cuts": cuts,
                "stream_len": len(st.wire), "probe_at": n, "kind": kind}
        extra = extra or {}
        case.update(extra)
        if real is None:
            ctx.note("skipped-after-hang:" + st.target)     # failing inputs already recorded
            continue
        fault = extra.get("fault")
        trace, up = real
        whole = cuts is None
        cuts = cuts or []
        where = [st.classify(c) for c in cuts]
        for w in set(where):
            ctx.note("cut-in:" + w)
        ctx.note("target:" + st.target)
        ctx.note("cuts:" + kind)
        nontrivial = any(w != "boundary" for w in where)
        ctx.case([st.target, _public(spec), list(path), cuts, extra], nontrivial,
                 sample={"target": st.target, "frames": len(st.descs), "stream_len": len(st.wire), "cuts": cuts[:8],
                         "cut_in": where[:8], "kind": kind,
                         "reads": [len(ob["frames"]) for ob in trace][:10]}
                 if (nontrivial and (kind != "single" or "prefix" in where or "hap-tag" in where)) else None)
        # correspondence
        if ans == "bad-op":
            ctx.disagree(case, "n/a", ans, where="driver rejected the line")
        else:
            diff = compare(st, trace, parse_model(st, ans), fault)
            if diff:
                ctx.disagree(case, _short(trace), ans[:400], where=diff)
        ctx.validated()
        # direct oracle on the real code
        final = trace[-1]
        if kind == "fault":
            exc = next((ob["exc"] for ob in trace if ob["exc"]), None)
            if whole:
                fault_base[fault] = (up, exc, final["rest"])
                continue
            if fault not in fault_base:
                continue
            rup, rexc, rrest = fault_base[fault]
            what = None
            if exc != rexc:
                what = ("consumer-fault:exception-differs", exc, rexc,
                        "when the layer above fails on its call #%d the split stream ends with %s, the one-read stream with %s"
                        % (fault, exc or "no exception", rexc or "no exception"))
            elif up != rup:
                what = ("consumer-fault:delivered-differs", _clip(up), _clip(rup),
                        "when the layer above fails on its call #%d the split stream (cuts %s in %s) hands %d items upward, "
                        "the one-read stream %d" % (fault, cuts[:6], where[:6], len(up), len(rup)))
            elif exc is None and final["rest"] != rrest:
                what = ("consumer-fault:residual-differs", final["rest"], rrest,
                        "buffer left behind after a consumer fault differs from the one-read run")
            if what:
                ctx.fail("%s:%s" % (st.target, what[0]), case, what[1], what[2], what[3])
            continue
        if kind == "whole":
            base = (up, final["rest"])
            st.base = base
            expected = getattr(st, "deliveries", None)
            if expected is not None and up != expected:
                ctx.disagree(case, _clip(up), _clip(expected), where="whole-stream run vs what the generator encoded")
            if any(ob["exc"] for ob in trace):
                ctx.fail(st.target + ":whole-exception", case, final["exc"], "no exception",
                         "the valid stream delivered in one read raises out of the receive callback")
            elif len(up) != expected_up(st):
                ctx.fail(st.target + ":whole-incomplete", case, _clip(up), "%d items" % expected_up(st),
                         "a valid stream of %d frames delivered in one read hands %d items upward (expected %d)"
                         % (len(st.descs), len(up), expected_up(st)))
            continue
        for ob in trace:
            if ob["exc"]:
                ctx.fail("%s:exception:%s" % (st.target, ob["exc"]), case, ob["exc"], "no exception leaves data_received",
                         "%s escapes the receive callback for a stream cut at %s (%s)" % (ob["exc"], cuts[:6], where[:6]))
                break
        else:
            if up != base[0]:
                probe_lost = len(up) < len(base[0]) and up == base[0][:len(up)]
                ctx.fail("%s:%s%s" % (st.target, "frames-lost" if probe_lost else "delivered-differs",
                                      "-with-sends" if kind == "sends" else ""), case,
                         _clip(up), _clip(base[0]),
                         "split stream%s delivers %d items, unsplit %d (cuts %s in %s)"
                         % (" with sends between the reads" if kind == "sends" else "", len(up), len(base[0]), cuts[:6], where[:6]))
            elif final["rest"] != base[1]:
                ctx.fail(st.target + ":residual-differs", case, final["rest"], base[1],
                         "buffer left behind differs from the unsplit run")


def expected_up(st):
    """How many items a valid stream of len(st.descs) frames must hand upward."""
    if st.target == "hap":
        return 1                                   # the plaintext (compared as one byte string)
    if st.target == "data":
        return len(st.deliveries)                  # protobufs + replies
    if st.target.startswith("server"):
        return 2 * len(st.descs)                   # request handled + response written
    return len(st.descs)


def _public(spec):
    return {k: v for k, v in spec.items() if k != "plan"}


def _short(trace):
    return [{"frames": len(ob["frames"]), "blocks": ob["blocks"], "rest": ob["rest"], "exc": ob["exc"]} for ob in trace[:12]]


def _clip(up):
    return up if len(up) <= 12 else up[:6] + ["..."] + up[-5:]


def run(ctx):
    logging.getLogger("pyatv").setLevel(100)
    HANGS.clear()
    rng = ctx.rng
    work, lines = [], []
    for i, spec in enumerate(specs(ctx, rng.fork("specs"))):
        path = tuple(rng.path) + ("stream", i)
        st, cases, ls = prepare(ctx, ctx.seed, path, spec)
        work.append((path, spec, st, cases, len(lines), len(ls)))
        lines += ls
    groups = multi_groups(ctx, work, rng.fork("multi"))
    for g in groups:
        g["off"] = len(lines)
        for (w, cuts, _sends, _initial) in g["members"]:
            lines += stream_lines(w[2]) + [model_line(w[2], cuts + [w[2].probe_at])]
    # one model-driver process for the whole run, working while the real objects are driven
    import threading
    box = {}

    def model():
        try:
            box["answers"] = ctx.lean(lines)
        except BaseException as e:      # re-raised in the main thread
            box["error"] = e

    th = threading.Thread(target=model)
    th.start()
    try:
        reals = [real_runs(st, cases) for (_p, _s, st, cases, _o, _c) in work]
        for g in groups:
            g["results"] = None if HANGS.get(g["target"], 0) >= 3 else run_multi(
                [(w[2], cuts + [w[2].probe_at], sends, initial) for (w, cuts, sends, initial) in g["members"]], g["order"])
    finally:
        th.join()
    if "error" in box:
        raise box["error"]
    answers = box["answers"]
    for (path, spec, st, cases, off, cnt), real in zip(work, reals):
        evaluate(ctx, path, spec, st, cases, answers[off:off + cnt], real)
    for g in groups:
        evaluate_multi(ctx, g, answers)
    events_phase(ctx, rng.fork("events"))
    large_phase(ctx, rng.fork("large"))
    replay_d1(ctx)


# --------------------------------------------------------------------------- several connections

def multi_groups(ctx, work, rng):
    """2-3 live connections of the same type with interleaved reads (and sends)."""
    by_target = {}
    for w in work:
        st = w[2]
        if st.probe_at > 1 and len(st.wire) <= 6000:
            by_target.setdefault(st.target, []).append(w)
    groups = []
    for target in sorted(by_target):
        pool = by_target[target]
        for _ in range(ctx.scale(10, 60)):
            members = []
            for _m in range(rng.randint(2, 3)):
                w = rng.choice(pool)
                st = w[2]
                k = rng.randint(1, min(6, st.probe_at - 1))
                cuts = sorted(rng.sample(range(1, st.probe_at), k))
                sends, initial = send_schedule(st, cuts, rng) if rng.chance(0.5) else (None, None)
                members.append((w, cuts, sends, initial))
            slots = [i for i, (w, cuts, _s, _i) in enumerate(members) for _ in range(len(cuts) + 2)]
            rng.shuffle(slots)
            groups.append({"target": target, "members": members, "order": slots})
    return groups


def evaluate_multi(ctx, g, answers):
    members = g["members"]
    if g["results"] is None:
        return
    if any(not hasattr(w[2], "base") for (w, _c, _s, _i) in members):
        return                                      # the single-connection reference already failed
    results = g["results"]
    case = {"target": g["target"], "order": g["order"],
            "members": [{"rng_path": list(w[0]), "spec": _public(w[1]), "cuts": cuts,
                         "sends": {str(k): v for k, v in sorted((sends or {}).items())} if sends is not None else None,
                         "initial": initial} for (w, cuts, sends, initial) in members]}
    ctx.note("target:" + g["target"])
    ctx.note("cuts:multi-connection")
    ctx.case(["multi", case], True, sample=None)
    off = g["off"]
    for j, ((w, cuts, sends, initial), (trace, up)) in enumerate(zip(members, results)):
        st = w[2]
        head = 2 if st.plains is not None else 1
        ans = answers[off + head]
        off += head + 1
        diff = compare(st, trace, parse_model(st, ans)) if ans != "bad-op" else "driver rejected the line"
        if diff:
            ctx.disagree(dict(case, member=j), _short(trace), ans[:400], where="connection %d of %d interleaved: %s" % (j, len(members), diff))
        ctx.validated()
        exc = next((ob["exc"] for ob in trace if ob["exc"]), None)
        if exc:
            ctx.fail("%s:multi-connection:exception:%s" % (st.target, exc), dict(case, member=j), exc, "no exception",
                     "%s escapes the receive callback of connection %d when %d connections are read interleaved" % (exc, j, len(members)))
        elif up != st.base[0] or trace[-1]["rest"] != st.base[1]:
            ctx.fail("%s:multi-connection:delivered-differs" % st.target, dict(case, member=j), _clip(up), _clip(st.base[0]),
                     "connection %d of %d live connections with interleaved reads delivers %d items, alone %d"
                     % (j, len(members), len(up), len(st.base[0])))


# --------------------------------------------------------------------------- events between reads

def event_cases(ctx, rng):
    """(spec, [(label, cuts, extra)]) — operations on the connection, other than sends, that
    happen between the reads of a split stream:
    * the application turns encryption on after the last clear-text frame was delivered, while
      the read that delivered it already holds the first bytes of the next (encrypted) frame;
    * the caller of an HTTP request gives up (timeout/cancel) while its response is half received."""
    out = []
    for family in ("companion", "mrp"):
        for sizes, s in (([5, 0, 9, 30, 4, 2], 2), ([3, 20, 1], 1), ([2, 140, 7, 3], 1)):
            out.append(({"family": family, "enc": False, "sizes": sizes, "switch_at": s}, "switch"))
    for target in ("http", "http-hap"):
        for kinds in (["small", "nobody", "small", "zero"], ["nobody", "small", "small"]):
            out.append(({"family": "http", "target": target, "kinds": kinds, "sends": "per-frame"}, "cancel"))
    return out


def events_phase(ctx, rng):
    plan, lines = [], []
    for i, (spec, what) in enumerate(event_cases(ctx, rng)):
        spec = dict(spec, plan=None)
        path = tuple(rng.path) + ("events", i)
        st = build(ctx.seed, path, spec)
        crng = Rng(ctx.seed, *path).fork("cuts")
        n = len(st.wire)
        cases = []
        if what == "switch":
            s = st.switch_at
            lo, hi = st.ends[s - 1], st.ends[s]
            cases.append(("reference", [lo], {}))            # the read ends exactly on the frame boundary
            for c in range(lo + 1, hi):                      # ... or 1..N-1 bytes into the encrypted frame
                cases.append(("switch", [c], {}))
                if crng.chance(0.5):
                    extra_cuts = crng.sample(range(1, n), min(3, n - 1))
                    cuts = sorted(set(x for x in extra_cuts if not (lo <= x < hi)) | {c})
                    cases.append(("switch", cuts, {}))
        else:
            # strictly sequential exchange: request i is sent once response i-1 has arrived completely;
            # the caller of request v gives up after j reads of its response
            starts = list(st.first) + [n]
            total = len(st.descs)
            for v in range(total - 1):
                a, b = starts[v], starts[v + 1]
                inner_all = [c for c in range(a + 1, b)]
                for inner in [[]] + [[c] for c in (inner_all if len(inner_all) <= ctx.scale(40, 400) else crng.sample(inner_all, ctx.scale(40, 400)))] \
                        + [sorted(crng.sample(inner_all, 2)) for _ in range(6) if len(inner_all) >= 2]:
                    cuts = sorted(set(starts[1:-1]) | set(inner))
                    bounds = cuts + [n]
                    ctl = {}
                    for i2 in range(1, total):               # request 0 is sent at the start
                        ctl.setdefault(bisect.bisect_right(bounds, starts[i2]), []).append("send")
                    first_read = bisect.bisect_right(bounds, a)
                    # give up after 0 (reference: whole response arrives late) or all-but-the-last read
                    nreads_v = len(inner) + 1
                    for j in ([0] if not inner else [nreads_v - 1, crng.randint(1, nreads_v - 1)]):
                        c2 = {k: list(v2) for k, v2 in ctl.items()}
                        c2.setdefault(first_read + j, []).append("cancel:%d" % v)
                        cases.append(("reference" if not inner else "cancel", cuts,
                                      {"ctl": {str(k): v2 for k, v2 in sorted(c2.items())}, "initial": 1, "victim": v}))
        plan.append((path, spec, st, what, cases))
        lines += stream_lines(st) + [model_line(st, cuts) for (_l, cuts, _x) in cases]
    answers = ctx.lean(lines)
    off = 0
    for path, spec, st, what, cases in plan:
        off += 2 if st.plains is not None else 1
        refs = {}
        ref_case = None
        if HANGS.get(st.target, 0) >= 3:
            off += len(cases)
            continue
        for label, cuts, extra in cases:
            ans = answers[off]
            off += 1
            case = {"target": st.target, "spec": _public(spec), "rng_path": list(path), "cuts": cuts, "kind": "tail",
                    "event": what, "stream_len": len(st.wire), "probe_at": st.probe_at}
            case.update(extra)
            if label == "reference":
                ref_case = {"cuts": cuts, "ctl": extra.get("ctl"), "initial": extra.get("initial")}
            case["reference"] = ref_case
            trace, up = run_real(st, cuts, None, extra.get("initial"), None, extra.get("ctl"))
            ctx.note("target:" + st.target)
            ctx.note("cuts:event-" + what)
            ctx.case([st.target, _public(spec), "event", cuts, extra], label != "reference")
            if ans == "bad-op":
                ctx.disagree(case, "n/a", ans, where="driver rejected the line")
            else:
                model = parse_model(st, ans)
                diff = compare_buffers(st, trace, model) if what == "cancel" else compare(st, trace, model)
                if diff:
                    ctx.disagree(case, _short(trace), ans[:300], where="event %s: %s" % (what, diff))
            ctx.validated()
            exc = next((ob["exc"] for ob in trace if ob["exc"]), None)
            key = extra.get("victim")
            if label == "reference":
                refs[key] = (up, trace[-1]["rest"])
                want = len(st.descs) if what == "switch" else len(st.descs)
                if exc or len(up) != want:
                    ctx.fail("%s:event-%s:reference-incomplete" % (st.target, what), case, exc or _clip(up), "%d items" % want,
                             "reference run (event exactly at the frame boundary / whole response late) hands %d items upward, "
                             "expected %d%s" % (len(up), want, ", exception " + exc if exc else ""))
                    refs.pop(key)
                continue
            if key not in refs:
                continue
            rup, rrest = refs[key]
            if exc:
                ctx.fail("%s:event-%s:exception:%s" % (st.target, what, exc), case, exc, "no exception",
                         "%s escapes the receive callback when %s (cuts %s)" % (exc, _event_text(what), cuts[:6]))
            elif up != rup or trace[-1]["rest"] != rrest:
                ctx.fail("%s:event-%s:delivered-differs" % (st.target, what), case, _clip(up), _clip(rup),
                         "%s: %d items handed upward, %d when the read ends on the frame boundary (cuts %s)"
                         % (_event_text(what), len(up), len(rup), cuts[:6]))


def _event_text(what):
    return ("encryption is enabled after the last clear-text frame while the next frame is partly buffered"
            if what == "switch" else "the caller of a request gives up while its response is half received")


# --------------------------------------------------------------------------- very large frames

def large_specs(ctx):
    MiB = 1 << 20
    T = ctx.thorough
    out = []
    for size in ([MiB, 5 * MiB, 17 * MiB] if T else [MiB + 3, 5 * MiB]):
        out.append({"family": "mrp", "enc": False, "sizes": [size, 3, 2]})
        out.append({"family": "http", "target": "http", "kinds": ["huge:%d" % size, "small", "nobody"]})
        out.append({"family": "http", "target": "server", "kinds": ["huge:%d" % size, "small", "nobody"]})
    for size in ([MiB, 5 * MiB, (1 << 24) - 1] if T else [5 * MiB, (1 << 24) - 1]):
        out.append({"family": "companion", "enc": False, "sizes": [size, 1, 0]})
    out.append({"family": "mrp", "enc": True, "sizes": [5 * MiB, 30]})
    out.append({"family": "companion", "enc": True, "sizes": [5 * MiB, 2]})
    out.append({"family": "data", "kinds": ["huge:%d" % (MiB if T else 300000), "one"], "sends": "per-frame"})
    out.append({"family": "http", "target": "http-hap", "kinds": ["huge:%d" % (MiB if T else 300000), "nobody"], "sends": "per-frame"})
    if T:
        out.append({"family": "http", "target": "event", "kinds": ["huge:%d" % MiB, "nobody"], "sends": "per-frame"})
    return out


def large_phase(ctx, rng):
    """Frames far larger than anything above (MiB range), on the real code only: the model
    driver is not shown these bytes (the theorems hold for every length)."""
    for i, spec in enumerate(large_specs(ctx)):
        spec = dict(spec, plan=None)
        path = tuple(rng.path) + ("large", i)
        st = build(ctx.seed, path, spec)
        n = st.probe_at
        crng = Rng(ctx.seed, *path).fork("cuts")
        first_end = st.regions[0][1]
        singles = sorted({1, first_end, first_end + 1, n // 2, n - 1, crng.randint(2, n - 2), crng.randint(2, n - 2)} - {0, n})
        cut_lists = [None] + [[c] for c in singles] + [sorted(crng.sample(range(1, n), 5))]
        if HANGS.get(st.target, 0) >= 3 and ctx.failures:
            continue
        base = None
        for cuts in cut_lists:
            case = {"target": st.target, "spec": _public(spec), "rng_path": list(path), "cuts": cuts,
                    "stream_len": len(st.wire), "probe_at": n, "large": True}
            trace, up = run_real(st, [] if cuts is None else cuts + [n])
            ctx.note("target:" + st.target)
            ctx.note("cuts:large-frame")
            ctx.case([st.target, _public(spec), "large", cuts], cuts is not None)
            exc = next((ob["exc"] for ob in trace if ob["exc"]), None)
            if cuts is None:
                base = (up, trace[-1]["rest"])
                if exc or len(up) != expected_up(st):
                    ctx.fail(st.target + ":large:whole-incomplete", case, exc or _clip(up), "%d items" % expected_up(st),
                             "a valid stream with a %d-byte frame delivered in one read hands %d items upward (expected %d)"
                             % (n, len(up), expected_up(st)))
                    break
                continue
            if exc:
                ctx.fail("%s:large:exception:%s" % (st.target, exc), case, exc, "no exception",
                         "%s escapes the receive callback for a %d-byte stream cut at %s" % (exc, n, cuts))
            elif up != base[0] or trace[-1]["rest"] != base[1]:
                ctx.fail(st.target + ":large:delivered-differs", case, _clip(up), _clip(base[0]),
                         "stream with a multi-MiB frame (%d bytes) cut at %s delivers %d items, in one read %d"
                         % (n, cuts, len(up), len(base[0])))


def replay_d1(ctx):
    """D1 (fixed): the canonical witness of `C02_mrpPinned_counterexample` on the real code —
    a 128-byte frame cut between the two varint bytes.  Reported through the ordinary
    oracle (a regression is a VIOLATION)."""
    spec = {"family": "mrp", "enc": False, "sizes": [128, 2], "plan": None}
    path = ("C02", "d1")
    st = build(ctx.seed, path, spec)
    case = {"target": "mrp", "spec": _public(spec), "rng_path": list(path), "cuts": [1], "stream_len": len(st.wire),
            "probe_at": st.probe_at}
    base, up0 = run_real(st, [])
    trace, up = run_real(st, [1, st.probe_at])
    ctx.case(["mrp", "d1", [1]], True)
    ans = ctx.lean(["stream " + st.wire.hex(), "run mrp 1,%d" % st.probe_at, "run mrppinned 1,%d" % st.probe_at])
    diff = compare(st, trace, parse_model(st, ans[1]))
    if diff:
        ctx.disagree(case, _short(trace), ans[1], where="D1 witness: " + diff)
    ctx.validated()
    ctx.notes["D1"] = {"repaired_model": ans[1], "pinned_model": ans[2], "impl": _short(trace)}
    if trace[0]["exc"] or up != up0:
        ctx.fail("mrp:exception:" + str(trace[0]["exc"]) if trace[0]["exc"] else "mrp:delivered-differs", case,
                 trace[0]["exc"] or _clip(up), "frame delivered, no exception",
                 "MRP frame with a two-byte varint cut after its first byte")


def widen(ctx):
    run(ctx)


def replay(ctx, failure):
    logging.getLogger("pyatv").setLevel(100)
    case = failure["case"]
    if "members" in case:
        members, bases = [], []
        for m in case["members"]:
            st = build(ctx.seed, tuple(m["rng_path"]), dict(m["spec"], plan=None))
            bases.append(run_real(st, []))
            members.append((st, list(m["cuts"]) + [st.probe_at], m.get("sends"), m.get("initial")))
        results = run_multi(members, case["order"])
        for (trace, up), (btrace, bup) in zip(results, bases):
            if any(ob["exc"] for ob in trace) or up != bup or trace[-1]["rest"] != btrace[-1]["rest"]:
                return True
        return False
    spec = dict(case["spec"], plan=None)
    st = build(ctx.seed, tuple(case["rng_path"]), spec)
    n = st.probe_at
    if case.get("event"):
        ref = case["reference"]
        rtrace, rup = run_real(st, ref["cuts"], None, ref.get("initial"), None, ref.get("ctl"))
        trace, up = run_real(st, case["cuts"], None, case.get("initial"), None, case.get("ctl"))
        return bool(any(ob["exc"] for ob in trace) or up != rup or trace[-1]["rest"] != rtrace[-1]["rest"]
                    or len(rup) != len(st.descs))
    if case.get("fault") is not None:
        k = case["fault"]
        rtrace, rup = run_real(st, [], fault=k)
        trace, up = run_real(st, read_cuts(st, case.get("kind"), case["cuts"], case), fault=k)
        exc = next((ob["exc"] for ob in trace if ob["exc"]), None)
        rexc = next((ob["exc"] for ob in rtrace if ob["exc"]), None)
        return bool(exc != rexc or up != rup or (exc is None and trace[-1]["rest"] != rtrace[-1]["rest"]))
    base, up0 = run_real(st, [])
    if case["cuts"] is None:
        return bool(any(ob["exc"] for ob in base) or len(up0) != expected_up(st))
    trace, up = run_real(st, read_cuts(st, case.get("kind"), case["cuts"]), case.get("sends"), case.get("initial"))
    return bool(any(ob["exc"] for ob in trace) or up != up0 or trace[-1]["rest"] != base[-1]["rest"])


def shrink(ctx, failure):
    """Fewest cuts that still fail on the real code."""
    case = failure["case"]
    if "members" in case or case.get("sends") or case.get("large") or case.get("tail") or case.get("event"):
        return failure
    cuts = list(case["cuts"] or [])
    if len(cuts) <= 1:
        return failure

    def fails(cs):
        f = dict(failure, case=dict(case, cuts=cs))
        return replay(ctx, f)

    for c in cuts:
        if fails([c]):
            return dict(failure, case=dict(case, cuts=[c]), what=failure["what"] + " [shrunk to one cut]")
    changed = True
    while changed and len(cuts) > 1:
        changed = False
        for i in range(len(cuts)):
            trial = cuts[:i] + cuts[i + 1:]
            if fails(trial):
                cuts, changed = trial, True
                break
    return dict(failure, case=dict(case, cuts=cuts))
