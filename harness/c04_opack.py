"""C04 / OPACK — correspondence + direct oracle for pyatv/support/opack.py pack/unpack.

Real code driven in-process: `opack.pack`, `opack.unpack` (and `opack._pack` /
`opack._unpack` with a prepared object list for the pointer-index classes, which would
otherwise need 65 537 distinct objects per case).

Per generated value x (boundary-biased, nested, with repeated / cross-type-equal parts):
  tie     real pack(x) bytes           == Lean `pack`   (model of opack.py)
  tie     real unpack(bytes)           == Lean `unpack` (typed dump incl. int_<k>b sizes)
  tie     Python reference encoder     == Lean `refPack` (both written from the format doc)
  oracle  unpack(pack(x)) equals x under a TYPED canonical dump, nothing left over
  oracle  pack(x) == reference encoder output (documentation)
  oracle  reference decoder (documentation) reads pack(x) back as x
Reference-variant streams (legal per the documentation, never emitted by pack: non-minimal
length classes, endless containers, wider ints, float32, wider pointers):
  tie     real unpack == Lean `unpack`;   oracle  real unpack(variant(x)) equals x
Malformed streams (truncation, byte flips, insertions, random bytes):
  tie     real unpack ok/err(+class, value when ok) == Lean `unpack`
Call histories (pack and unpack are functions of their argument: nothing may survive a call,
whether it returned or raised): sequences of pack()/unpack() calls in ONE process that share
objects, with failing calls interleaved (an unsupported type / unencodable int deep inside a
value after several packable objects; a stream that turns invalid after several decoded objects):
  oracle  every call that succeeds (in the history or in a fresh state) gives exactly what the
          same call gives on a freshly loaded private copy of pyatv/support/opack.py
  tie     real result of every modelable call == Lean `pack` / `unpack` (pure functions)
"""
import datetime as datetime_mod
import importlib.util
import struct
import uuid as uuid_mod

PROPS_FILES = ["PyatvModel/Props/C04Opack.lean"]
LEAN_TARGETS = ["PyatvModel.Props.C04Opack", "PyatvModel.C04.Opack.Driver"]
DRIVER = "Driver/C04Opack.lean"
RULE = ("OPACK: structured values from ctx.rng (depth <=4 quick / <=6 thorough; scalars biased to every "
        "length-class boundary 0x20/0x21, 0xFF/0x100, 0xFFFF/0x10000, int widths, -1, +-0.0, NaN, non-ASCII; "
        "containers of 0/1/14/15/16/n items; sub-values re-used to force back-references, cross-type equal "
        "scalars 1/True/1.0, 255/255.0) -> real pack/unpack vs Lean model, vs reference codec written from "
        "docs/documentation/protocols.md; plus reference-variant and malformed streams. non-trivial = the "
        "encoding contains a back-reference, an endless container or a multi-byte length class; distinct = "
        "typed dump of the value / hex of the stream; call histories of 3..8 pack/unpack calls over a shared "
        "object pool with failing calls interleaved, each compared with the same call in a fresh module state "
        "(non-trivial = a failing call is followed by a succeeding one)")
ASSUMPTIONS = [
    "opack: CPython str.encode('utf-8')/bytes.decode('utf-8') are inverse on valid UTF-8; struct '<d' is the IEEE-754 bit pattern",
    "opack: dict keys that are NaN are excluded (a Python dict tells NaN keys apart by object identity, which the model does not carry)",
    "opack: values a Python dict cannot hold distinctly (1 / True / 1.0 as keys of one dict) are excluded from the generator",
    "opack: domain = None, bool, -1, ints 0..2^64-1 (plain or int_<1|2|4|8>b that fit), float, str, bytes, UUID, list, dict (documented types); datetime and negative ints < -1 are outside the documented domain",
]
TRUSTED = ["harness/c04_opack.py: typed dump, reference encoder/decoder written from the format documentation, variant/malformed stream generators"]

SIG_DOC_DATA = "opack:doc-data-length-width"


# --------------------------------------------------------------------------------------
# typed canonical dump (same syntax as the Lean driver)

# leaves pack() does not support (it raises); only used inside call histories
BAD_MAKE = {
    "obj": object, "dt": lambda: datetime_mod.datetime(2020, 1, 2, 3, 4, 5), "set": lambda: {1, 2},
    "tup": lambda: ("a", "b"), "barr": lambda: bytearray(b"ab"), "cplx": lambda: 1j,
}
BAD_KIND = {object: "obj", datetime_mod.datetime: "dt", set: "set", tuple: "tup", bytearray: "barr", complex: "cplx"}


def _float_bits(f):
    return struct.unpack("<Q", struct.pack("<d", f))[0]


def dump_tokens(v, sizes, out, nan_bits=False):
    t = type(v)
    if v is None:
        out.append("n")
    elif t is bool:
        out.append("T" if v else "F")
    elif isinstance(v, int) and (t is int or t.__name__.startswith("int_")):
        size = getattr(v, "size", 0) or 0
        out.append("i%d:%d" % (int(v), size if sizes else 0))
    elif t is float:
        out.append("fnan" if v != v and not nan_bits else "f%016x" % _float_bits(v))
    elif t is str:
        out.append("s" + v.encode("utf-8", "surrogatepass").hex())
    elif t is bytes:
        out.append("b" + v.hex())
    elif t is uuid_mod.UUID:
        out.append("u" + v.bytes.hex())
    elif t is list:
        out.append("L%d" % len(v))
        for x in v:
            dump_tokens(x, sizes, out, nan_bits)
    elif t is dict:
        out.append("D%d" % len(v))
        for k, x in v.items():
            dump_tokens(k, sizes, out, nan_bits)
            dump_tokens(x, sizes, out, nan_bits)
    elif t in BAD_KIND:
        out.append("X" + BAD_KIND[t])
    else:
        out.append("?" + t.__name__)
    return out


def dump(v, sizes=True, nan_bits=False):
    """typed canonical dump; `nan_bits=True` is the form sent TO the model (exact pattern)"""
    return ",".join(dump_tokens(v, sizes, [], nan_bits))


def has_nan_key(v):
    if type(v) is list:
        return any(has_nan_key(x) for x in v)
    if type(v) is dict:
        return any((type(k) is float and k != k) or has_nan_key(x) for k, x in v.items())
    return False


# --------------------------------------------------------------------------------------
# reference encoder / decoder written from docs/documentation/protocols.md ("OPACK")

class RefError(Exception):
    pass


def _ref_class(small, small_max, classes, n):
    if n <= small_max:
        return bytes([small + n])
    for tag, width in classes:
        if n < 256 ** width:
            return bytes([tag]) + n.to_bytes(width, "little")
    raise RefError("too long")


STR_CLASSES = [(0x61, 1), (0x62, 2), (0x63, 3), (0x64, 4)]
DATA_CLASSES = [(0x91, 1), (0x92, 2), (0x93, 3), (0x94, 4)]
PTR_CLASSES = [(0xC1, 1), (0xC2, 2), (0xC3, 3), (0xC4, 4)]
INT_TAGS = {1: 0x30, 2: 0x31, 4: 0x32, 8: 0x33}


def ref_scalar(v):
    t = type(v)
    if v is None:
        return b"\x04"
    if t is bool:
        return b"\x01" if v else b"\x02"
    if t is uuid_mod.UUID:
        return b"\x05" + v.bytes
    if isinstance(v, int):
        w = getattr(v, "size", 0) or 0
        n = int(v)
        if n == -1 and not w:
            return b"\x07"
        if n < 0:
            raise RefError("negative")
        if not w and n <= 39:
            return bytes([0x08 + n])
        if not w:
            w = 1 if n < 2 ** 8 else 2 if n < 2 ** 16 else 4 if n < 2 ** 32 else 8
        if w not in INT_TAGS or n >= 256 ** w:
            raise RefError("int width")
        return bytes([INT_TAGS[w]]) + n.to_bytes(w, "little")
    if t is float:
        return b"\x36" + struct.pack("<d", v)
    if t is str:
        e = v.encode("utf-8")
        return _ref_class(0x40, 32, STR_CLASSES, len(e)) + e
    if t is bytes:
        return _ref_class(0x70, 32, DATA_CLASSES, len(v)) + v
    raise RefError("type " + t.__name__)


def ref_pack(v, table=None):
    """Minimal documented encoding; pointer for every repeated multi-byte object."""
    table = [] if table is None else table
    t = type(v)
    if t is list or t is dict:
        items = list(v) if t is list else [y for kv in v.items() for y in kv]
        body = b"".join(ref_pack(x, table) for x in items)
        base = 0xD0 if t is list else 0xE0
        if len(v) <= 14:
            return bytes([base + len(v)]) + body
        return bytes([base + 0xF]) + body + b"\x03"
    enc = ref_scalar(v)
    if enc in table:
        try:
            return _ref_class(0xA0, 0x20, PTR_CLASSES, table.index(enc))
        except RefError:
            return enc
    if len(enc) > 1:
        table.append(enc)
    return enc


def ref_unpack(data, table=None):
    """Strict decoder of the documented table; raises RefError on anything else."""
    table = [] if table is None else table
    if not data:
        raise RefError("empty")
    t, rest = data[0], data[1:]

    def fixed(n):
        if len(rest) < n:
            raise RefError("short")
        return rest[:n], rest[n:]

    def sized(nb):
        hdr, body = fixed(nb)
        ln = int.from_bytes(hdr, "little")
        if len(body) < ln:
            raise RefError("short")
        return body[:ln], body[ln:]

    indexed = True
    if t == 0x01:
        v, rem, indexed = True, rest, False
    elif t == 0x02:
        v, rem, indexed = False, rest, False
    elif t == 0x04:
        v, rem, indexed = None, rest, False
    elif t == 0x05:
        b, rem = fixed(16)
        v = uuid_mod.UUID(bytes=bytes(b))
    elif t == 0x07:
        v, rem, indexed = -1, rest, False
    elif 0x08 <= t <= 0x2F:
        v, rem, indexed = t - 8, rest, False
    elif 0x30 <= t <= 0x33:
        b, rem = fixed(1 << (t - 0x30))
        v = int.from_bytes(b, "little")
    elif t == 0x35:
        b, rem = fixed(4)
        v = struct.unpack("<f", b)[0]
    elif t == 0x36:
        b, rem = fixed(8)
        v = struct.unpack("<d", b)[0]
    elif 0x40 <= t <= 0x60:
        b, rem = fixed(t - 0x40)
        v, indexed = bytes(b).decode("utf-8"), t != 0x40
    elif 0x61 <= t <= 0x64:
        b, rem = sized(t - 0x60)
        v = bytes(b).decode("utf-8")
    elif 0x70 <= t <= 0x90:
        b, rem = fixed(t - 0x70)
        v, indexed = bytes(b), t != 0x70
    elif 0x91 <= t <= 0x94:
        b, rem = sized(t - 0x90)
        v = bytes(b)
    elif 0xA0 <= t <= 0xC0:
        if t - 0xA0 >= len(table):
            raise RefError("pointer")
        return table[t - 0xA0], rest
    elif 0xC1 <= t <= 0xC4:
        b, rem = fixed(t - 0xC0)
        i = int.from_bytes(b, "little")
        if i >= len(table):
            raise RefError("pointer")
        return table[i], rem
    elif 0xD0 <= t <= 0xEF:
        is_dict = t >= 0xE0
        count = t & 0xF
        items, ptr = [], rest
        if count == 0xF:
            while True:
                if not ptr:
                    raise RefError("unterminated")
                if ptr[0] == 0x03:
                    ptr = ptr[1:]
                    break
                x, ptr = ref_unpack(ptr, table)
                items.append(x)
        else:
            for _ in range(count * (2 if is_dict else 1)):
                x, ptr = ref_unpack(ptr, table)
                items.append(x)
        if not is_dict:
            return items, ptr
        if len(items) % 2:
            raise RefError("odd dict")
        d = {}
        for i in range(0, len(items), 2):
            d[items[i]] = items[i + 1]
        return d, ptr
    else:
        raise RefError("tag %#x" % t)
    if indexed:
        table.append(v)
    return v, rem


# --------------------------------------------------------------------------------------
# reference-variant encoder: any encoding the documentation allows for the same value

class Variant:
    def __init__(self, rng, allow_dup=False):
        self.rng = rng
        self.table = []          # (encoded bytes, typed dump of value)
        self.allow_dup = allow_dup
        self.features = set()

    def _len_class(self, small, small_max, classes, n):
        opts = []
        if n <= small_max:
            opts.append(bytes([small + n]))
        for tag, width in classes:
            if n < 256 ** width:
                opts.append(bytes([tag]) + n.to_bytes(width, "little"))
        pick = self.rng.choice(opts)
        if pick != opts[0]:
            self.features.add("non-minimal-length")
        return pick

    def scalar(self, v):
        t = type(v)
        r = self.rng
        if isinstance(v, int) and t is not bool and int(v) >= 0:
            n = int(v)
            opts = [] if n > 39 else [bytes([8 + n])]
            opts += [bytes([INT_TAGS[w]]) + n.to_bytes(w, "little") for w in (1, 2, 4, 8) if n < 256 ** w]
            pick = r.choice(opts)
            if pick != opts[0]:
                self.features.add("wider-int")
            return pick
        if t is float and v == v:
            try:
                f32 = struct.unpack("<f", struct.pack("<f", v))[0]
            except OverflowError:
                f32 = None
            if f32 is not None and _float_bits(f32) == _float_bits(v) and r.chance(0.5):
                self.features.add("float32")
                return b"\x35" + struct.pack("<f", v)
        if t is str:
            e = v.encode("utf-8")
            return self._len_class(0x40, 32, STR_CLASSES, len(e)) + e
        if t is bytes:
            return self._len_class(0x70, 32, DATA_CLASSES[:2], len(v)) + v
        return ref_scalar(v)

    def encode(self, v):
        t = type(v)
        r = self.rng
        if t is list or t is dict:
            items = list(v) if t is list else [y for kv in v.items() for y in kv]
            body = b"".join(self.encode(x) for x in items)
            base = 0xD0 if t is list else 0xE0
            if len(v) <= 14 and not r.chance(0.4):
                return bytes([base + len(v)]) + body
            self.features.add("endless" if len(v) <= 14 else "endless-required")
            return bytes([base + 0xF]) + body + b"\x03"
        key = dump(v, sizes=False)
        hits = [i for i, (_e, k) in enumerate(self.table) if k == key]
        if hits and r.chance(0.8):
            i = r.choice(hits)
            opts = [bytes([0xA0 + i])] if i <= 0x20 else []
            opts += [bytes([tag]) + i.to_bytes(w, "little") for tag, w in PTR_CLASSES if i < 256 ** w]
            pick = r.choice(opts)
            self.features.add("pointer" if pick == opts[0] else "wider-pointer")
            return pick
        for _ in range(8):
            enc = self.scalar(v)
            present = any(e == enc for e, _k in self.table)
            if not present:
                if len(enc) > 1:
                    self.table.append((enc, key))
                return enc
            if self.allow_dup:
                self.features.add("duplicate-in-full")
                return enc
        # every allowed encoding is already in the table: point at it
        i = next(i for i, (e, _k) in enumerate(self.table) if e == enc)
        return _ref_class(0xA0, 0x20, PTR_CLASSES, i)


# --------------------------------------------------------------------------------------
# value generator

TEXT = ["", "a", "bb", "abc", "test", "é", "ü", "日本語", "\U0001F600", "naïve café", "\x00", "\x7f", "ࠀ", "￿"]
INT_EDGES = [-1, 0, 1, 2, 0x27, 0x28, 0x29, 0x7F, 0x80, 0xFF, 0x100, 0x101, 0x7FFF, 0xFFFF, 0x10000, 0xFFFFFF,
             0x1000000, 0xFFFFFFFF, 0x100000000, 2 ** 63 - 1, 2 ** 63, 2 ** 64 - 1]
FLOATS = [0.0, -0.0, 1.0, -1.0, 2.0, 255.0, 256.0, 0.5, 1.5, 3.141592653589793, 1e300, 5e-324, float("inf"),
          float("-inf"), float("nan"), 65535.0, 4294967295.0, 39.0, 40.0]
LEN_EDGES = [0, 1, 2, 0x1F, 0x20, 0x21, 0x22, 0xFE, 0xFF, 0x100, 0x101]
LEN_BIG = [0xFFFF, 0x10000, 0x10001]


class Gen:
    def __init__(self, rng, opack, max_depth, big_budget):
        self.r = rng
        self.opack = opack
        self.max_depth = max_depth
        self.big_budget = big_budget
        self.pool = []

    def length(self):
        r = self.r
        x = r.random()
        if x < 0.55:
            return r.choice(LEN_EDGES)
        if x < 0.58 and self.big_budget > 0:
            self.big_budget -= 1
            return r.choice(LEN_BIG)
        return r.randrange(0, 40)

    def text(self, n):
        r = self.r
        if n <= 12 and r.chance(0.5):
            return r.choice(TEXT)
        out, size = [], 0
        while size < n:
            c = r.choice("abcxyz019 _éü日\U0001F600") if r.chance(0.15) else r.choice("abcdefgh")
            w = len(c.encode())
            if size + w > n:
                c, w = "a", 1
            out.append(c)
            size += w
        return "".join(out)

    def scalar(self):
        r = self.r
        k = r.randrange(12)
        if k == 0:
            return None
        if k == 1:
            return r.chance(0.5)
        if k in (2, 3):
            n = r.choice(INT_EDGES) if r.chance(0.7) else r.getrandbits(r.choice([5, 6, 8, 9, 16, 17, 32, 33, 64]))
            if n >= 0 and r.chance(0.25):
                fits = [w for w in (1, 2, 4, 8) if n < 256 ** w]
                return self.opack._sized_int(n, r.choice(fits))
            return n
        if k == 4:
            return r.choice(FLOATS) if r.chance(0.8) else struct.unpack("<d", struct.pack("<Q", r.getrandbits(64)))[0]
        if k in (5, 6, 7):
            return self.text(self.length())
        if k in (8, 9):
            n = self.length()
            return bytes([r.getrandbits(8)]) * n if n > 64 else r.bytes_(n)
        if k == 10:
            return uuid_mod.UUID(bytes=r.bytes_(16))
        return r.choice([1, True, 1.0, 0, False, 0.0, -0.0, 255, 255.0, "", b"", "1", b"1"])

    def count(self):
        r = self.r
        return r.choice([0, 1, 2, 3, 3, 4, 14, 15, 16]) if r.chance(0.6) else r.randrange(0, 8)

    @staticmethod
    def weight(v):
        t = type(v)
        if t is list:
            return 1 + sum(Gen.weight(x) for x in v)
        if t is dict:
            return 1 + sum(Gen.weight(k) + Gen.weight(x) for k, x in v.items())
        if t is str or t is bytes:
            return 1 + len(v) // 64
        return 1

    def top(self, budget=120):
        """one top-level value of bounded total size"""
        self.left = budget
        return self.value(0)

    def value(self, depth=0):
        r = self.r
        if self.pool and r.chance(0.3):
            v, w = r.choice(self.pool)          # repeated sub-value -> back-references
            if w <= self.left or w <= 2:
                self.left -= w
                return v
        if depth >= self.max_depth or self.left <= 1 or r.chance(0.45 if depth else 0.1):
            v = self.scalar()
        elif r.chance(0.6):
            v = []
            for _ in range(self.count()):
                if self.left <= 0 and len(v) not in (13, 14, 15):
                    break
                v.append(self.value(depth + 1))
        else:
            v = {}
            for _ in range(self.count()):
                if self.left <= 0:
                    break
                k = self.scalar()
                if type(k) is float and k != k:
                    continue
                if k in v:                      # 1 / True / 1.0 cannot coexist as keys
                    continue
                self.left -= self.weight(k)
                v[k] = self.value(depth + 1)
        w = self.weight(v)
        if type(v) not in (list, dict):
            self.left -= w
        else:
            self.left -= 1
        if w <= 40:
            self.pool.append((v, w))
            if len(self.pool) > 24:
                self.pool.pop(r.randrange(len(self.pool)))
        return v


def depth_of(v):
    if type(v) is list:
        return 1 + max([depth_of(x) for x in v], default=0)
    if type(v) is dict:
        return 1 + max([depth_of(x) for x in v.values()], default=0)
    return 0


def contains_big_data(v):
    if type(v) is bytes:
        return len(v) > 0xFFFF
    if type(v) is list:
        return any(contains_big_data(x) for x in v)
    if type(v) is dict:
        return any(contains_big_data(k) or contains_big_data(x) for k, x in v.items())
    return False


# --------------------------------------------------------------------------------------
# running the real code

ERR_CLASS = [(IndexError, "index"), (TypeError, "type"), (struct.error, "struct"), (ValueError, "value")]


def real_pack(opack, v):
    try:
        return opack.pack(v)
    except Exception as e:  # observation
        return e


def real_unpack(opack, data):
    """-> ('ok', value, rest) | ('err', class)"""
    try:
        v, rest = opack.unpack(data)
        return ("ok", v, bytes(rest))
    except RecursionError:
        return ("err", "recursion")
    except Exception as e:  # observation
        for cls, name in ERR_CLASS:
            if isinstance(e, cls):
                return ("err", name)
        return ("err", type(e).__name__)


def show_unpack(res):
    if res[0] == "ok":
        return "ok %s %s" % (dump(res[1]), res[2].hex() or "-")
    return "err:" + res[1]


def hx(b):
    return b.hex() or "-"


D5_WITNESSES = [
    [[1, 2], [1, 2]],
    [["aa"], "bb", "bb"],
    [255.0, 255, "abc", "abc"],
    ["", "abc", "abc"],
    [b"", b"abc", b"abc"],
    [0.0, -0.0, "abc", "abc"],
    {"a": [1], "b": "xx", "c": "xx"},
    [{"k": "vv"}, {"k": "vv"}, "vv", "k", "zz", "zz"],
    [1, True, 1.0, "abc", "abc"],
    -1,
    [-1, "abc", -1, "abc"],
    15 * ["a"],
    [[], {}, [[]], "", b""],
]


def mutate(rng, data):
    kind = rng.randrange(6)
    b = bytearray(data)
    if kind == 0 and len(b) > 1:
        return bytes(b[: rng.randrange(1, len(b))]), "truncate"
    if kind == 1 and b:
        i = rng.randrange(len(b))
        b[i] ^= 1 << rng.randrange(8)
        return bytes(b), "bitflip"
    if kind == 2 and b:
        i = rng.randrange(len(b))
        b[i] = rng.choice([0x00, 0x03, 0x05, 0x06, 0x07, 0x35, 0x36, 0x34, 0x3F, 0x60, 0x64, 0x6F, 0x94, 0x9F, 0xA0, 0xC0,
                           0xC1, 0xC4, 0xC5, 0xDF, 0xEF, 0xF0, 0xFF])
        return bytes(b), "tag-swap"
    if kind == 3:
        i = rng.randrange(len(b) + 1)
        b[i:i] = rng.bytes_(rng.randrange(1, 4))
        return bytes(b), "insert"
    if kind == 4 and len(b) > 2:
        i = rng.randrange(len(b))
        del b[i]
        return bytes(b), "delete"
    return rng.bytes_(rng.randrange(0, 12)), "random"



# --------------------------------------------------------------------------------------
# call histories: nothing may survive a call of pack()/unpack()

_FRESH_N = [0]


def fresh_copy(opack):
    """a private, freshly executed copy of the module under test (fresh module-level state)"""
    _FRESH_N[0] += 1
    spec = importlib.util.spec_from_file_location("_verif_fresh_opack_%d" % _FRESH_N[0], opack.__file__)
    mod = importlib.util.module_from_spec(spec)
    spec.loader.exec_module(mod)
    return mod


def history_call(mod, op, opack):
    """one call -> canonical result string ('ok …' | 'err' | 'err:<class>')"""
    kind, arg = op
    if kind == "pack":
        res = real_pack(mod, parse_dump(arg, opack))
        return "err" if isinstance(res, Exception) else "ok " + hx(res)
    return show_unpack(real_unpack(mod, bytes.fromhex(arg) if arg != "-" else b""))


def history_run(opack, ops):
    """(results of the calls made in sequence in ONE module state, results of each call alone in a
    fresh state).  Both run the source file under test; the sequence gets its own freshly executed
    copy too, so that a history is self-contained (replayable, shrinkable) whatever ran before."""
    one_state = fresh_copy(opack)
    seq = [history_call(one_state, op, opack) for op in ops]
    alone = [history_call(fresh_copy(opack), op, opack) for op in ops]
    return seq, alone


def history_bad(seq, alone):
    """indices of calls whose outcome depends on the earlier calls"""
    return [i for i, (a, b) in enumerate(zip(seq, alone)) if a != b and (a.startswith("ok") or b.startswith("ok"))]


class HistoryGen:
    KEYS = ["_i", "_t", "_c", "_x", "_systemInfo", "_pd", "name", "model", "é", "日本"]

    def __init__(self, rng, opack):
        self.r = rng
        self.opack = opack

    def pool(self):
        r = self.r
        out = [r.choice(self.KEYS) for _ in range(r.randrange(2, 5))]
        for _ in range(r.randrange(2, 6)):
            k = r.randrange(6)
            if k == 0:
                out.append(r.choice([0x28, 0xFF, 0x100, 0x10000, 1254122577, 2 ** 64 - 1]))
            elif k == 1:
                out.append(r.choice([1.0, 255.0, 0.5, -0.0, 1e300]))
            elif k == 2:
                out.append(r.bytes_(r.choice([1, 2, 6, 0x20, 0x21])))
            elif k == 3:
                out.append(uuid_mod.UUID(bytes=r.bytes_(16)))
            elif k == 4:
                out.append(self.opack._sized_int(r.randrange(0, 200), r.choice([1, 2, 4, 8])))
            else:
                out.append("".join(r.choice("abcxyzé") for _ in range(r.randrange(2, 12))))
        return out

    def leaf(self, pool):
        r = self.r
        return r.choice(pool) if r.chance(0.8) else r.choice([None, True, False, 0, 7, "", b"", -1])

    def good(self, pool, depth=0):
        r = self.r
        n = r.choice([1, 2, 3, 3, 4, 5, 15]) if depth == 0 else r.randrange(0, 4)
        if r.chance(0.5):
            out = []
            for _ in range(n):
                out.append(self.good(pool, depth + 1) if depth < 2 and r.chance(0.2) else self.leaf(pool))
            return out
        out = {}
        for _ in range(n):
            k = self.leaf(pool)
            if k in out:
                continue
            out[k] = self.good(pool, depth + 1) if depth < 2 and r.chance(0.25) else self.leaf(pool)
        return out

    def bad(self, pool):
        """a value pack() raises on only AFTER it packed several multi-byte objects"""
        r = self.r
        kind = r.randrange(8)
        leaf = BAD_MAKE[r.choice(sorted(BAD_MAKE))]() if kind < 6 else (-9 if kind == 6 else 2 ** 64)
        if r.chance(0.4):
            leaf = [leaf] if r.chance(0.5) else {r.choice(pool[:2]): leaf}
        front = [r.choice(pool) for _ in range(r.randrange(1, 5))]
        if r.chance(0.5):
            return front + [leaf] + ([r.choice(pool)] if r.chance(0.3) else [])
        out = {}
        for i, v in enumerate(front):
            out[pool[i % len(pool)] if r.chance(0.7) else "k%d" % i] = v
        out["zz-last"] = leaf
        return out

    def bad_stream(self, pool):
        """a stream unpack() raises on only AFTER it decoded several multi-byte objects"""
        r = self.r
        table = []
        items = [ref_pack(r.choice(pool), table) for _ in range(r.randrange(1, 6))]
        tail = r.choice([b"\x00", b"\xc0", b"\xc1\xff", b"", b"\x6f", b"\x05\x01"])
        count = len(items) + 1
        head = bytes([0xD0 + count]) if count <= 14 and r.chance(0.7) else b"\xdf"
        return head + b"".join(items) + tail

    def history(self):
        r = self.r
        pool = self.pool()
        ops = []
        for _ in range(r.randrange(3, 9)):
            k = r.random()
            try:
                if k < 0.4:
                    ops.append(("pack", dump(self.good(pool), nan_bits=True)))
                elif k < 0.65:
                    ops.append(("pack", dump(self.bad(pool), nan_bits=True)))
                elif k < 0.85:
                    ops.append(("unpack", hx(ref_pack(self.good(pool)))))
                else:
                    ops.append(("unpack", hx(self.bad_stream(pool))))
            except RefError:
                continue
        return ops


def run_histories(ctx, opack, rng, ask):
    hg = HistoryGen(rng, opack)
    corpus = [
        [("pack", "D3,s5f69,s5f73797374656d496e666f,s5f74,i2:0,s5f78,Xdt"),
         ("pack", "D3,s5f69,s5f73797374656d496e666f,s5f74,i2:0,s5f78,i17:0")],
        [("unpack", "d3426161426262" + "00"), ("unpack", "d3426363426161a1")],
        [("pack", "L3,s6161,s6262,Xobj"), ("unpack", "d3426363426161a1"), ("pack", "L2,s6262,s6161")],
    ]
    histories = corpus + [hg.history() for _ in range(ctx.scale(150, 1500))]
    for ops in histories:
        if not ops:
            continue
        ops = [list(op) for op in ops]
        seq, alone = history_run(opack, ops)
        fails = [i for i, a in enumerate(seq) if not a.startswith("ok")]
        oks = [i for i, a in enumerate(seq) if a.startswith("ok")]
        nontrivial = bool(fails) and bool(oks) and min(fails) < max(oks)
        ctx.case(["history", ops], nontrivial,
                 sample={"history": [[k, a[:120]] for k, a in ops], "results": [x[:80] for x in seq]})
        ctx.note("history:calls", len(ops))
        ctx.note("history:failing-calls", len(fails))
        if nontrivial:
            ctx.note("history:ok-after-failure")
        case = {"history": ops}
        for i in history_bad(seq, alone):
            kind = ops[i][0]
            prior = "after-failed-call" if any(j < i for j in fails) else "after-successful-calls"
            ctx.fail("opack:history:%s-depends-on-earlier-calls:%s" % (kind, prior), dict(case, call=i),
                     seq[i][:300], alone[i][:300],
                     "%s() call #%d of the history does not give what the same call gives in a fresh state "
                     "(something survived an earlier call)" % (kind, i))
        for i, (kind, arg) in enumerate(ops):
            if kind == "pack" and ",X" in "," + arg:
                continue                      # unsupported Python types have no model value

            def on_hist(ans, case=dict(case, call=i), want=seq[i]):
                ctx.validated()
                if ans != want:
                    ctx.disagree(case, want[:300], ans[:300], "opack call inside a history vs the (pure) model")
            ask("%s %s" % (kind, arg), on_hist)


def run(ctx):
    from pyatv.support import opack

    rng = ctx.rng.fork("opack")
    max_depth = ctx.scale(4, 6)
    n_values = ctx.scale(700, 6000)
    gen = Gen(rng.fork("values"), opack, max_depth, big_budget=ctx.scale(3, 30))

    values = [("corpus", v) for v in D5_WITNESSES]
    values.append(("corpus", bytes(65536)))                       # known finding witness (doc vs code)
    values.append(("corpus", [bytes(65535), "x" * 65535, "x" * 65536]))
    values += [("gen", gen.top()) for _ in range(n_values)]

    lines, plan = [], []

    def ask(line, handler):
        lines.append(line)
        plan.append(handler)

    # ---- encoder output ---------------------------------------------------------------
    for origin, x in values:
        dx = dump(x, nan_bits=True)
        dx_typed = dump(x, sizes=False)
        case = {"value": dx, "origin": origin}
        packed = real_pack(opack, x)
        ctx.note("depth:%d" % depth_of(x))
        if isinstance(packed, Exception):
            # the generator only produces values of the documented domain
            ctx.case(["pack", dx], False)
            ctx.fail("opack:pack-raises:" + type(packed).__name__, case, repr(packed), "pack encodes every documented value",
                     "pack raised on a value of the documented domain")
            ask("pack " + dx, lambda ans, case=case: (ctx.validated(), ans == "err" or ctx.disagree(case, "err", ans, "opack pack")))
            continue
        nontrivial = any(0xA0 <= b <= 0xC4 for b in packed[:1]) or len(packed) > 34 or b"\x03" in packed[-1:] or any(
            0xA0 <= b <= 0xC4 for b in packed[1:64])
        ctx.case(["pack", dx], nontrivial, sample={"value": dx[:300], "packed": packed.hex()[:200]})
        ctx.note("packed-len:%s" % ("1" if len(packed) == 1 else "<=34" if len(packed) <= 34 else "<=258" if len(packed) <= 258 else "<=65539" if len(packed) <= 65539 else "big"))

        def on_pack(ans, case=case, packed=packed):
            ctx.validated()
            if ans != "ok " + hx(packed):
                ctx.disagree(case, "ok " + packed.hex()[:300], ans[:300], "opack pack bytes")
        ask("pack " + dx, on_pack)

        # oracle: documented bytes
        try:
            ref = ref_pack(x)
        except RefError as e:
            ref = e
        if isinstance(ref, RefError) or ref != packed:
            big = contains_big_data(x)
            ctx.fail(SIG_DOC_DATA if big else "opack:bytes-differ-from-documentation", case,
                     packed.hex()[:80], (ref.hex()[:80] if isinstance(ref, bytes) else repr(ref)),
                     "pack output differs from the encoding documented in docs/documentation/protocols.md"
                     + (" (data object of 64 KiB or more: 0x93 + 3-byte length documented, 4-byte length written)" if big else ""))

        def on_refpack(ans, case=case, ref=ref):
            ctx.validated()
            want = "err" if isinstance(ref, RefError) else "ok " + hx(ref)
            if ans != want:
                ctx.disagree(case, want[:300], ans[:300], "opack reference encoders (python vs lean)")
        ask("refpack " + dx, on_refpack)

        # oracle: round trip, typed
        res = real_unpack(opack, packed)
        if res[0] != "ok":
            ctx.fail("opack:roundtrip:unpack-raises:" + res[1], case, show_unpack(res), "ok " + dx_typed,
                     "unpack(pack(x)) raised")
        else:
            got = dump(res[1], sizes=False)
            if got != dx_typed or res[2] != b"":
                ctx.fail("opack:roundtrip:value-differs", case, (got[:300], res[2].hex()[:40]), dx_typed[:300],
                         "unpack(pack(x)) is not x (typed comparison)")

        def on_unpack(ans, case=case, res=res):
            ctx.validated()
            if ans != show_unpack(res):
                ctx.disagree(case, show_unpack(res)[:300], ans[:300], "opack unpack of encoder output")
        ask("unpack " + hx(packed), on_unpack)

        # oracle: a reader implementing the documentation gets x back
        if not contains_big_data(x):
            try:
                rv, rrest = ref_unpack(packed)
                rgot = (dump(rv, sizes=False), bytes(rrest))
            except (RefError, ValueError, TypeError) as e:
                rgot = ("ref decoder: " + repr(e), b"")
            if rgot != (dx_typed, b""):
                ctx.fail("opack:documented-reader-differs", case, (rgot[0][:300], rgot[1].hex()[:40]), dx_typed[:300],
                         "a decoder written from the documentation does not read pack(x) back as x")

    # ---- reference-variant streams ----------------------------------------------------
    vr = rng.fork("variants")
    n_var = ctx.scale(500, 5000)
    pick = [v for _o, v in values if not contains_big_data(v) and Gen.weight(v) < 400]
    for i in range(n_var):
        x = vr.choice(pick)
        allow_dup = vr.chance(0.15)
        var = Variant(vr, allow_dup=allow_dup)
        try:
            stream = var.encode(x)
        except RefError:
            continue
        if not var.features:
            continue
        for f in var.features:
            ctx.note("variant:" + f)
        dx_typed = dump(x, sizes=False)
        case = {"variant_of": dx_typed, "stream": stream.hex(), "features": sorted(var.features)}
        ctx.case(["variant", stream.hex()], True,
                 sample={"variant_of": dx_typed[:300], "stream": stream.hex()[:300], "features": sorted(var.features)} if i < 3 else None)
        res = real_unpack(opack, stream)
        if "duplicate-in-full" not in var.features and not has_nan_key(x):
            if res[0] != "ok":
                ctx.fail("opack:variant:unpack-raises:" + res[1], case, show_unpack(res), "ok " + dx_typed[:300],
                         "unpack raised on an encoding the documentation allows")
            elif dump(res[1], sizes=False) != dx_typed or res[2] != b"":
                ctx.fail("opack:variant:value-differs", case, dump(res[1], sizes=False)[:300], dx_typed[:300],
                         "unpack of an encoding the documentation allows is not the encoded value")

        def on_var(ans, case=case, res=res):
            ctx.validated()
            if ans != show_unpack(res):
                ctx.disagree(case, show_unpack(res)[:300], ans[:300], "opack unpack of reference-variant stream")
        ask("unpack " + hx(stream), on_var)

        if "duplicate-in-full" not in var.features:
            def on_refvar(ans, case=case, want="ok %s -" % dump(x, sizes=False)):
                ctx.validated()
                got = ans
                if ans.startswith("ok "):      # the documentation knows no int_<k>b: compare without sizes
                    import re
                    got = re.sub(r"(i-?\d+):\d+", r"\1:0", ans)
                if got != want:
                    ctx.disagree(case, want[:300], got[:300], "lean refUnpack of reference-variant stream vs encoded value")
            if not has_nan_key(x) and "fnan" not in dx_typed:
                ask("refunpack " + hx(stream), on_refvar)

    # ---- malformed streams --------------------------------------------------------------
    mr = rng.fork("malformed")
    n_mal = ctx.scale(700, 7000)
    small = [real_pack(opack, v) for _o, v in values if not contains_big_data(v)]
    small = [b for b in small if isinstance(b, bytes) and len(b) < 2000]
    for i in range(n_mal):
        base = mr.choice(small)
        stream, kind = mutate(mr, base)
        if mr.chance(0.3):
            stream, k2 = mutate(mr, stream)
            kind += "+" + k2
        res = real_unpack(opack, stream)
        if res[0] == "ok" and (has_nan_key(res[1])):
            ctx.note("malformed:skipped-nan-key")
            continue
        if res == ("err", "recursion"):
            continue
        ctx.note("malformed:" + res[0] + (":" + res[1] if res[0] == "err" else ""))
        case = {"malformed": stream.hex(), "kind": kind}
        ctx.case(["malformed", stream.hex()], res[0] == "err")

        def on_mal(ans, case=case, res=res):
            ctx.validated()
            if ans != show_unpack(res):
                ctx.disagree(case, show_unpack(res)[:300], ans[:300], "opack unpack of malformed stream")
        ask("unpack " + hx(stream), on_mal)

    # ---- call histories -------------------------------------------------------------------
    run_histories(ctx, opack, rng.fork("histories"), ask)

    # ---- pointer index classes with a prepared object list ------------------------------
    top = 0x10002
    enc_table = [b"\x33" + i.to_bytes(8, "little") for i in range(top)]
    dec_table = [(enc_table[i], opack._sized_int(i, 8)) for i in range(top)]
    for idx in [0, 1, 0x1F, 0x20, 0x21, 0x22, 0xFE, 0xFF, 0x100, 0x101, 0xFFFE, 0xFFFF, 0x10000, 0x10001]:
        case = {"pointer_index": idx}
        ctx.case(["ptr", idx], True)
        ctx.note("pointer-index-class:%s" % ("1" if idx <= 0x20 else "2" if idx <= 0xFF else "3" if idx <= 0xFFFF else "4"))
        obj = "obj-%d" % idx
        try:
            tbl = enc_table[:idx] + [ref_scalar(obj)]
            pb = opack._pack(obj, tbl)
            grew = len(tbl) - idx - 1
        except Exception as e:
            pb, grew = e, 0
        want_ptr = _ref_class(0xA0, 0x20, PTR_CLASSES, idx)
        if pb != want_ptr:
            ctx.fail("opack:pointer-bytes:index-%#x" % idx, case, pb.hex() if isinstance(pb, bytes) else repr(pb), want_ptr.hex(),
                     "pointer to object index is not encoded as documented")

        def on_ptr(ans, case=case, pb=pb, grew=grew, idx=idx):
            ctx.validated()
            want = "ok %s %d" % (hx(pb), idx + 1 + grew) if isinstance(pb, bytes) else "err"
            if ans != want:
                ctx.disagree(case, want, ans, "opack _pack with prepared object list")
        ask("packwith %s %d %s" % (dump(obj), idx, ref_scalar(obj).hex()), on_ptr)

        stream = want_ptr + b"\x01"
        try:
            v, rest = opack._unpack(stream, list(dec_table[: idx + 1]))
            got = "ok %s %s %d" % (dump(v), hx(bytes(rest)), idx + 1)
            if int(v) != idx or bytes(rest) != b"\x01":
                ctx.fail("opack:pointer-decode:index-%#x" % idx, case, got, "object %d" % idx, "pointer resolved to the wrong object")
        except Exception as e:
            got = "err:" + next((n for c, n in ERR_CLASS if isinstance(e, c)), type(e).__name__)
            ctx.fail("opack:pointer-decode:index-%#x" % idx, case, got, "object %d" % idx, "documented pointer form not decoded")

        def on_unptr(ans, case=case, got=got):
            ctx.validated()
            if ans != got:
                ctx.disagree(case, got, ans, "opack _unpack with prepared object list")
        ask("unpackwith %s %d" % (hx(stream), idx + 1), on_unptr)

    answers = ctx.lean(lines, driver=DRIVER)
    for handler, ans in zip(plan, answers):
        handler(ans)


def replay(ctx, failure):
    """Re-run one recorded oracle failure on the real code."""
    from pyatv.support import opack

    case = failure.get("case", {})
    sig = failure.get("sig", "")
    if "history" in case:
        seq, alone = history_run(opack, case["history"])
        return bool(history_bad(seq, alone))
    if "pointer_index" in case:
        idx = case["pointer_index"]
        obj = "obj-%d" % idx
        tbl = [b"\x33" + i.to_bytes(8, "little") for i in range(idx)] + [ref_scalar(obj)]
        try:
            if opack._pack(obj, tbl) != _ref_class(0xA0, 0x20, PTR_CLASSES, idx):
                return True
            dec = [(tbl[i], i) for i in range(idx + 1)]
            v, rest = opack._unpack(_ref_class(0xA0, 0x20, PTR_CLASSES, idx) + b"\x01", dec)
            return not (v == idx and bytes(rest) == b"\x01")
        except Exception:
            return True
    if "stream" in case:
        res = real_unpack(opack, bytes.fromhex(case["stream"]))
        return res[0] != "ok" or dump(res[1], sizes=False) != case["variant_of"] or res[2] != b""
    if "value" in case:
        x = parse_dump(case["value"], opack)
        packed = real_pack(opack, x)
        if isinstance(packed, Exception):
            return True
        if sig == SIG_DOC_DATA or sig.startswith("opack:bytes-differ"):
            try:
                return ref_pack(x) != packed
            except RefError:
                return True
        if sig.startswith("opack:documented-reader"):
            try:
                rv, rrest = ref_unpack(packed)
                return dump(rv, sizes=False) != dump(x, sizes=False) or bytes(rrest) != b""
            except (RefError, ValueError, TypeError):
                return True
        res = real_unpack(opack, packed)
        return res[0] != "ok" or dump(res[1], sizes=False) != dump(x, sizes=False) or res[2] != b""
    return True


def parse_dump(text, opack):
    toks = text.split(",")
    pos = [0]

    def one():
        t = toks[pos[0]]
        pos[0] += 1
        k, body = t[0], t[1:]
        if k == "n":
            return None
        if k == "T":
            return True
        if k == "F":
            return False
        if k == "i":
            n, size = body.split(":")
            return opack._sized_int(int(n), int(size)) if int(size) else int(n)
        if k == "f":
            return float("nan") if body == "nan" else struct.unpack("<d", struct.pack("<Q", int(body, 16)))[0]
        if k == "s":
            return bytes.fromhex(body).decode("utf-8")
        if k == "b":
            return bytes.fromhex(body)
        if k == "u":
            return uuid_mod.UUID(bytes=bytes.fromhex(body))
        if k == "X":
            return BAD_MAKE[body]()
        if k == "L":
            return [one() for _ in range(int(body))]
        if k == "D":
            d = {}
            for _ in range(int(body)):
                key = one()
                d[key] = one()
            return d
        raise ValueError(t)

    return one()


def _children(v):
    if type(v) is list:
        return list(v)
    if type(v) is dict:
        return list(v.values())
    return []


def _smaller(v):
    """candidate simplifications of a value, most aggressive first"""
    for c in _children(v):
        yield c
    if type(v) is list:
        for i in range(len(v)):
            yield v[:i] + v[i + 1:]
        for i, x in enumerate(v):
            for y in _smaller(x):
                yield v[:i] + [y] + v[i + 1:]
    elif type(v) is dict:
        items = list(v.items())
        for i in range(len(items)):
            yield dict(items[:i] + items[i + 1:])
        for i, (k, x) in enumerate(items):
            for y in _smaller(x):
                yield dict(items[:i] + [(k, y)] + items[i + 1:])
    elif type(v) in (str, bytes) and len(v) > 3 and len(v) not in (0x20, 0x21, 0xFF, 0x100, 0xFFFF, 0x10000):
        yield v[: len(v) // 2]


def shrink(ctx, failure):
    """greedy structural shrinking of a failing value (re-running the real code)"""
    from pyatv.support import opack

    case = failure.get("case", {})
    if "history" in case:
        return shrink_history(ctx, failure, opack)
    if "value" not in case:
        return failure
    x = parse_dump(case["value"], opack)
    budget = 300
    progress = True
    while progress and budget > 0:
        progress = False
        for y in _smaller(x):
            budget -= 1
            if budget <= 0:
                break
            cand = dict(failure, case=dict(case, value=dump(y, nan_bits=True)))
            try:
                still = replay(ctx, cand)
            except Exception:
                still = False
            if still:
                x, failure, case = y, cand, cand["case"]
                progress = True
                break
    return failure


def shrink_history(ctx, failure, opack):
    """drop calls, then simplify the packed values, while some call still depends on the past"""
    ops = [list(op) for op in failure["case"]["history"]]

    def fails(cand):
        try:
            seq, alone = history_run(opack, cand)
            return bool(history_bad(seq, alone))
        except Exception:
            return False

    budget = 200
    progress = True
    while progress and budget > 0:
        progress = False
        for i in range(len(ops)):
            budget -= 1
            cand = ops[:i] + ops[i + 1:]
            if cand and fails(cand):
                ops, progress = cand, True
                break
        if progress:
            continue
        for i, (kind, arg) in enumerate(ops):
            if kind != "pack":
                continue
            for y in _smaller(parse_dump(arg, opack)):
                budget -= 1
                if budget <= 0:
                    break
                cand = ops[:i] + [["pack", dump(y, nan_bits=True)]] + ops[i + 1:]
                if fails(cand):
                    ops, progress = cand, True
                    break
            if progress or budget <= 0:
                break
    seq, alone = history_run(opack, ops)
    bad = history_bad(seq, alone)
    out = dict(failure, case={"history": ops, "call": bad[0] if bad else None})
    if bad:
        out["observed"], out["required"] = seq[bad[0]][:300], alone[bad[0]][:300]
    return out
