"""C13 — correspondence + direct oracle: a feature reported as supported is backed.

Real code driven: FacadeAppleTV + FacadeFeatures (add_mapping / get_feature) connected
(without network, see harness/c01.py) to each of the 31 protocol sets with the real
interface and Features instances every protocol's setup() yields; the five protocols'
own `Features.get_feature`, in the freshly set-up state and in a "rich" state where every
state-dependent condition they consult is true (collaborators replaced by fakes).

Exhaustive in both tiers: 31 sets x {AirPlay advertises video, does not} x 66 feature names.
Oracle (independent of the model and of tools/gen/c01.py): the feature -> member map is
recomputed here from the @feature tags by feature index; Playing-field features stand for
Metadata.playing; PushUpdates for "a push updater is registered"; a feature that is
reported in any state other than Unsupported must have a member for which
`relayer.relay(member)` on the real facade relayer does not raise NotSupportedError.

Model lines: see lean/PyatvModel/C13/Driver.lean.
"""
import asyncio

from harness import c01 as h01

RULE = ("exhaustive over scenarios (harness/c01.py: 31 native sets x AirPlay video flag and x real TXT records, all 180 (set-up "
        "set, failing-connect subset) pairs, 48 MRP-tunnel / unified-RAOP configurations, five real devices as pyatv's own "
        "scanner sees them (Apple TV 4K, Apple TV 3, HomePod, Music via HSCP, AirPort Express) x every set of their protocols "
        "left enabled, Companion's REAL connect callable against a fake device with every request of its connect sequence "
        "rejected in turn, plus seeded random ones) x {no takeover, takeover holders} x 66 feature names read in every public way (get_feature, "
        "all_features() with and without include_unsupported, in_state), on the device object "
        "returned by the real pyatv.connect() and on the model (keyed by the connected set); the same oracle again (a) on "
        "every device right after each other device was set up in the same process (all ordered pairs, seeded order) and "
        "(b) after every step of random well-formed takeover/release histories with refused takeovers; non-trivial = the "
        "facade reports the feature in a state other than Unsupported (the property's hypothesis holds); plus (protocol, "
        "state in {fresh, rich}, feature) for the five get_feature implementations")
ASSUMPTIONS = [
    "SetupData.connect/close are replaced by coroutines answering True/False; interface and Features instances are the real "
    "ones from the real set-up loop of pyatv.connect; the connected set is the set of protocols whose connect answered True",
    "the features interface is read in every public way: get_feature, all_features() with and without include_unsupported, "
    "in_state(every state but Unsupported); each must satisfy 'reported other than Unsupported => implemented'",
    "'the member does not fail merely because nothing implements it' is evaluated as: Relayer.relay(member) returns an "
    "instance attribute instead of raising NotSupportedError, and invoking the member through the device object (recorders "
    "in place of the implementations) with default-style arguments and with every other value of its enum-typed / "
    "optional parameters does not raise NotSupportedError; FacadeStream.play_url's refusal while PlayUrl is not Available "
    "is a different reason and is not judged",
    "a feature tagged on two members (VolumeUp/VolumeDown: RemoteControl and Audio) is backed when one of them is",
    "the rich state is produced by replacing the collaborators the five get_feature implementations read "
    "(player state manager, play status, control flags, power state, playback manager) by fakes with every condition true",
]
TRUSTED = ["fake collaborators of harness/c13.py", "recorders and world construction of harness/c01.py"]


def feature_members(patches):
    """feature index -> [(iface name, member name)] from the @feature tags (harness' own reading)."""
    from pyatv import interface
    from tools.gen.c01 import underlying

    by_name = {}
    for idx, (name, _doc) in interface._ALL_FEATURES.items():
        by_name.setdefault(name, idx)
    out = {}
    for iface, members in patches.members.items():
        base = patches.bases[iface]
        for m in members:
            tag = getattr(underlying(base.__dict__[m]), "_feature_name", None)
            if tag is not None:
                out.setdefault(by_name[tag], []).append((iface, m))
    for value in vars(interface.Playing).values():
        if isinstance(value, property) and hasattr(underlying(value), "_feature_name"):
            out.setdefault(by_name[underlying(value)._feature_name], []).append(("Metadata", "playing"))
    return out


def relay_ok(world, iface, member):
    from pyatv import exceptions

    if (iface, member) == ("PushUpdater", "start"):
        return len(world.relayers["PushUpdater"].instances) >= 1
    try:
        world.relayers[iface].relay(member)
        return True
    except exceptions.NotSupportedError:
        return False
    except Exception:
        return True   # found an instance; evaluating a property on it failed for another reason


def invoke_all(world, todo):
    import warnings

    async def go():
        return [await world._call(i, m, override) for (_f, _s, i, m, _l, override) in todo]

    with warnings.catch_warnings(record=True):
        return world.p.loop.run_until_complete(go())


def json_key(extra):
    import json

    return json.dumps(extra, sort_keys=True, default=str)


def kv(s):
    return dict(e.split("=", 1) for e in s.split(","))


class _Truthy:
    """Fake collaborator: every attribute / call / lookup yields something true-ish."""

    def __getattr__(self, name):
        return _Truthy()

    def __call__(self, *a, **k):
        return _Truthy()

    def __bool__(self):
        return True

    def __contains__(self, item):
        return True

    def __eq__(self, other):
        return True

    def __hash__(self):
        return 0

    def __and__(self, other):
        return True

    __rand__ = __and__


def make_rich(proto, feats):
    """Put the real Features instance of `proto` into a state where every condition it consults is true."""
    if proto == "MRP":
        from pyatv.protocols.mrp import PlaybackState

        class Playing:
            metadata = _Truthy()
            playback_state = PlaybackState.Playing

            def metadata_field(self, _f):
                return 1

            def command_info(self, _c):
                return _Truthy()

        class Psm:
            playing = Playing()
            client = _Truthy()

        class Audio:
            is_available = True
            is_volume_absolute = True

        feats.psm, feats.audio = Psm(), Audio()
    elif proto == "DMAP":
        from pyatv.protocols import dmap

        tags = {path[1] for path in dmap._FIELD_FEATURES.values()}
        # parsed DMAP data: a play status carrying every field, volume controllable
        feats.apple_tv.latest_playstatus = [{"cmst": [{t: 1} for t in sorted(tags)] + [{"cavc": True}]}]
    elif proto == "Companion":
        from pyatv.const import PowerState
        from pyatv.protocols.companion import MediaControlFlags

        flags = MediaControlFlags(0)
        for f in MediaControlFlags:
            flags |= f
        feats._control_flags = flags
        feats._power._power_state = PowerState.On
    elif proto == "RAOP":
        class Meta:
            title = artist = album = "x"
            duration = 1.0

        class Info:
            metadata = Meta()

        class Pm:
            playback_info = Info()
            stream_client = object()

        feats.playback_manager = Pm()
    # AirPlay: the only condition is the video flag of the service (chosen at world construction)


def apply_ops(world, ops):
    """takeover/release history of harness/c01.gen_history on the real device object; yields after every op"""
    closures = []
    for step, op in enumerate(ops):
        if op[0] == "takeover":
            status, closure = world.takeover(op[1], op[2])
            if status == "ok":
                closures.append(closure)
        elif op[1] < len(closures):
            closures[op[1]]()
        yield step


def run(ctx, only=None, before=None, ops=None):
    from pyatv import interface
    from pyatv.const import FeatureName, FeatureState
    from tools.gen.c01 import DEVICE_PROFILES

    loop = asyncio.new_event_loop()
    asyncio.set_event_loop(loop)
    patches = h01.Patches(loop)
    try:
        fmembers = feature_members(patches)
        feats = sorted(FeatureName, key=lambda f: f.value)
        obs = []
        af_obs = []     # what all_features() listed, to be compared with the model's allFeatures

        def evaluate(world, sc, holder, extra=None, tag=""):
            """the C13 oracle + observations for the model, in the state the device object is in now"""
            S, key = world.S, h01.scen_key(sc)
            video = "%d %d" % (1 if world.video else 0, 1 if world.power_known else 0)   # model inputs: device facts
            where = tag and f" [{tag}]"
            base_case = dict({"scenario": sc, "holder": holder}, **(extra or {}))
            reported, backed, amap, todo = {}, {}, {}, []
            # every public way of reading the features interface
            ways = {}
            for way, read in (("all_features()", lambda: world.atv.features.all_features()),
                              ("all_features(include_unsupported=True)", lambda: world.atv.features.all_features(include_unsupported=True))):
                try:
                    got = read()
                    ways[way] = {f.name: (got[f].state.name if f in got else "Unsupported") for f in feats}
                    af_obs.append((dict(base_case, way=way), S, video, 1 if way.endswith("True)") else 0,
                                   {getattr(k, "name", str(k)): v.state.name for k, v in got.items()}))
                    extra_names = [k for k in got if k not in feats]
                    if extra_names or (way.endswith("True)") and len(got) != len(feats)):
                        ctx.disagree(dict(base_case, way=way), sorted(getattr(k, "name", str(k)) for k in got)[:80],
                                     "one entry per feature name", where="all_features keys")
                except Exception as e:
                    ways[way] = {f.name: "err:" + type(e).__name__ for f in feats}
            not_unsupported = [s_ for s_ in FeatureState if s_ != FeatureState.Unsupported]
            ways["in_state(any state but Unsupported)"] = {}
            for f in feats:
                try:
                    ways["in_state(any state but Unsupported)"][f.name] = (
                        "reported" if world.atv.features.in_state(not_unsupported, f) else "Unsupported")
                except Exception as e:
                    ways["in_state(any state but Unsupported)"][f.name] = "err:" + type(e).__name__
            for f in feats:
                try:
                    state = world.atv.features.get_feature(f).state.name
                except Exception as e:
                    state = "err:" + type(e).__name__
                reported[f.name] = state
                members = fmembers.get(f.value, [])
                ok = [m for m in members if relay_ok(world, *m)]
                backed[f.name] = "1" if ok else "0"
                entry = world.atv.features._feature_map.get(f)
                amap[f.name] = entry[0].name if entry else "-"
                nontrivial = state != "Unsupported"
                ctx.case([key, holder, f.name, tag and json_key(extra)], nontrivial,
                         sample={"scenario": key, "connected": S, "holder": holder, "feature": f.name, "state": state,
                                 "answered_by": amap[f.name], "backing_members": ["%s.%s" % m for m in ok], "when": tag or "after connect"}
                         if nontrivial and (world.fail or sc["tunnel"] or holder or tag) else None)
                ctx.note("state:" + state)
                if nontrivial and not ok:
                    ctx.fail(f"{tag or 'connect'}:{key}:{holder or '-'}:{f.name}",
                             dict(base_case, feature=f.name),
                             f"{state}; members {members}: all NotSupportedError",
                             "some member the feature stands for is routed to an implementation",
                             f"connected {'+'.join(S)} ({key}, takeover holder {holder or 'none'}){where} reports {f.name}={state} "
                             f"(answered by {amap[f.name]}) but no connected protocol implements "
                             f"{', '.join('%s.%s' % m for m in members) or '(no member)'}")
                for way, answers in ways.items():
                    told = answers[f.name]
                    ctx.note("read:" + way)
                    if told != "Unsupported" and not told.startswith("err:") and not ok:
                        ctx.fail(f"{tag or 'connect'}:{key}:{holder or '-'}:{f.name}:{way}",
                                 dict(base_case, feature=f.name, way=way),
                                 f"{way} -> {told}; members {members}: all NotSupportedError",
                                 "some member the feature stands for is routed to an implementation",
                                 f"connected {'+'.join(S)} ({key}, takeover holder {holder or 'none'}){where}: features.{way} reports "
                                 f"{f.name}={told} but no connected protocol implements "
                                 f"{', '.join('%s.%s' % m for m in members) or '(no member)'}")
                if nontrivial:
                    for (i, m) in ok:
                        if i in h01.NINE:
                            todo += [(f.name, state, i, m, label, override) for label, override in [("", None)] + world.variants(i, m)]
                if nontrivial and ok and amap[f.name] != "-":
                    i, m = ok[0]
                    try:
                        target = world.relayers[i].relay(m) if (i, m) != ("PushUpdater", "start") else None
                    except Exception:
                        target = None
                    serving = patches.owner.get(id(getattr(target, "__self__", None)))
                    if serving is not None:
                        ctx.note("answering-vs-serving:" + ("same" if serving == amap[f.name] else "different"))
            # the reported features' members, actually invoked through the device object with
            # default-style arguments and every other value of their enum / optional parameters
            gate = None
            for (fname, state, i, m, label, _o), got in zip(todo, invoke_all(world, todo)):
                ctx.note("invoked:" + ("not-supported" if got.startswith("!") else "served"))
                if not got.startswith("!"):
                    continue
                if (i, m) == ("Stream", "play_url"):
                    gate = world.gate_open() if gate is None else gate
                    if not gate:
                        ctx.note("oracle:play_url-gate-closed-not-judged")
                        continue
                call = f"{i}.{m}({label})"
                ctx.fail(f"{tag or 'connect'}:{key}:{holder or '-'}:{fname}:{call}",
                         dict(base_case, feature=fname, call=call),
                         f"{state}; {call} raised NotSupportedError", "the call is routed to an implementation",
                         f"connected {'+'.join(S)} ({key}, takeover holder {holder or 'none'}){where} reports {fname}={state} "
                         f"and a connected protocol implements {i}.{m}, but {call} through the device object "
                         f"fails with NotSupportedError")
            obs.append((sc, S, video, holder, reported, backed, amap))

        # -- several devices in one process, in varying order: each evaluated after the others were set up
        built_before = []
        if only is None:
            devices = [h01.device_scenario(name) for name in DEVICE_PROFILES] + [h01.scenario()]
            pairs = [(a, b) for a in devices for b in devices if a is not b]
            ctx.rng.fork("device-order").shuffle(pairs)
            for a, b in pairs:
                h01.World(patches, a)
                built_before.append(a)
                world = h01.World(patches, b)
                if not world.connect_error and world.S:
                    evaluate(world, b, None, {"before": list(built_before)}, "after-other-devices")
                built_before.append(b)
                ctx.note("devices:set-up-after-another")
        for sc in (before or []):
            h01.World(patches, sc)

        if only is not None:
            scenarios = only
        else:
            scenarios = h01.all_scenarios(patches, ctx.rng.fork("scenarios"), extra=ctx.scale(40, 400))
        for sc in ([] if ops is not None else scenarios):
            world = h01.World(patches, sc)
            if world.connect_error or not world.S:
                ctx.note("scenario:nothing-connected")
                continue
            key = h01.scen_key(sc)
            ctx.note("scenario:" + ("companion-real-connect" if sc.get("companion_device") else "device" if sc.get("profile") else "native" if not (sc["tunnel"] or sc["unified"]) else "tunnel/unified")
                     + ("+failing-connect" if world.fail else ""))
            holders = [None] + (h01.TEXT_ORDER if (ctx.thorough or not world.fail or only is not None) else [h01.TEXT_ORDER[len(key) % 5]])
            for holder in holders:
                release = None
                if holder is not None:
                    status, release = world.takeover(holder, list(h01.FACADE_ATTR.keys()))
                    if status != "ok":
                        ctx.disagree({"scenario": sc, "holder": holder}, status, "ok", where="takeover of all interfaces")
                        continue
                evaluate(world, sc, holder, {"before": before} if before else None, "after-other-devices" if before else "")
                if release:
                    release()

        # -- after well-formed takeover/release histories with refused takeovers (harness/c01.gen_history)
        if ops is not None:
            hist = [(only[0], ops)]
        elif only is None:
            rng = ctx.rng.fork("histories")
            pool = scenarios
            hist = []
            for k in range(ctx.scale(30, 150)):
                sc = pool[30] if k % 3 == 0 else rng.choice(pool)
                hist.append((sc, h01.gen_history(rng.fork(k), rng.randint(3, ctx.scale(10, 30)))))
        else:
            hist = []
        for sc, hops in hist:
            world = h01.World(patches, sc)
            if world.connect_error or not world.S:
                continue
            refused = 0
            for step in apply_ops(world, hops):
                evaluate(world, sc, None, {"ops": hops[: step + 1]}, "after-history")
            ctx.note("history:ops", len(hops))
            ctx.note("histories")

        qs = sorted({q for (_sc, S, video, _h, _r, _b, _a) in obs
                     for q in (f"features {h01.set_bits(S)} {video}", f"backed {h01.set_bits(S)}", f"map {h01.set_bits(S)}")})
        # the five get_feature implementations, fresh and rich
        proto_lines, proto_obs = [], []
        if only is None:
            for video in (True, False):
                for rich in (False, True):
                    world = h01.World(patches, h01.scenario(video=video))
                    for proto in h01.TEXT_ORDER:
                        inst = world.features_instance(proto)
                        if rich:
                            try:
                                make_rich(proto, inst)
                            except Exception as e:
                                ctx.disagree({"proto": proto}, "could not build rich state: %r" % e, "n/a", where="rich state")
                                continue
                        got = {}
                        for f in feats:
                            try:
                                got[f.name] = inst.get_feature(f).state.name
                            except Exception as e:
                                got[f.name] = "err:" + type(e).__name__
                        c0 = (1 if video else 0) if proto == "AirPlay" else (1 if rich else 0)
                        c1 = 1 if rich else 0
                        proto_lines.append(f"proto {proto} {c0} {c1}")
                        proto_obs.append((proto, video, rich, got))
                        ctx.note("get_feature:%s:%s" % (proto, "rich" if rich else "fresh"))
        aqs = sorted({f"allfeatures {h01.set_bits(S)} {video} {b}" for (_c, S, video, b, _l) in af_obs})
        answers = ctx.lean(qs + aqs + proto_lines + ["failing"])
        model_of = dict(zip(qs + aqs, answers))
        for (case, S, video, b, listed) in af_obs:
            model = kv(model_of[f"allfeatures {h01.set_bits(S)} {video} {b}"]) if model_of[f"allfeatures {h01.set_bits(S)} {video} {b}"] != "-" else {}
            if model != listed:
                diff = {n: (listed.get(n), model.get(n)) for n in set(listed) | set(model) if listed.get(n) != model.get(n)}
                ctx.disagree(case, {n: v[0] for n, v in diff.items()}, {n: v[1] for n, v in diff.items()}, where="all_features entries")
            ctx.validated(len(listed))
        for (sc, S, video, holder, reported, backed, amap) in obs:
            case = {"scenario": sc, "holder": holder}
            for what, impl, q in (("features", reported, f"features {h01.set_bits(S)} {video}"),
                                  ("backed", backed, f"backed {h01.set_bits(S)}"), ("map", amap, f"map {h01.set_bits(S)}")):
                model = kv(model_of[q])
                if model != impl:
                    diff = {n: (impl.get(n), model.get(n)) for n in impl if impl.get(n) != model.get(n)}
                    ctx.disagree(case, {n: v[0] for n, v in diff.items()}, {n: v[1] for n, v in diff.items()}, where=what)
                ctx.validated(len(impl))
        for (proto, video, rich, got), ans in zip(proto_obs, answers[len(qs) + len(aqs):]):
            model = kv(ans)
            if model != got:
                diff = {n: (got.get(n), model.get(n)) for n in got if got.get(n) != model.get(n)}
                ctx.disagree({"proto": proto, "video": video, "rich": rich}, {n: v[0] for n, v in diff.items()},
                             {n: v[1] for n, v in diff.items()}, where="protocol get_feature")
            ctx.validated(len(got))
        # rows the model's table check rejects must have been found by the oracle above as well
        failing = answers[-1]
        if failing != "-" and only is None:
            for row in failing.split(","):
                bits, fname = row.split(":")
                hit = any(h01.set_bits(S2) == bits and reported.get(fname) != "Unsupported" and backed.get(fname) == "0"
                          for (_sc, S2, _v, _h, reported, backed, _a) in obs)
                if not hit:
                    ctx.note("model-failing-row-not-reproduced")
                    ctx.notes.setdefault("model_failing_rows_not_reproduced_in_fresh_state", []).append(row)
        if only is None:
            ctx.exhaustive = True
    finally:
        patches.restore()
        asyncio.set_event_loop(None)
        loop.close()


def replay(ctx, failure):
    case = failure["case"]
    c2 = type(ctx)(ctx.prop, ctx.tier, ctx.seed, ctx.driver.driver_rel)
    run(c2, only=[case["scenario"]], before=case.get("before"), ops=case.get("ops"))
    return any(f["sig"] == failure["sig"] for f in c2.failures)


def shrink(ctx, failure):
    """a device that fails after others were set up: find one earlier device that is enough"""
    case = failure["case"]
    if not case.get("before"):
        return failure
    for sc in [None] + case["before"]:
        c2 = type(ctx)(ctx.prop, ctx.tier, ctx.seed, ctx.driver.driver_rel)
        run(c2, only=[case["scenario"]], before=[sc] if sc else [])
        hit = [f for f in c2.failures if f["sig"] == failure["sig"]]
        if hit:
            return hit[0]
    return failure


GEN_MODULES = ["c01"]
