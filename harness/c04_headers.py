"""C04 / fixed binary headers (`defpacket`) — correspondence + direct oracle.

Real code driven: every packet class built with pyatv.support.packet.defpacket
(pyatv.protocols.raop.packets: RtpHeader, TimingPacket, SyncPacket, AudioPacketHeader,
RetransmitReqeust; pyatv.protocols.airplay.channels.DataHeader) — `.encode`, `.decode`,
`.decode(..., allow_excessive=True)`, `.length`.  The classes are discovered the same way the
tie-A generator finds them (tools/gen/c04_headers.py), the layouts the Lean model uses are the
regenerated ones.
Model lines (Driver/C04Headers.lean): `len N` | `enc N v…` | `dec N hex` | `decx N hex`.

Case kinds
  enc      in-range field tuple (per-field boundaries 0/1/2^(8w-1)/2^(8w)-1, random; byte-string
           fields of exactly their size): bytes, decode of them, round trip, length, reference
  decx     encode(x) + trailing bytes decoded with allow_excessive=True
  buf      an arbitrary buffer of exactly `.length` bytes: decode, and encode(decode(b)) == b
  range    one integer field out of range (2^(8w), -1, 2^(8w)+random) -> struct.error on both sides
  pad      a byte-string field shorter / longer than its size (struct pads / truncates; model only)
  bad      wrong buffer length (short, long without allow_excessive) / wrong argument count
Reference layouts (REF) are written from the format descriptions, not from the code: the
data-stream header from docs/documentation/protocols.md ("Message format": 4+12+4+8+4 bytes,
big-endian, worked examples included below), the 12-byte RTP header from RFC 3550, and the
AirTunes-2 timing (32 bytes), sync (20) and retransmit-request (8) packets; all integers in
network byte order.
"""

PROPS_FILES = ["PyatvModel/Props/C04Headers.lean"]
LEAN_TARGETS = ["PyatvModel.Props.C04Headers", "PyatvModel.C04.Headers.Driver"]
DRIVER = "Driver/C04Headers.lean"
RULE = ("for each of the generated defpacket classes: field tuples with every field at 0, 1, 2^(8w-1), 2^(8w)-1 or "
        "random, byte-string fields of exact size; trailing bytes with allow_excessive; random buffers of the exact "
        "length; one field out of range; short/long byte-string fields; wrong buffer lengths and argument counts. "
        "non-trivial = some field at its maximum or top bit, or any non-enc kind; distinct = (class, kind, values)")
ASSUMPTIONS = ["headers: CPython struct semantics for '>' formats (standard sizes, no alignment) are modelled, not verified"]
TRUSTED = ["harness/c04_headers.py reference layouts (protocols.md data-channel header, RFC 3550 RTP header, AirTunes timing/sync/retransmit packets)"]

# widths in bytes; ("s", n) = byte string of n bytes.  Keyed by the module attribute name.
REF = {
    "RtpHeader": [1, 1, 2],
    "AudioPacketHeader": [1, 1, 2, 4, 4],
    "TimingPacket": [1, 1, 2, 4, 4, 4, 4, 4, 4, 4],
    "SyncPacket": [1, 1, 2, 4, 4, 4, 4],
    "RetransmitReqeust": [1, 1, 2, 2, 2],
    "DataHeader": [4, ("s", 12), ("s", 4), 8, 4],
}
# worked examples of protocols.md (header part): (fields, hex)
DOC_VECTORS = [
    ("DataHeader", [32, b"sync" + 8 * b"\0", b"cmnd", 0xCF4934469B4941AE, 0],
     "0000002073796e630000000000000000636d6e64cf4934469b4941ae00000000"),
    ("DataHeader", [32, b"rply" + 8 * b"\0", 4 * b"\0", 0xCF4934469B4941AE, 0],
     "0000002072706c79000000000000000000000000cf4934469b4941ae00000000"),
    ("DataHeader", [157, b"sync" + 8 * b"\0", b"comm", 0x000000016155C3E0, 0],
     "0000009d73796e630000000000000000636f6d6d000000016155c3e000000000"),
]


def _hex(b):
    return bytes(b).hex() if b else "-"


def _obs(fn, *a, **k):
    try:
        return ("ok", fn(*a, **k))
    except Exception as e:
        return ("err", type(e).__name__)


def _classes():
    from tools.gen.c04_headers import find_packets, parse_fmt

    out = {}
    for _mod, attr, obj, fmt, fnames in find_packets():
        _order, fields = parse_fmt(fmt)
        widths = []
        for code, n in fields:
            widths.append(("s", n) if code == "s" else {"B": 1, "H": 2, "I": 4, "Q": 8}.get(code))
        out[attr] = (obj, widths, fnames)
    return out


def ref_enc(name, vals):
    """bytes per the documented layout, or None when the values do not fit it at all"""
    if len(vals) != len(REF[name]):
        return None
    out = b""
    for w, v in zip(REF[name], vals):
        try:
            out += bytes(v) if isinstance(w, tuple) else v.to_bytes(w, "big")
        except (OverflowError, TypeError, AttributeError):
            return None
    return out


def _wire(vals):
    return " ".join(("x" + v.hex()) if isinstance(v, (bytes, bytearray)) else str(v) for v in vals)


def _jvals(vals):
    return [("x" + v.hex()) if isinstance(v, (bytes, bytearray)) else v for v in vals]


def _unj(jv):
    return [bytes.fromhex(v[1:]) if isinstance(v, str) else v for v in jv]


def _rand_val(rng, w):
    if isinstance(w, tuple):
        n = w[1]
        return rng.choice([b"\0" * n, b"\xff" * n, (b"sync" + b"\0" * n)[:n], (b"comm" * n)[:n], rng.bytes_(n), rng.bytes_(n)])
    top = 256 ** w
    return rng.choice([0, 1, top // 2, top // 2 - 1, top - 1, top - 2, rng.randrange(top), rng.randrange(top), rng.randrange(256)])


def gen_cases(ctx, classes):
    rng = ctx.rng.fork("headers")
    cases = []
    for name, fields, hx in DOC_VECTORS:
        if name in classes:
            cases.append({"kind": "enc", "cls": name, "vals": _jvals(fields), "doc": hx})
    for name in sorted(classes):
        _obj, widths, _fn = classes[name]
        if any(w is None for w in widths):
            cases.append({"kind": "unmodelled", "cls": name})
            continue
        total = sum(w[1] if isinstance(w, tuple) else w for w in widths)
        # every field at every boundary, others random
        for i, w in enumerate(widths):
            if isinstance(w, tuple):
                continue
            for b in (0, 1, 256 ** w // 2, 256 ** w - 1):
                vals = [_rand_val(rng, x) for x in widths]
                vals[i] = b
                cases.append({"kind": "enc", "cls": name, "vals": _jvals(vals)})
            for bad in (256 ** w, -1, 256 ** w + rng.randrange(1000), -rng.randrange(1, 300)):
                vals = [_rand_val(rng, x) for x in widths]
                vals[i] = bad
                cases.append({"kind": "range", "cls": name, "vals": _jvals(vals)})
        for i, w in enumerate(widths):
            if isinstance(w, tuple):
                for ln in (0, 1, w[1] - 1, w[1] + 1, w[1] + 5):
                    vals = [_rand_val(rng, x) for x in widths]
                    vals[i] = rng.bytes_(ln)
                    cases.append({"kind": "pad", "cls": name, "vals": _jvals(vals)})
        for _ in range(ctx.scale(120, 1500)):
            cases.append({"kind": "enc", "cls": name, "vals": _jvals([_rand_val(rng, x) for x in widths])})
        for _ in range(ctx.scale(15, 500)):
            cases.append({"kind": "decx", "cls": name, "vals": _jvals([_rand_val(rng, x) for x in widths]),
                          "extra": rng.bytes_(rng.choice([0, 1, 7, 40])).hex()})
        for _ in range(ctx.scale(50, 800)):
            cases.append({"kind": "buf", "cls": name, "data": rng.bytes_(total).hex()})
        for ln in sorted({0, 1, total - 1, total + 1, total + 9, max(0, total - rng.randint(1, total))}):
            cases.append({"kind": "bad", "cls": name, "data": rng.bytes_(ln).hex(), "excess": False})
            cases.append({"kind": "bad", "cls": name, "data": rng.bytes_(ln).hex(), "excess": True})
        vals = [_rand_val(rng, x) for x in widths]
        cases.append({"kind": "bad", "cls": name, "vals": _jvals(vals[:-1])})
        cases.append({"kind": "bad", "cls": name, "vals": _jvals(vals + [0])})
    return cases


def _typed(t):
    """typed canonical form of a decoded namedtuple: list of ints / bytes, else a complaint"""
    out = []
    for v in tuple(t):
        if type(v) is int or type(v) is bytes:
            out.append(v)
        else:
            return "bad-type:" + type(v).__name__
    return out


def oracle(case, classes=None):
    classes = classes or _classes()
    if case["cls"] not in classes:
        return [("headers:class-missing", case["cls"], "class present", "packet class no longer defined")]
    obj, widths, fnames = classes[case["cls"]]
    name = case["cls"]
    out = []
    if case["kind"] in ("enc", "decx"):
        vals = _unj(case["vals"])
        enc = _obs(obj.encode, *vals)
        if enc[0] != "ok" or type(enc[1]) is not bytes:
            return [(f"headers:{name}:encode-raises", repr(enc), "bytes", "encode rejected an in-range field tuple")]
        data = enc[1]
        total = sum(w[1] if isinstance(w, tuple) else w for w in widths)
        if len(data) != total or obj.length != total:
            out.append((f"headers:{name}:length", f"{len(data)} / .length={obj.length}", str(total), "encoded size is not the sum of the field widths"))
        if case["kind"] == "enc":
            dec = _obs(obj.decode, data)
        else:
            dec = _obs(obj.decode, data + bytes.fromhex(case["extra"]), allow_excessive=True)
        got = _typed(dec[1]) if dec[0] == "ok" else "err:" + dec[1]
        if got != vals or (dec[0] == "ok" and list(getattr(dec[1], "_fields", fnames)) != list(fnames)):
            out.append((f"headers:{name}:roundtrip", repr(got), repr(vals), "decode(encode(*fields)) != fields"))
        if name in REF and data != ref_enc(name, vals):
            out.append((f"headers:{name}:ref-encode", data.hex(), (ref_enc(name, vals) or b"").hex() or "does not fit the documented field widths",
                        "bytes differ from the documented layout (network byte order)"))
        if case.get("doc") and data.hex() != case["doc"]:
            out.append((f"headers:{name}:doc-vector", data.hex(), case["doc"], "bytes differ from the worked example in protocols.md"))
    elif case["kind"] == "buf":
        data = bytes.fromhex(case["data"])
        dec = _obs(obj.decode, data)
        if dec[0] != "ok":
            return [(f"headers:{name}:decode-raises", repr(dec), "fields", "decode rejected a buffer of exactly .length bytes")]
        back = _obs(obj.encode, *tuple(dec[1]))
        if back != ("ok", data):
            out.append((f"headers:{name}:reencode", repr(back), data.hex(), "encode(*decode(buf)) != buf"))
        if name in REF and isinstance(_typed(dec[1]), list) and ref_enc(name, _typed(dec[1])) != data:
            out.append((f"headers:{name}:ref-decode", repr(_typed(dec[1])), data.hex(), "decoded fields differ from the documented layout"))
    return out


def run(ctx, only=None):
    try:
        classes = _classes()
    except Exception as e:  # changed code the layout reader cannot interpret: report, do not crash
        ctx.disagree({"step": "discover defpacket classes"}, f"{type(e).__name__}: {e}"[:300], "layouts readable", where="headers layout discovery")
        return
    cases = only if only is not None else gen_cases(ctx, classes)
    lines, plan = [], []
    for name in sorted(classes):
        lines.append(f"len {name}")
    for c in cases:
        if c["kind"] == "unmodelled":
            plan.append((c, 0))
            continue
        obj = classes[c["cls"]][0]
        n = 0
        if "vals" in c:
            vals = _unj(c["vals"])
            lines.append(f"enc {c['cls']} {_wire(vals)}".rstrip())
            n += 1
            enc = _obs(obj.encode, *vals)
            c["_enc"] = enc
            if enc[0] == "ok" and isinstance(enc[1], bytes):
                if c["kind"] == "decx":
                    lines.append(f"decx {c['cls']} {_hex(enc[1] + bytes.fromhex(c['extra']))}")
                else:
                    lines.append(f"dec {c['cls']} {_hex(enc[1])}")
                n += 1
        else:
            op = "decx" if c.get("excess") else "dec"
            lines.append(f"{op} {c['cls']} {_hex(bytes.fromhex(c['data']))}")
            n += 1
        plan.append((c, n))
    answers = iter(ctx.lean(lines, driver=DRIVER))
    for name in sorted(classes):
        a = next(answers)
        if a != str(classes[name][0].length):
            ctx.disagree({"cls": name}, str(classes[name][0].length), a, where="headers .length vs model width")
        ctx.validated()

    def show(dec):
        if dec[0] != "ok":
            return "err:" + dec[1]
        t = _typed(dec[1])
        return ("ok " + _wire(t)).rstrip() if isinstance(t, list) else "err:" + t

    for c, n in plan:
        kind, name = c["kind"], c["cls"]
        ctx.note(f"headers:kind:{kind}")
        ctx.note(f"headers:cls:{name}")
        if kind == "unmodelled":
            ctx.disagree(c, "format character outside B/H/I/Q/s", "not modelled", where="headers layout")
            continue
        obj = classes[name][0]
        enc = c.pop("_enc", None)
        if enc is not None:
            m = next(answers)
            impl = _hex(enc[1]) if enc[0] == "ok" and isinstance(enc[1], bytes) else "err:" + str(enc[1])
            if impl != m:
                ctx.disagree(c, impl, m, where=f"headers {name}.encode")
            ctx.validated()
            if n == 2:
                m = next(answers)
                if kind == "decx":
                    dec = _obs(obj.decode, enc[1] + bytes.fromhex(c["extra"]), allow_excessive=True)
                else:
                    dec = _obs(obj.decode, enc[1])
                if show(dec) != m:
                    ctx.disagree(c, show(dec), m, where=f"headers {name}.decode")
                ctx.validated()
        else:
            m = next(answers)
            dec = _obs(obj.decode, bytes.fromhex(c["data"]), **({"allow_excessive": True} if c.get("excess") else {}))
            if show(dec) != m:
                ctx.disagree(c, show(dec), m, where=f"headers {name}.decode")
            ctx.validated()
        nontrivial = kind != "enc" or any(
            isinstance(v, int) and v >= 128 and (v + 1) & v == 0 or isinstance(v, int) and v > 0 and v & (v - 1) == 0 and v >= 128
            for v in c["vals"])
        ctx.case([kind, name, c.get("vals"), c.get("data"), c.get("extra"), c.get("excess")], nontrivial, sample=c)
        for sig, observed, required, what in oracle(c, classes):
            ctx.fail(sig, c, observed, required, what)
    if only is None and "TimingPacket" in classes:
        run_timing(ctx)


# ---- whole-message use of a fixed header: the RAOP timing responder -------------------------
def _timing_run(case):
    """Drive the real TimingServer.datagram_received with a recording transport and a fixed clock.
    -> list of (bytes, addr) sent, or ("err", class)"""
    from pyatv.protocols.raop import protocols as raop_protocols, timing

    sent = []

    class Transport:
        def sendto(self, data, addr=None):
            sent.append((bytes(data), addr))

    srv = raop_protocols.TimingServer()
    srv.connection_made(Transport())
    orig = timing.ntp_now
    # fix the clock wherever the name is reachable (module attribute, or imported by name into the
    # protocol module); if neither takes effect the reply is judged against the wall clock instead
    imported = getattr(raop_protocols, "ntp_now", None)
    timing.ntp_now = lambda: case["now"]
    if imported is not None:
        raop_protocols.ntp_now = timing.ntp_now
    _timing_run.bracket = [orig(), None]
    try:
        srv.datagram_received(bytes.fromhex(case["data"]), ("10.0.0.9", 6002))
    except Exception as e:
        return ("err", type(e).__name__)
    finally:
        timing.ntp_now = orig
        if imported is not None:
            raop_protocols.ntp_now = imported
        _timing_run.bracket[1] = orig()
    return ("ok", sent)


def _clock_ok(case, resp):
    """receive/send time of the reply: the fixed clock, or (when the clock could not be fixed in
    this code shape) a wall-clock reading taken during the call"""
    now = [case["now"] >> 32, case["now"] & 0xFFFFFFFF]
    if resp[6:8] == now and resp[8:10] == now:
        return True
    lo, hi = _timing_run.bracket
    recv, send = resp[6] << 32 | resp[7], resp[8] << 32 | resp[9]
    return hi is not None and lo <= recv <= send <= hi


def _ref_fields(name, data):
    out, pos = [], 0
    for w in REF[name]:
        out.append(int.from_bytes(data[pos:pos + w], "big"))
        pos += w
    return out


def oracle_timing(case):
    req = _ref_fields("TimingPacket", bytes.fromhex(case["data"]))
    r = _timing_run(case)
    if r[0] != "ok" or len(r[1]) != 1 or r[1][0][1] != ("10.0.0.9", 6002) or len(r[1][0][0]) != 32:
        return [("headers:timing:no-reply", repr(r)[:200], "one 32-byte timing reply to the sender",
                 "a well-formed timing request was not answered with a timing packet")]
    resp = _ref_fields("TimingPacket", r[1][0][0])
    want = {"proto": req[0], "reftime": req[8:10], "clock": True}
    got = {"proto": resp[0], "reftime": resp[4:6], "clock": _clock_ok(case, resp)}
    if got != want:
        return [("headers:timing:reply-fields", repr(got), repr(want),
                 "the timing reply must carry the request's send time as reference time and the clock as receive/send time "
                 "(fields read and written per the 32-byte timing packet layout)")]
    return []


def run_timing(ctx, only=None):
    rng = ctx.rng.fork("headers-timing")
    cases = only
    if cases is None:
        cases = []
        for _ in range(ctx.scale(60, 1500)):
            vals = [rng.choice([0x80, 0x90, rng.randrange(256)]), rng.choice([0xD2, 0x52, rng.randrange(256)]), rng.choice([7, 0, 65535, rng.randrange(65536)]), 0]
            vals += [rng.choice([0, 1, 2 ** 31, 2 ** 32 - 1, rng.getrandbits(32)]) for _ in range(6)]
            now = rng.choice([rng.getrandbits(64), (0x83AA7E80 + rng.getrandbits(30)) << 32 | rng.getrandbits(32), 2 ** 64 - 1, 2 ** 32])
            cases.append({"kind": "timing", "cls": "TimingPacket", "data": ref_enc("TimingPacket", vals).hex(), "now": now})
    lines, runs = [], []
    for c in cases:
        req = _ref_fields("TimingPacket", bytes.fromhex(c["data"]))
        r = _timing_run(c)
        runs.append(r)
        times = [c["now"] >> 32, c["now"] & 0xFFFFFFFF] * 2
        if r[0] == "ok" and len(r[1]) == 1 and len(r[1][0][0]) == 32:
            resp = _ref_fields("TimingPacket", r[1][0][0])
            if _clock_ok(c, resp):
                times = resp[6:10]          # the clock readings the real code took
        lines.append("dec TimingPacket " + c["data"])
        lines.append("enc TimingPacket " + _wire([req[0], 0x53 | 0x80, 7, 0, req[8], req[9]] + times))
    answers = iter(ctx.lean(lines, driver=DRIVER))
    for c, r in zip(cases, runs):
        m_req, m_resp = next(answers), next(answers)
        req = _ref_fields("TimingPacket", bytes.fromhex(c["data"]))
        if m_req != ("ok " + _wire(req)):
            ctx.disagree(c, "ok " + _wire(req), m_req, where="headers timing request (reference decode vs model)")
        impl = _hex(r[1][0][0]) if r[0] == "ok" and len(r[1]) == 1 else "err:" + repr(r)[:80]
        if impl != m_resp:
            ctx.disagree(c, impl, m_resp, where="headers TimingServer reply")
        ctx.validated(2)
        ctx.note("headers:kind:timing")
        ctx.case(["timing", c["data"], c["now"]], True, sample=c)
        for sig, observed, required, what in oracle_timing(c):
            ctx.fail(sig, c, observed, required, what)


def replay(ctx, failure):
    case = {k: v for k, v in failure["case"].items() if not k.startswith("_")}
    if case.get("kind") == "timing":
        return bool(oracle_timing(case))
    return bool(oracle(case))
