"""C01 — correspondence + direct oracle for relayer routing and facade takeover.

Real code driven: pyatv.core.facade.FacadeAppleTV (its eleven Facade* relayers, connect(),
takeover() and the release closures) with the REAL interface instances every protocol's
setup() yields.  No connection is made: SetupData.connect is replaced, and every member a
protocol class overrides is replaced *on that class* by a recorder (it stays "overridden"
for Relayer._find_instance) which logs which protocol's instance was called.

Part 1 (exhaustive, both tiers): 31 protocol sets x {no takeover, takeover by each of the
5 protocols} x every public member of the nine interfaces, invoked through the facade
(`await atv.remote_control.up()`, properties included); plus the 16 sets containing AirPlay
once more with an AirPlay service that does not advertise video (play_url gate closed).
Part 2: random well-formed takeover/release histories on the real facade; after every
operation the holders and the complete routing table are compared with the model.

Model lines: see lean/PyatvModel/C01/Driver.lean.
Oracle: the winner computed here from the priority order written in the property text and
from an override test of its own (defined along the MRO by a class other than the interface
base AND not a byte-for-byte copy of the base's default body).
"""
import asyncio
import inspect
import warnings

RULE = ("part 1 exhaustive: (protocol set, takeover holder, AirPlay-video flag, member); non-trivial = the call "
        "is not served by the first connected protocol of the plain priority list (a holder wins or is skipped, "
        "a higher-priority protocol merely inherits the default, Companion-first for power, or nobody implements "
        "it). part 2: random histories of takeover/release on the real facade, >=30% of the takeovers failing by "
        "construction (interface already held or listed twice); non-trivial = history with at least one failing "
        "takeover and one release; distinct = (set, op list)")
ASSUMPTIONS = [
    "SetupData.connect/close are replaced by no-ops; interface instances are the real ones from setup(), never connected",
    "overriding members are replaced on the protocol classes by recorders for the duration of the run (restored afterwards)",
    "FacadeStream.play_url refuses with NotSupportedError while the PlayUrl feature is not Available (feature gate, "
    "facade.py:356): when the gate is closed the call is compared with the model only, the oracle does not judge it",
    "calling a release closure a second time is outside the property (histories are well-formed)",
]
TRUSTED = ["recorders, argument synthesis and the fake session manager of harness/c01.py / tools/gen/c01.py"]

# --- the property text, hard-coded (never read from the code) ----------------------------
TEXT_ORDER = ["MRP", "DMAP", "Companion", "AirPlay", "RAOP"]
POWER_ORDER = ["Companion", "MRP", "DMAP", "AirPlay", "RAOP"]
NINE = ["RemoteControl", "Metadata", "Power", "Audio", "Apps", "UserAccounts", "Keyboard", "TouchGestures", "Stream"]
FACADE_ATTR = {"RemoteControl": "remote_control", "Metadata": "metadata", "Power": "power", "Audio": "audio",
               "Apps": "apps", "UserAccounts": "user_accounts", "Keyboard": "keyboard", "TouchGestures": "touch",
               "Stream": "stream", "PushUpdater": "push_updater", "Features": "features"}


def subsets():
    out = []
    for bits in range(1, 32):
        out.append([p for i, p in enumerate(TEXT_ORDER) if bits & (1 << (4 - i))])
    return out


def set_bits(S):
    return "".join("1" if p in S else "0" for p in TEXT_ORDER)


# --- recorders ----------------------------------------------------------------------------
class Patches:
    """Replace every overriding public member on the protocol classes by a recorder."""

    def __init__(self, loop):
        from pyatv import interface
        from tools.gen.c01 import build_world, defining_class, public_members, underlying

        self.loop = loop
        self.log = []
        self.owner = {}          # id(instance) -> protocol name (current world)
        self.saved = []
        self.oracle_impl = {}    # (proto, iface, member) -> bool   (oracle's own criterion)
        self.members = {}        # iface name -> [member names]
        self.bases = {}
        _atv, setups, _order = build_world(loop)
        self.iface_classes = list(_atv._interfaces.keys())
        for base in self.iface_classes:
            self.bases[base.__name__] = base
            if base is interface.Features:
                continue
            self.members[base.__name__] = public_members(base)
        for proto, sd in setups.items():
            for base, inst in sd.interfaces.items():
                if base is interface.Features or base.__name__ not in self.members:
                    continue
                cls = type(inst)
                for name in self.members[base.__name__]:
                    d = defining_class(cls, name)
                    overridden = d is not None and d is not base
                    genuine = overridden and not self._same_body(d.__dict__[name], base.__dict__[name], underlying)
                    self.oracle_impl[(proto.name, base.__name__, name)] = genuine
                    if overridden:
                        self._patch(cls, base, name, underlying)

    @staticmethod
    def _same_body(mine, default, underlying):
        a, b = getattr(underlying(mine), "__code__", None), getattr(underlying(default), "__code__", None)
        if a is None or b is None:
            return False
        return a.co_code == b.co_code and a.co_names == b.co_names   # docstrings live in co_consts: ignored

    def _patch(self, cls, base, name, underlying):
        if any(c is cls and n == name for c, n, _h, _o in self.saved):
            return
        original = inspect.getattr_static(cls, name)
        had_own = name in cls.__dict__
        log, owner, iface = self.log, self.owner, base.__name__
        ret = 10.0 if name == "volume" else None

        def note(self_):
            log.append((owner.get(id(self_), "?unregistered"), iface, name))
            return ret

        if isinstance(original, property):
            rec = property(note)
        elif inspect.iscoroutinefunction(underlying(original)):
            async def rec(self_, *a, **k):
                return note(self_)
        else:
            def rec(self_, *a, **k):
                return note(self_)
        self.saved.append((cls, name, had_own, cls.__dict__.get(name)))
        setattr(cls, name, rec)

    def restore(self):
        for cls, name, had_own, original in reversed(self.saved):
            if had_own:
                setattr(cls, name, original)
            else:
                delattr(cls, name)
        self.saved = []


async def _connected():
    return True


class World:
    """A real FacadeAppleTV connected (without network) to the protocols in `S`."""

    def __init__(self, patches, S, video=True):
        from pyatv.const import Protocol
        from tools.gen.c01 import AIRPLAY_NO_VIDEO_FEATURES, AIRPLAY_VIDEO_FEATURES, build_world

        self.p = patches
        self.S = list(S)
        self.video = video
        self.atv, setups, order = build_world(patches.loop, AIRPLAY_VIDEO_FEATURES if video else AIRPLAY_NO_VIDEO_FEATURES)
        self.setups = setups
        patches.owner.clear()
        for proto in order:
            if proto.name not in S:
                continue
            sd = setups[proto]
            for inst in sd.interfaces.values():
                patches.owner[id(inst)] = proto.name
            self.atv.add_protocol(sd._replace(connect=_connected, close=lambda: set()))
        patches.loop.run_until_complete(self.atv.connect())
        self.Protocol = Protocol
        self.relayers = {b.__name__: self.atv._interfaces[b] for b in patches.iface_classes}

    # -- observation -------------------------------------------------------------------
    def _args(self, iface, name):
        import enum

        fn = self.p.bases[iface].__dict__[name]
        args = []
        for prm in list(inspect.signature(fn).parameters.values())[1:]:
            if prm.kind in (prm.VAR_POSITIONAL, prm.VAR_KEYWORD) or prm.default is not prm.empty:
                continue
            ann = prm.annotation
            if isinstance(ann, type) and issubclass(ann, enum.Enum):
                args.append(list(ann)[0])
            elif ann is float:
                args.append(10.0)
            elif ann is str or not isinstance(ann, type):
                args.append("x")
            else:
                args.append(1)
        return args

    async def _call(self, iface, name):
        from pyatv import exceptions

        log = self.p.log
        del log[:]
        try:
            fo = getattr(self.atv, FACADE_ATTR[iface])
            static = inspect.getattr_static(type(fo), name)
            if isinstance(static, property):
                getattr(fo, name)
            else:
                res = getattr(fo, name)(*self._args(iface, name))
                if inspect.isawaitable(res):
                    await res
        except exceptions.NotSupportedError:
            return "!" if not log else "!after:" + "+".join(r[0] for r in log)
        except Exception as e:  # observation, not a crash
            return "err:" + type(e).__name__
        if not log:
            return "dropped"
        if len(log) > 1 or log[0][1:] != (iface, name):
            return "multi:" + "+".join("%s/%s.%s" % r for r in log)
        return log[0][0]

    async def _table(self):
        out = {}
        for iface in NINE:
            for name in self.p.members[iface]:
                out[f"{iface}.{name}"] = await self._call(iface, name)
        return out

    def table(self):
        with warnings.catch_warnings(record=True):   # pyatv.support.deprecated re-enables the filter itself
            return self.p.loop.run_until_complete(self._table())

    def gate_open(self):
        from pyatv.const import FeatureName, FeatureState

        try:
            return self.atv.features.in_state(FeatureState.Available, FeatureName.PlayUrl)
        except Exception:
            return False

    def holders(self):
        out = {}
        for name, rel in self.relayers.items():
            t = list(rel._takeover_protocol)
            if t:
                out[name] = "+".join(p.name for p in t)
        return out

    def takeover(self, proto, ifaces):
        """ifaces: interface names or '?' (an object that is no interface)"""
        from pyatv import exceptions

        objs = [self.p.bases[i] if i != "?" else object() for i in ifaces]
        try:
            return "ok", self.atv.takeover(self.Protocol[proto], *objs)
        except exceptions.InvalidStateError:
            return "invalid", None
        except Exception as e:
            return "err:" + type(e).__name__, None


# --- the oracle ---------------------------------------------------------------------------
def expected(patches, S, holder, iface, name):
    order = ([holder] if holder else []) + (POWER_ORDER if iface == "Power" else TEXT_ORDER)
    for p in order:
        if p in S and patches.oracle_impl.get((p, iface, name), False):
            return p
    return "!"


def judge(ctx, patches, S, holders, observed, case, kind, gate_open):
    """holders: iface name -> protocol name or None, as the property's history demands;
    gate_open: callable telling whether the real PlayUrl feature is Available right now."""
    gate = None
    for key, got in observed.items():
        iface, name = key.split(".", 1)
        want = expected(patches, S, holders.get(iface), iface, name)
        if key == "Stream.play_url" and got == "!" and want != "!":
            if gate is None:
                gate = gate_open()
            if not gate:
                ctx.note("oracle:play_url-gate-closed-not-judged")
                continue
        if got != want:
            ctx.fail(f"{kind}:{key}:{set_bits(S)}:{holders.get(iface) or '-'}", dict(case, member=key),
                     got, want,
                     f"{key} with {'+'.join(S)} connected, holder {holders.get(iface) or 'none'}: executed by {got}, "
                     f"the property demands {want}")


def parse_table(s):
    return dict(e.split("=", 1) for e in s.split(",")) if s != "-" else {}


def model_view(table_str):
    t = parse_table(table_str)
    return {k: v for k, v in t.items() if k.split(".", 1)[0] in NINE}


# --- part 1 -------------------------------------------------------------------------------
def static_cases(only=None):
    cases = []
    for S in subsets():
        for video in (True, False):
            if not video and "AirPlay" not in S:
                continue
            for t in [None] + TEXT_ORDER:
                cases.append((S, t, video))
    if only is not None:
        cases = [c for c in cases if c in only]
    return cases


def run_static(ctx, patches, cases):
    lines, obs = [], []
    cur = None
    for S, t, video in cases:
        if cur is None or (cur.S, cur.video) != (S, video):
            cur = World(patches, S, video)
        release = None
        if t is not None:
            status, release = cur.takeover(t, list(FACADE_ATTR.keys()))
            if status != "ok":
                ctx.disagree({"S": S, "t": t}, status, "ok", where="takeover of all interfaces on a fresh facade")
                continue
        table = cur.table()
        gate = cur.gate_open()
        if release:
            release()
        lines.append(f"table {set_bits(S)} {t or '-'} {1 if video else 0}")
        obs.append((S, t, video, table, cur, gate))
    answers = ctx.lean(lines)
    for (S, t, video, table, _world, _gate), ans in zip(obs, answers):
        model = model_view(ans)
        case = {"kind": "call", "S": S, "t": t, "video": video}
        if model != table:
            diff = {k: (table.get(k), model.get(k)) for k in set(table) | set(model) if table.get(k) != model.get(k)}
            ctx.disagree(case, {k: v[0] for k, v in diff.items()}, {k: v[1] for k, v in diff.items()}, where="routing table")
        ctx.validated(len(table))
        holders = {i: t for i in NINE}
        judge(ctx, patches, S, holders, table, case, "call", lambda g=_gate: g)
        for key, got in table.items():
            plain = next(p for p in TEXT_ORDER if p in S)
            nontrivial = got != plain
            ctx.case([set_bits(S), t, video, key], nontrivial,
                     sample={"set": S, "holder": t, "video": video, "member": key, "served_by": got}
                     if nontrivial else None)
            ctx.note("served:" + (got if got in TEXT_ORDER else ("not-supported" if got == "!" else got.split(":")[0])))
        ctx.note("holder:" + (t or "none"))


# --- part 2 -------------------------------------------------------------------------------
def gen_history(rng, length):
    """Well-formed op list; >=30% of takeovers fail by construction."""
    ifaces = list(FACADE_ATTR.keys())
    held = {}
    tokens = []      # (id, [ifaces]) live
    ops, issued = [], 0
    for _ in range(length):
        r = rng.random()
        if tokens and r < 0.28:
            k = rng.randrange(len(tokens))
            tid, taken = tokens.pop(k)
            for i in taken:
                held.pop(i, None)
            ops.append(["release", tid])
            continue
        proto = rng.choice(TEXT_ORDER)
        free = [i for i in ifaces if i not in held]
        want_fail = rng.random() < 0.42
        lst = []
        if want_fail:
            base = rng.sample(free, min(len(free), rng.randint(0, 3)))
            if held and rng.random() < 0.7:
                lst = base + [rng.choice(list(held))]
                if rng.random() < 0.5:
                    rng.shuffle(lst)
            elif base:
                lst = base + [rng.choice(base)]
            else:
                lst = [rng.choice(ifaces)] * 2
        else:
            lst = rng.sample(free, min(len(free), rng.randint(0, 4)))
        if rng.random() < 0.25:
            lst.insert(rng.randint(0, len(lst)), "?")
        # what the property's histories demand of this op
        known = [i for i in lst if i != "?"]
        fails = any(i in held for i in known) or len(set(known)) != len(known)
        if not fails:
            for i in known:
                held[i] = proto
            tokens.append((issued, known))
            issued += 1
        ops.append(["takeover", proto, lst])
    return ops


def run_history(ctx, patches, S, ops, record=True):
    """Execute on the real facade; returns (lines, observations)."""
    world = World(patches, S, True)
    lines = [f"reset {set_bits(S)} 1"]
    obs = [("ok", None, None, None)]
    closures = []
    tracked = {}          # oracle's own view of who holds what
    live = {}
    nfail = nrel = 0
    for step, op in enumerate(ops):
        before = world.holders()
        if op[0] == "takeover":
            _, proto, lst = op
            status, closure = world.takeover(proto, lst)
            lines.append(f"takeover {proto} {','.join(lst) or '-'}")
            if status == "ok":
                tid = len(closures)
                closures.append(closure)
                known = [i for i in lst if i != "?"]
                live[tid] = known
                for i in known:
                    tracked[i] = proto
                head = f"ok {tid}"
            else:
                head = status
                nfail += 1
                if status == "invalid" and world.holders() != before:
                    ctx.fail("history:rollback", {"kind": "history", "S": S, "ops": ops, "step": step},
                             world.holders(), before,
                             f"failing takeover {op} did not roll back: holders {before} -> {world.holders()}")
        else:
            tid = op[1]
            lines.append(f"release {tid}")
            if tid < len(closures):
                closures[tid]()
                for i in live.pop(tid, []):
                    tracked.pop(i, None)
                head = "released"
                nrel += 1
            else:
                head = "no-token"
        holders = world.holders()
        table = world.table()
        obs.append((head, holders, table, dict(tracked)))
        multi = {i: h for i, h in holders.items() if "+" in h}
        case = {"kind": "history", "S": S, "ops": ops, "step": step}
        if multi:
            ctx.fail("history:two-holders", case, multi, "at most one holder", f"after {op}: {multi}")
        judge(ctx, patches, S, {i: tracked.get(i) for i in NINE}, table, case, "history", world.gate_open)
    return lines, obs, nfail, nrel


def compare_history(ctx, S, ops, obs, answers):
    for step, ((head, holders, table, _tr), ans) in enumerate(zip(obs, answers)):
        if holders is None:
            if ans != "ok":
                ctx.disagree({"S": S}, "ok", ans, where="reset")
            continue
        parts = ans.split(" ")
        m_head = " ".join(parts[:-2]) if len(parts) >= 3 else ans
        m_hold = parse_table(parts[-2]) if len(parts) >= 3 else None
        m_table = model_view(parts[-1]) if len(parts) >= 3 else None
        if (m_head, m_hold, m_table) != (head, holders, table):
            diff = None
            if m_table is not None and m_table != table:
                diff = {k: (table.get(k), m_table.get(k)) for k in table if table.get(k) != m_table.get(k)}
            ctx.disagree({"S": S, "ops": ops, "step": step - 1}, {"head": head, "holders": holders, "table_diff": diff},
                         {"head": m_head, "holders": m_hold}, where="history step")
        ctx.validated(1 + len(table))


def run(ctx, only_static=None, only_history=None):
    loop = asyncio.new_event_loop()
    asyncio.set_event_loop(loop)
    patches = Patches(loop)
    try:
        if only_history is None:
            run_static(ctx, patches, static_cases(only_static))
            if only_static is None:
                ctx.exhaustive = True
        if only_static is None:
            if only_history is not None:
                hist = only_history
            else:
                rng = ctx.rng.fork("histories")
                n = ctx.scale(40, 160)
                maxlen = ctx.scale(12, 40)
                sets = subsets()
                hist = []
                for k in range(n):
                    S = sets[-1] if k % 5 == 0 else rng.choice(sets)
                    hist.append((S, gen_history(rng.fork(k), rng.randint(4, maxlen))))
            lines, spans = [], []
            for S, ops in hist:
                l, obs, nfail, nrel = run_history(ctx, patches, S, ops)
                spans.append((S, ops, obs, len(lines), len(l)))
                lines += l
                ntk = sum(1 for o in ops if o[0] == "takeover")
                ctx.note("history:takeovers", ntk)
                ctx.note("history:failing-takeovers", nfail)
                ctx.note("history:releases", nrel)
                ctx.note("history:len:%d" % (10 * (len(ops) // 10)))
                ctx.case([set_bits(S), ops], nfail > 0 and nrel > 0,
                         sample={"set": S, "ops": ops[:6], "failing_takeovers": nfail, "releases": nrel})
            answers = ctx.lean(lines)
            for S, ops, obs, start, n in spans:
                compare_history(ctx, S, ops, obs, answers[start:start + n])
            tk, fl = ctx.stats.get("history:takeovers", 0), ctx.stats.get("history:failing-takeovers", 0)
            ctx.notes["failing_takeover_fraction"] = round(fl / tk, 3) if tk else None
    finally:
        patches.restore()
        asyncio.set_event_loop(None)
        loop.close()


def replay(ctx, failure):
    case = failure["case"]
    c2 = type(ctx)(ctx.prop, ctx.tier, ctx.seed, ctx.driver.driver_rel)
    if case.get("kind") == "history":
        ops = case["ops"][: case["step"] + 1]
        run(c2, only_history=[(case["S"], ops)])
    else:
        run(c2, only_static=[(case["S"], case["t"], case["video"])])
    return bool(c2.failures)


def shrink(ctx, failure):
    """A history failure needs only the prefix up to the failing step."""
    case = failure["case"]
    if case.get("kind") != "history":
        return failure
    ops = case["ops"][: case["step"] + 1]
    return dict(failure, case=dict(case, ops=ops, step=len(ops) - 1))
