"""C01 — correspondence + direct oracle for relayer routing and facade takeover.

Real code driven: pyatv.core.facade.FacadeAppleTV (its eleven Facade* relayers, connect(),
takeover() and the release closures) with the REAL interface instances every protocol's
setup() yields.  No connection is made: SetupData.connect is replaced, and every member a
protocol class overrides is replaced *on that class* by a recorder (it stays "overridden"
for Relayer._find_instance) which logs which protocol's instance was called.

Part 1 (exhaustive, both tiers): 31 protocol sets x {no takeover, takeover by each of the
5 protocols} x every public member of the nine interfaces, invoked through the facade
(`await atv.remote_control.up()`, properties included); plus the 16 sets containing AirPlay
once more with an AirPlay service that does not advertise video (play_url gate closed).
Part 2: random well-formed takeover/release histories on the real facade; after every
operation the holders and the complete routing table are compared with the model.

Model lines: see lean/PyatvModel/C01/Driver.lean.
Oracle: the winner computed here from the priority order written in the property text and
from an override test of its own (defined along the MRO by a class other than the interface
base AND not a byte-for-byte copy of the base's default body).
"""
import asyncio
import inspect
import warnings

RULE = ("part 1 exhaustive over scenarios = (services in the configuration, Companion credentials, AirPlay video / "
        "MRP-tunnel / unified-RAOP flags, empty or real TXT records, which queued SetupData answer connect() with False): "
        "the 31 native sets (both TXT variants, both video flags), all 180 (set-up set, failing proper subset) pairs, 48 "
        "tunnel/unified configurations all connecting (both TXT variants) and with every single failing connect, five real "
        "devices as pyatv's own scanner sees them x every set of their protocols left enabled, plus seeded random ones; the device object comes from the real pyatv.connect() and a connected protocol takes over through the "
        "core.takeover wired there; x {no holder, each of 5 holders} x every member with default-style arguments and with "
        "every other value of its enum-typed / optional parameters, strings of several shapes (http/https/file URL, path, "
        "identifier, empty) for string parameters and an extra keyword for **kwargs (from the signatures) — any recorder "
        "firing other than the winner's same-named member is a misroute; then again after each connected "
        "protocol published volume/output devices/focus/play state with exactly the published values as arguments (twice, "
        "and under a takeover), and again while the implementations of one connected protocol raise NotSupportedError / "
        "ProtocolError when called (the error must reach the caller, nobody else may execute the call); Companion's REAL "
        "connect callable against a fake device, every request of its connect sequence rejected in turn; non-trivial = the call is not served by the first connected protocol of the plain "
        "priority list. part 1b: the same device object with SYNTHETIC protocol classes: every protocol implementing every "
        "member for all 31 sets (each priority list exercised in full) and random implementation tables, the classes built in "
        "five shapes (direct subclass, implementation inherited from an intermediate class, through two levels, provided by a "
        "mixin, overridden at two levels), compared with the generic model on those tables and with the oracle. part 2: random histories of takeover/release (>=30% failing takeovers by construction) interleaved "
        "with state updates; non-trivial = history with at least one failing takeover and one release; "
        "distinct = (scenario, holder, member incl. argument variant) / (scenario, holder, publisher) resp. (scenario, op list)")
ASSUMPTIONS = [
    "SetupData.connect/close are replaced by coroutines answering True/False; interface instances are the real ones from "
    "the real pyatv.connect() (native setup(), MRP over the AirPlay tunnel, RAOP set up by AirPlay), never connected; only "
    "pyatv.PROTOCOLS is wrapped to swap SetupData.connect/close and to note the Core objects pyatv.connect created",
    "a takeover 'by protocol p' is performed through the takeover method of the Core that p's registered instances hold (else "
    "the Core pyatv.connect created for p); for a protocol the device is not connected with, FacadeAppleTV.takeover is called",
    "the connected set is the set of protocols whose SetupData.connect answered True (first SetupData per protocol wins, as in "
    "FacadeAppleTV.connect); a connect() that raises aborts pyatv.connect and leaves no usable device object: not enumerated",
    "overriding members are replaced on the protocol classes by recorders for the duration of the run (restored afterwards)",
    "FacadeStream.play_url refuses with NotSupportedError while the PlayUrl feature is not Available (feature gate, "
    "facade.py:356): when the gate is closed the call is compared with the model only, the oracle does not judge it",
    "calling a release closure a second time is outside the property (histories are well-formed)",
]
TRUSTED = ["recorders, argument synthesis and the fake session manager of harness/c01.py / tools/gen/c01.py"]

# --- the property text, hard-coded (never read from the code) ----------------------------
TEXT_ORDER = ["MRP", "DMAP", "Companion", "AirPlay", "RAOP"]
POWER_ORDER = ["Companion", "MRP", "DMAP", "AirPlay", "RAOP"]
NINE = ["RemoteControl", "Metadata", "Power", "Audio", "Apps", "UserAccounts", "Keyboard", "TouchGestures", "Stream"]
FACADE_ATTR = {"RemoteControl": "remote_control", "Metadata": "metadata", "Power": "power", "Audio": "audio",
               "Apps": "apps", "UserAccounts": "user_accounts", "Keyboard": "keyboard", "TouchGestures": "touch",
               "Stream": "stream", "PushUpdater": "push_updater", "Features": "features"}


STRING_SHAPES = ["http://example.com/a.mp3", "https://example.com/a.mp3", "file:///tmp/a.mp3", "/tmp/a.mp3", "com.apple.TVMusic", ""]


def subsets():
    out = []
    for bits in range(1, 32):
        out.append([p for i, p in enumerate(TEXT_ORDER) if bits & (1 << (4 - i))])
    return out


def set_bits(S):
    return "".join("1" if p in S else "0" for p in TEXT_ORDER)


# --- scenarios: how the device object came to be connected --------------------------------
def scenario(services=None, fail=(), **kw):
    """A device configuration (tools/gen/c01.default_spec) plus the positions, in the order
    pyatv.connect queues the SetupData, whose `connect()` answers False."""
    from tools.gen.c01 import default_spec

    sc = default_spec(**kw)
    if services is not None:
        sc["services"] = [p for p in TEXT_ORDER if p in services]
    sc["fail"] = sorted(fail)
    return sc


def scen_key(sc):
    return "%s%ssvc=%s;cc=%d;v=%d;tun=%d;uni=%d;txt=%d;fail=%s" % (
        ("dev=%s;" % sc["profile"]) if sc.get("profile") else "",
        ("companion-real-connect,rejects=%s;" % ("+".join(sc["companion_device"].get("reject", [])) or "-"))
        if sc.get("companion_device") else "",
        "+".join(sc["services"]), sc["companion_creds"], sc["video"], sc["tunnel"], sc["unified"], sc.get("txt", False),
        ".".join(map(str, sc["fail"])) or "-")


def device_scenario(profile, services=None, **kw):
    """a device of tools/gen/c01.DEVICE_PROFILES as pyatv's own scanner sees it, with the given
    protocols left enabled (default: all it has)"""
    from tools.gen.c01 import DEVICE_PROFILES, profile_protocols

    have = profile_protocols(profile)
    return scenario(have if services is None else [p for p in have if p in services], profile=profile,
                    video=DEVICE_PROFILES[profile]["video"], **kw)


def real_connect_scenarios(patches):
    """Companion's REAL connect callable against a fake device: every protocol set with Companion
    (and the scanned devices that have it) x {the device answers everything, it rejects one of
    the requests the connect sequence sends}.  The requests are discovered by running it once."""
    probe = World(patches, scenario(["Companion"], companion_device={"reject": []}))
    requests = list(probe.built.companion_requests)
    out = []
    bases = [dict(services=S) for S in subsets() if "Companion" in S]
    for rej in [[]] + [[r] for r in requests]:
        for b in bases:
            out.append(scenario(companion_device={"reject": rej}, **b))
        for profile in ("appletv4k", "homepod"):
            out.append(device_scenario(profile, companion_device={"reject": rej}))
    return out


def device_scenarios():
    """every scanned device x every non-empty set of its protocols left enabled (x Companion
    with / without credentials when it has that service)"""
    from tools.gen.c01 import DEVICE_PROFILES, profile_protocols

    out = []
    for profile in DEVICE_PROFILES:
        have = profile_protocols(profile)
        for bits in range(1, 1 << len(have)):
            sub = [p for i, p in enumerate(have) if bits & (1 << i)]
            out.append(device_scenario(profile, sub))
            if "Companion" in sub and len(sub) > 1:
                out.append(device_scenario(profile, sub, companion_creds=False))
        n = 6
        out += [device_scenario(profile, fail=[k]) for k in range(n)]
    return out


def native_scenarios():
    """the 31 service sets, every protocol set up natively and connecting"""
    return [scenario(S) for S in subsets()]


def failing_connect_scenarios():
    """every set U of set-up protocols x every proper subset F of them whose connect() returns False"""
    out = []
    for U in subsets():
        for bits in range(1, 1 << len(U)):
            fail = [i for i in range(len(U)) if bits & (1 << i)]
            if len(fail) < len(U):
                # queue order of native set-ups = order of PROTOCOLS restricted to U; resolved by the World
                out.append(scenario(U, fail=fail))
    return out


def path_configs():
    """MRP over the AirPlay tunnel and RAOP set up by AirPlay, with the other services present,
    absent or (Companion) present without credentials."""
    out = []
    for tunnel, unified in ((True, False), (False, True), (True, True)):
        for mrp in (False, True):
            for comp in ("absent", "nocreds", "creds"):
                for dmap in (False, True):
                    for raop in (False, True):
                        if unified and raop:
                            continue
                        svc = ["AirPlay"] + (["MRP"] if mrp else []) + (["DMAP"] if dmap else []) \
                            + (["RAOP"] if raop else []) + (["Companion"] if comp != "absent" else [])
                        out.append(dict(services=svc, tunnel=tunnel, unified=unified, companion_creds=(comp == "creds")))
    return out


def all_scenarios(patches, rng=None, extra=0):
    """native (31) + failing connects (180) + set-up paths: all connecting and every single
    SetupData of the queue failing; `extra` random ones with several failures."""
    out = native_scenarios()
    out += [scenario(S, video=False) for S in subsets() if "AirPlay" in S]
    out += [scenario(S, txt=True) for S in subsets()]          # services announcing real TXT records
    out += device_scenarios()                                  # real devices as the scanner sees them
    out += real_connect_scenarios(patches)                     # Companion's real connect against a fake device
    out += failing_connect_scenarios()
    for cfg in path_configs():
        n = len(World(patches, scenario(**cfg)).built.queue)
        out.append(scenario(**cfg))
        out.append(scenario(txt=True, **cfg))
        out += [scenario(fail=[k], **cfg) for k in range(n)]
    for _ in range(extra):
        cfg = dict(rng.choice(path_configs()))
        cfg["video"] = rng.chance(0.7)
        cfg["txt"] = rng.chance(0.5)
        n = len(World(patches, scenario(**cfg)).built.queue)
        fail = [k for k in range(n) if rng.chance(0.35)]
        out.append(scenario(fail=fail, **cfg))
    seen, uniq = set(), []
    for sc in out:
        if scen_key(sc) not in seen:
            seen.add(scen_key(sc))
            uniq.append(sc)
    return uniq


# --- recorders ----------------------------------------------------------------------------
class Patches:
    """Replace every overriding public member on the protocol classes by a recorder."""

    def __init__(self, loop):
        from pyatv import interface
        from tools.gen.c01 import build_world, public_members

        import logging

        logging.getLogger("pyatv").addHandler(logging.NullHandler())   # expected error paths are logged by pyatv: keep stderr quiet
        self.loop = loop
        self.log = []
        self.owner = {}          # id(instance) -> protocol name (current world)
        self.saved = []
        self.raising = {}        # protocol name -> pyatv.exceptions class name its implementations raise when called
        self.genuine = {}        # (class, member) -> bool: the oracle's own "actually implements"
        self.done = set()
        self.members = {}        # iface name -> [member names]
        self.bases = {}
        built = build_world(loop)
        self.iface_classes = list(built.atv._interfaces.keys())
        for base in self.iface_classes:
            self.bases[base.__name__] = base
            if base is interface.Features:
                continue
            self.members[base.__name__] = public_members(base)
        self.ensure(built)

    def ensure(self, built):
        """Patch the classes of every instance the configuration set up (any set-up path)."""
        from tools.gen.c01 import defining_class, underlying

        for _origin, sd in built.queue:
            for base, inst in sd.interfaces.items():
                cls = type(inst)
                if base.__name__ not in self.members or (cls, base) in self.done:
                    continue
                self.done.add((cls, base))
                for name in self.members[base.__name__]:
                    d = defining_class(cls, name)
                    overridden = d is not None and d is not base
                    self.genuine[(cls, name)] = overridden and not self._same_body(
                        d.__dict__[name], base.__dict__[name], underlying)
                    if overridden and not getattr(cls, "_verif_synthetic", False):
                        self._patch(cls, base, name, underlying)     # synthetic classes record by themselves

    _STUB_OPS = {"RESUME", "RETURN_GENERATOR", "POP_TOP", "NOP", "PUSH_NULL", "LOAD_GLOBAL", "LOAD_ATTR", "LOAD_CONST",
                 "KW_NAMES", "PRECALL", "CALL", "RAISE_VARARGS", "CALL_INTRINSIC_1", "RERAISE", "CLEANUP_THROW", "COPY",
                 "COPY_FREE_VARS", "CACHE"}

    @classmethod
    def _same_body(cls, mine, default, underlying):
        """Not an implementation: a byte-for-byte copy of the interface default, or a body that
        does nothing but raise `exceptions.NotSupportedError(<constants>)`.  Anything this
        analysis does not recognise counts as a genuine implementation."""
        import dis

        a, b = getattr(underlying(mine), "__code__", None), getattr(underlying(default), "__code__", None)
        if a is None or b is None:
            return False
        if a.co_code == b.co_code and a.co_names == b.co_names:   # docstrings live in co_consts: ignored
            return True
        ins = list(dis.get_instructions(a))
        names = {i.argval for i in ins if i.opname in ("LOAD_GLOBAL", "LOAD_ATTR")}
        return (all(i.opname in cls._STUB_OPS for i in ins) and any(i.opname == "RAISE_VARARGS" for i in ins)
                and "NotSupportedError" in names and names <= {"exceptions", "NotSupportedError"})

    def _patch(self, cls, base, name, underlying):
        if any(c is cls and n == name for c, n, _h, _o in self.saved):
            return
        original = inspect.getattr_static(cls, name)
        had_own = name in cls.__dict__
        log, owner, iface = self.log, self.owner, base.__name__
        ret = 10.0 if name == "volume" else None

        raising = self.raising

        def note(self_):
            who = owner.get(id(self_), "?unregistered")
            log.append((who, iface, name))
            if who in raising:          # the implementation itself fails at call time
                from pyatv import exceptions

                raise getattr(exceptions, raising[who])("raised by the implementation of " + who)
            return ret

        if isinstance(original, property):
            rec = property(note)
        elif inspect.iscoroutinefunction(underlying(original)):
            async def rec(self_, *a, **k):
                return note(self_)
        else:
            def rec(self_, *a, **k):
                return note(self_)
        self.saved.append((cls, name, had_own, cls.__dict__.get(name)))
        setattr(cls, name, rec)

    def restore(self):
        for cls, name, had_own, original in reversed(self.saved):
            if had_own:
                setattr(cls, name, original)
            else:
                delattr(cls, name)
        self.saved = []


class World:
    """A real device object obtained from the real `pyatv.connect()` for a configuration
    (tools/gen/c01.build_world: no network, SetupData.connect answers True, or False at the
    queue positions listed in the scenario).  `S` = the protocols the device is connected with."""

    def __init__(self, patches, sc, transform=None):
        from pyatv.const import Protocol
        from tools.gen.c01 import build_world, reachable_cores

        self.p = patches
        self.sc = sc
        self.video = sc["video"]
        spec = {k: v for k, v in sc.items() if k != "fail"}
        self.built = build_world(patches.loop, {k: v for k, v in spec.items() if k != "synthetic"},
                                 fail=tuple(sc["fail"]), transform=transform)
        patches.ensure(self.built)
        self.atv = self.built.atv
        self.Protocol = Protocol
        patches.owner.clear()
        self.connected = {}      # protocol name -> SetupData that connected (first one wins)
        self.asking_core = {}    # protocol name -> the Core its registered instances take over through
        self.fail = [k for k in sc["fail"] if k < len(self.built.queue)]
        for k, (origin, sd) in enumerate(self.built.queue):
            ok = k not in self.fail
            name = sd.protocol.name
            mine = ok and name not in self.connected
            if mine:
                self.connected[name] = sd
                held = reachable_cores(sd)
                # no Core held by its instances: the one pyatv.connect created for this very protocol;
                # a protocol set up by another one (tunnelled MRP) whose code holds no Core cannot ask at all
                self.asking_core[name] = held[0] if held else (self.built.cores[origin] if origin == sd.protocol else None)
            for inst in sd.interfaces.values():
                patches.owner[id(inst)] = name if mine else f"not-connected:{name}#{k}"
        self.S = [p for p in TEXT_ORDER if p in self.connected]
        self.connect_error = type(self.built.error).__name__ if self.built.error is not None else None
        self.relayers = {}
        if self.atv is not None:
            self.relayers = {b.__name__: self.atv._interfaces[b] for b in patches.iface_classes}
        self.env = None

    @property
    def power_known(self):
        """input of the model: Companion's real connect learnt the power state (a fact about the fake
        device's answers, read from the real CompanionPower object)"""
        from pyatv import interface

        sd = self.connected.get("Companion")
        power = sd.interfaces.get(interface.Power) if sd else None
        return bool(getattr(power, "supports_power_updates", False))

    def genuine(self, proto, iface, name):
        sd = self.connected.get(proto)
        inst = sd.interfaces.get(self.p.bases[iface]) if sd else None
        return inst is not None and self.p.genuine.get((type(inst), name), False)

    def features_instance(self, proto):
        from pyatv import interface

        return self.connected[proto].interfaces[interface.Features]

    # -- environment activity ------------------------------------------------------------
    def publish(self, proto, k):
        """Protocol `proto` reports volume, output devices, keyboard focus and play state on the
        internal state dispatcher; later calls reuse exactly these values as arguments."""
        from pyatv import const, interface
        from pyatv.core import UpdatedState

        env = {"volume": 20.0 + (7 * k) % 70, "device": "dev-%d" % k, "position": 3 + k,
               "shuffle": const.ShuffleState.Songs, "repeat": const.RepeatState.All, "publisher": proto}
        disp = self.built.dispatcher_for(self.Protocol[proto])

        async def go():
            disp.dispatch(UpdatedState.Volume, env["volume"])
            disp.dispatch(UpdatedState.OutputDevices, [interface.OutputDevice("out", env["device"])])
            disp.dispatch(UpdatedState.KeyboardFocus, const.KeyboardFocusState.Focused)
            disp.dispatch(UpdatedState.Playing, interface.Playing(
                const.MediaType.Music, const.DeviceState.Playing, title="t", position=env["position"],
                total_time=100, shuffle=env["shuffle"], repeat=env["repeat"]))
            for _ in range(3):
                await asyncio.sleep(0)

        try:
            self.p.loop.run_until_complete(go())
        except Exception:
            pass
        self.env = env
        return env

    # -- observation -------------------------------------------------------------------
    def _args(self, iface, name, plain=False):
        import enum

        env = None if plain else self.env
        fn = self.p.bases[iface].__dict__[name]
        args = []
        for prm in list(inspect.signature(fn).parameters.values())[1:]:
            if prm.kind == prm.VAR_POSITIONAL and env is not None:
                args.append(env["device"])
                continue
            if prm.kind in (prm.VAR_POSITIONAL, prm.VAR_KEYWORD) or prm.default is not prm.empty:
                continue
            ann = prm.annotation
            if isinstance(ann, type) and issubclass(ann, enum.Enum):
                reuse = [v for v in (env or {}).values() if isinstance(v, ann)]
                args.append(reuse[0] if reuse else list(ann)[0])
            elif ann is float:
                args.append(env["volume"] if env else 10.0)
            elif ann is str or not isinstance(ann, type):
                args.append(env["device"] if env else "x")
            else:
                args.append(env["position"] if env else 1)
        return args

    def variants(self, iface, name):
        """Argument variants of a member, one parameter changed at a time, taken from the
        signature in pyatv.interface: every other value of an enum-typed parameter, a flipped
        bool, a value for a parameter defaulting to None, another number, strings of several shapes
        (URL schemes, path, identifier, empty) for a string parameter, an extra keyword for **kwargs.
        [(label, kwargs)]"""
        import dataclasses
        import enum
        import typing

        key = (iface, name)
        cache = self.p.__dict__.setdefault("_variants", {})
        if key in cache:
            return cache[key]
        fn = self.p.bases[iface].__dict__[name]
        out = []
        if not isinstance(fn, property):
            base = dict(zip([p.name for p in list(inspect.signature(fn).parameters.values())[1:]
                             if p.kind not in (p.VAR_POSITIONAL, p.VAR_KEYWORD) and p.default is p.empty],
                            self._args(iface, name, plain=True)))
            for prm in list(inspect.signature(fn).parameters.values())[1:]:
                if prm.kind == prm.VAR_KEYWORD:
                    out.append(("**%s=position" % prm.name, {"position": 0}))     # an extra keyword argument
                    continue
                if prm.kind == prm.VAR_POSITIONAL or (prm.kind == prm.POSITIONAL_ONLY and prm.default is not prm.empty):
                    continue
                ann, dflt = prm.annotation, prm.default
                cands = [a for a in typing.get_args(ann) if a is not type(None)] if typing.get_origin(ann) is typing.Union else [ann]
                cur = base.get(prm.name, dflt)
                values = []
                if isinstance(dflt, enum.Enum) or (isinstance(ann, type) and issubclass(ann, enum.Enum)):
                    values = [v for v in (type(dflt) if isinstance(dflt, enum.Enum) else ann) if v != cur]
                elif isinstance(dflt, bool):
                    values = [not dflt]
                elif dflt is prm.empty and (ann is str or str in cands):
                    # strings whose shape may select a code path: URL schemes, absolute path, empty
                    values = [v for v in STRING_SHAPES if v != cur]
                elif dflt is None:
                    c = cands[0] if cands and isinstance(cands[0], type) else None
                    if c is not None and dataclasses.is_dataclass(c):
                        values = [c()]
                    elif c is float:
                        values = [7.0]
                    elif c is str:
                        values = ["x"]
                    else:
                        values = [100]
                elif isinstance(dflt, (int, float)):
                    values = [dflt + 15]
                for v in values:
                    out.append(("%s=%s" % (prm.name, getattr(v, "name", v if not dataclasses.is_dataclass(v) else "given")), {prm.name: v}))
        cache[key] = out
        return out

    async def _call(self, iface, name, override=None):
        from pyatv import exceptions

        log = self.p.log
        del log[:]
        try:
            fo = getattr(self.atv, FACADE_ATTR[iface])
            static = inspect.getattr_static(type(fo), name)
            if isinstance(static, property):
                getattr(fo, name)
            else:
                args, kwargs = self._args(iface, name), {}
                if override:
                    fn = self.p.bases[iface].__dict__[name]
                    required = [p.name for p in list(inspect.signature(fn).parameters.values())[1:]
                                if p.kind not in (p.VAR_POSITIONAL, p.VAR_KEYWORD) and p.default is p.empty]
                    for k, v in override.items():
                        if k in required and required.index(k) < len(args):
                            args[required.index(k)] = v
                        else:
                            kwargs[k] = v
                res = getattr(fo, name)(*args, **kwargs)
                if inspect.isawaitable(res):
                    await res
        except exceptions.NotSupportedError:
            return "!" if not log else "!after:" + "+".join(r[0] for r in log)
        except Exception as e:  # observation, not a crash
            return "err:" + type(e).__name__ + ("@" + "+".join(r[0] for r in log) if log else "")
        if not log:
            return "dropped"
        if len(log) > 1 or log[0][1:] != (iface, name):
            return "multi:" + "+".join("%s/%s.%s" % r for r in log)
        return log[0][0]

    async def _table(self, variants):
        out = {}
        for iface in NINE:
            for name in self.p.members[iface]:
                out[f"{iface}.{name}"] = await self._call(iface, name)
                if variants:
                    for label, override in self.variants(iface, name):
                        out[f"{iface}.{name}[{label}]"] = await self._call(iface, name, override)
        return out

    def table(self, variants=True):
        """which protocol's instance executed each member, invoked through the device object with
        default-style arguments and (variants) with every other value of its enum / optional parameters"""
        with warnings.catch_warnings(record=True):   # pyatv.support.deprecated re-enables the filter itself
            return self.p.loop.run_until_complete(self._table(variants))

    def gate_open(self):
        from pyatv.const import FeatureName, FeatureState

        try:
            return self.atv.features.in_state(FeatureState.Available, FeatureName.PlayUrl)
        except Exception:
            return False

    def holders(self):
        out = {}
        for name, rel in self.relayers.items():
            t = list(rel._takeover_protocol)
            if t:
                out[name] = "+".join(p.name for p in t)
        return out

    def takeover(self, proto, ifaces):
        """Protocol `proto` takes over `ifaces` (interface names or '?' = an object that is no
        interface) the way its own code does: through the `takeover` method of the Core that
        pyatv.connect() wired for it and that its registered instances hold.  A protocol the
        device is not connected with has no such Core: FacadeAppleTV.takeover is called in its name."""
        from pyatv import exceptions

        objs = [self.p.bases[i] if i != "?" else object() for i in ifaces]
        core = self.asking_core.get(proto)
        try:
            if core is not None:
                return "ok", core.takeover(*objs)
            return "ok", self.atv.takeover(self.Protocol[proto], *objs)
        except exceptions.InvalidStateError:
            return "invalid", None
        except Exception as e:
            return "err:" + type(e).__name__, None


# --- the oracle ---------------------------------------------------------------------------
def expected(world, holder, iface, name):
    order = ([holder] if holder else []) + (POWER_ORDER if iface == "Power" else TEXT_ORDER)
    for p in order:
        if p in world.S and world.genuine(p, iface, name):
            return p
    return "!"


def judge(ctx, world, holders, observed, case, kind):
    """holders: iface name -> protocol name or None, as the property's history demands."""
    gate = None
    S = world.S
    for key, got in observed.items():
        iface, name = key.split("[")[0].split(".", 1)
        want = expected(world, holders.get(iface), iface, name)
        if key.split("[")[0] == "Stream.play_url" and got == "!" and want != "!":
            if gate is None:
                gate = world.gate_open()
            if not gate:
                ctx.note("oracle:play_url-gate-closed-not-judged")
                continue
        if got != want:
            how = "" if not case.get("env") else (
                f" while the implementations of {case['env']['publisher']} raise {case['env']['raises']} when called"
                if case["env"].get("raises") else f" after {case['env']['publisher']} reported the values then passed as arguments")
            ctx.fail(f"{kind}:{key}:{scen_key(world.sc)}:{holders.get(iface) or '-'}" + (":env" if case.get("env") else ""),
                     dict(case, member=key), got, want,
                     f"{key} with {'+'.join(S)} connected ({scen_key(world.sc)}), holder {holders.get(iface) or 'none'}{how}: "
                     f"executed by {got}, the property demands {want}")


def parse_table(s):
    return dict(e.split("=", 1) for e in s.split(",")) if s != "-" else {}


def model_view(table_str):
    t = parse_table(table_str)
    return {k: v for k, v in t.items() if k.split(".", 1)[0] in NINE}


# --- part 1 -------------------------------------------------------------------------------
def run_static(ctx, patches, scenarios, full_env):
    """Every scenario x {no holder, each protocol holding every interface}; then, for every
    connected protocol as publisher of volume / output devices / focus / play state, every
    member again with exactly the published values as arguments (twice in a row)."""
    obs = []
    for sc in scenarios:
        world = World(patches, sc)
        if world.connect_error or not world.S:
            ctx.note("scenario:nothing-connected")
            continue
        handlers = sorted(p.name for p in getattr(world.atv, "_protocol_handlers", {}))
        if handlers and handlers != sorted(world.S):
            ctx.disagree({"scenario": sc}, handlers, sorted(world.S), where="connected set (facade _protocol_handlers vs construction)")
        ctx.note("scenario:" + ("companion-real-connect" if sc.get("companion_device") else "device" if sc.get("profile")
                                else "native" if not (sc["tunnel"] or sc["unified"]) else "tunnel/unified")
                 + ("+failing-connect" if world.fail else ""))
        # quick tier: scenarios with failing connects / Companion's real connect get a lighter treatment
        light = (not full_env) and bool(world.fail or sc.get("companion_device"))
        rounds = [(t, None) for t in ([None, TEXT_ORDER[len(scen_key(sc)) % 5]] if light else [None] + TEXT_ORDER)]
        pubs = world.S[:1] if light else world.S
        for k, pub in enumerate(pubs):
            rounds.append((None, (pub, k)))
            rounds.append((None, (pub, k)))                      # the same call a second time
            rounds.append((TEXT_ORDER[(k + 1) % 5], (pub, k)))   # and while somebody holds a takeover
        rounds = [r + (None,) for r in rounds]
        # the implementations of one connected protocol fail at call time (NotSupportedError /
        # ProtocolError raised by their own code): the error must reach the caller and no other
        # protocol may execute the call
        for k, who in enumerate([] if light else world.S):
            rounds.append((None, None, (who, "NotSupportedError")))
            rounds.append((None, None, (who, "ProtocolError")))
            rounds.append((TEXT_ORDER[(k + 2) % 5], None, (who, "NotSupportedError")))
        for t, pub, raises in rounds:
            release = None
            if pub is not None:
                world.publish(*pub)
            if t is not None:
                status, release = world.takeover(t, list(FACADE_ATTR.keys()))
                if status != "ok":
                    ctx.disagree({"scenario": sc, "t": t}, status, "ok", where="takeover of all interfaces")
                    continue
            if raises is not None:
                patches.raising[raises[0]] = raises[1]
            try:
                table = world.table(variants=pub is None and raises is None)
            finally:
                patches.raising.clear()
            if release:
                release()
            env = None if pub is None else {"publisher": pub[0], "volume": world.env["volume"]}
            if raises is not None:
                # normal form: "X" = executed by X alone and X's error reached the caller
                who, kind = raises
                raw = "!after:" + who if kind == "NotSupportedError" else f"err:{kind}@{who}"
                table = {k: (who if v == raw else ("error-swallowed:" + who if v == who else v)) for k, v in table.items()}
                env = {"publisher": who, "volume": None, "raises": kind}
            obs.append((world, t, env, table))
        world.light = light
    lines = sorted({f"table {set_bits(w.S)} {t or '-'} {1 if w.video else 0}" for w, t, _e, _tb in obs})
    answers = dict(zip(lines, ctx.lean(lines)))
    for world, t, env, table in obs:
        S, sc = world.S, world.sc
        model = model_view(answers[f"table {set_bits(S)} {t or '-'} {1 if world.video else 0}"])
        model = {k: model.get(k.split("[")[0]) for k in table}     # the model's routing does not depend on arguments
        case = {"kind": "call", "scenario": sc, "t": t, "env": env, "light": getattr(world, "light", False)}
        if model != table:
            diff = {k: (table.get(k), model.get(k)) for k in set(table) | set(model) if table.get(k) != model.get(k)}
            ctx.disagree(case, {k: v[0] for k, v in diff.items()}, {k: v[1] for k, v in diff.items()}, where="routing table")
        ctx.validated(len(table))
        judge(ctx, world, {i: t for i in NINE}, table, case, "call")
        plain = next(p for p in TEXT_ORDER if p in S)
        if env is not None:
            # state-update rounds: one case per round (every member was invoked and judged above)
            ctx.case([scen_key(sc), t, env["publisher"], env.get("raises"), "all-members"], True)
            ctx.note("calls-while-implementation-raises" if env.get("raises") else "calls-after-state-update", len(table))
            ctx.note("args:default" if env.get("raises") else "args:reused-from-state-update")
            continue
        for key, got in table.items():
            nontrivial = got != plain
            ctx.case([scen_key(sc), t, env and env["publisher"], key], nontrivial,
                     sample={"scenario": scen_key(sc), "connected": S, "holder": t, "after_update_by": env and env["publisher"],
                             "member": key, "served_by": got} if nontrivial and (world.fail or sc["tunnel"]) else None)
            ctx.note("served:" + (got if got in TEXT_ORDER else ("not-supported" if got == "!" else got.split(":")[0])))
        ctx.note("holder:" + (t or "none"))
        ctx.note("args:" + ("reused-from-state-update" if env else "default"))


# --- part 1b: synthetic protocol classes ----------------------------------------------------
SHAPES = ["direct", "inherited", "mixin", "two-level", "inherited-twice"]


def synthetic_class(patches, base, implemented, shape, tag):
    """A protocol's class for interface `base` implementing exactly `implemented`, built the
    given way: defined by the class itself; inherited from an intermediate class; provided by
    a mixin listed before the interface; defined by an intermediate class and overridden again
    by the concrete one; inherited through two intermediate levels.  Members record by themselves."""
    from tools.gen.c01 import underlying

    log, owner, iface = patches.log, patches.owner, base.__name__

    def member(name):
        template = base.__dict__[name]

        def note(self_):
            who = owner.get(id(self_), "?unregistered")
            log.append((who, iface, name))
            if who in patches.raising:
                from pyatv import exceptions

                raise getattr(exceptions, patches.raising[who])("raised by the implementation of " + who)
            return 10.0 if name == "volume" else None

        if isinstance(template, property):
            return property(note)
        if inspect.iscoroutinefunction(underlying(template)):
            async def rec(self_, *a, **k):
                return note(self_)
            return rec

        def rec(self_, *a, **k):
            return note(self_)
        return rec

    body = {n: member(n) for n in implemented}
    mark = {"_verif_synthetic": True}
    name = f"Synthetic{iface}{tag}"
    if shape == "direct":
        return type(name, (base,), dict(body, **mark))
    if shape == "inherited":
        return type(name, (type(name + "Base", (base,), dict(body, **mark)),), {})
    if shape == "inherited-twice":
        mid = type(name + "Mid", (type(name + "Base", (base,), dict(body, **mark)),), {})
        return type(name, (mid,), {})
    if shape == "mixin":
        return type(name, (type(name + "Mixin", (), dict(body, **mark)), base), {})
    # two-level: the intermediate class defines everything, the concrete class overrides half of it again
    again = {n: member(n) for n in list(implemented)[::2]}
    return type(name, (type(name + "Base", (base,), dict(body, **mark)),), again)


def synthetic_world(patches, table, shapes, S):
    """A real device object (pyatv.connect) whose protocols in `S` register synthetic instances:
    table[proto][iface] = members it implements (absent iface = not provided)."""
    from pyatv import interface
    from pyatv.const import FeatureName, FeatureState

    class AllAvailable(interface.Features):
        _verif_synthetic = True

        def get_feature(self, feature_name):
            return interface.FeatureInfo(FeatureState.Available)

    def transform(proto, sd):
        if sd.protocol.name not in table:
            return sd
        ifaces = {interface.Features: AllAvailable()}
        for iface, members in table[sd.protocol.name].items():
            cls = synthetic_class(patches, patches.bases[iface], members, shapes[(sd.protocol.name, iface)], sd.protocol.name)
            ifaces[patches.bases[iface]] = cls()
        return sd._replace(interfaces=ifaces, features=set(FeatureName))

    return World(patches, scenario(S), transform=transform)


def run_synthetic(ctx, patches, rng, n_random, only=None):
    """The relayer and the facade on implementation tables other than pyatv's own: (a) every
    protocol implements every member of every interface, for all 31 protocol sets, so that each
    priority list is exercised in full; (b) random tables; each with classes of random shape."""
    plans = []
    full = {p: {i: list(patches.members[i]) for i in NINE} for p in TEXT_ORDER}
    for k, S in enumerate(subsets()):
        plans.append(({p: full[p] for p in S}, S, SHAPES[k % len(SHAPES)]))
    for k in range(n_random):
        r = rng.fork(k)
        S = r.choice(subsets())
        table = {}
        for p in S:
            table[p] = {}
            for i in NINE:
                if r.chance(0.8):
                    table[p][i] = [m for m in patches.members[i] if r.chance(0.5)]
        plans.append((table, S, None))
    obs = []
    if only is not None:
        plans = [(c["table"], c["S"], c) for c in only]
    for n, (table, S, shape) in enumerate(plans):
        r = rng.fork("shape", n)
        if only is not None:
            shapes = {tuple(k.split("/")): v for k, v in shape["shapes"].items()}
            holders = [shape["t"]]
        else:
            shapes = {(p, i): (shape or r.choice(SHAPES)) for p in table for i in table[p]}
            holders = [None, r.choice(TEXT_ORDER)]
        world = synthetic_world(patches, table, shapes, S)
        if world.connect_error or not world.S:
            continue
        for t in holders:
            release = None
            if t is not None:
                status, release = world.takeover(t, list(FACADE_ATTR.keys()))
                if status != "ok":
                    continue
            observed = world.table(variants=False)
            if release:
                release()
            regs = ",".join(f"{i}:{'+'.join(p for p in world.S if i in table[p])}" for i in NINE
                            if any(i in table[p] for p in world.S))
            impls = ",".join(f"{i}.{m}:{'+'.join(p for p in world.S if m in table[p].get(i, []))}"
                             for i in NINE for m in patches.members[i] if any(m in table[p].get(i, []) for p in world.S))
            obs.append((world, t, table, shapes, observed, f"synth {t or '-'} {regs or '-'} {impls or '-'}"))
    answers = ctx.lean([o[-1] for o in obs])
    for (world, t, table, shapes, observed, _line), ans in zip(obs, answers):
        model = model_view(ans)
        case = {"kind": "synthetic", "S": world.S, "t": t, "table": table,
                "shapes": {f"{p}/{i}": s for (p, i), s in shapes.items()}, "scenario": world.sc, "env": None}
        if model != observed:
            diff = {k: (observed.get(k), model.get(k)) for k in observed if observed.get(k) != model.get(k)}
            ctx.disagree(case, {k: v[0] for k, v in diff.items()}, {k: v[1] for k, v in diff.items()}, where="synthetic tables")
        ctx.validated(len(observed))
        # oracle: the property's order applied to who implements what BY CONSTRUCTION of the table
        for key, got in observed.items():
            iface, name = key.split(".", 1)
            order = ([t] if t else []) + (POWER_ORDER if iface == "Power" else TEXT_ORDER)
            want = next((p for p in order if p in world.S and name in table.get(p, {}).get(iface, [])), "!")
            shape_of = shapes.get((want, iface)) if want != "!" else None
            ctx.note("synthetic:shape:" + (shape_of or "nobody"))
            if got != want:
                ctx.fail(f"synthetic:{key}:{set_bits(world.S)}:{t or '-'}:{shape_of or '-'}", dict(case, member=key), got, want,
                         f"{key} with synthetic protocols {'+'.join(world.S)} (holder {t or 'none'}); implemented by "
                         f"{[p + '/' + shapes[(p, iface)] for p in world.S if name in table[p].get(iface, [])]}: executed by {got}, "
                         f"the property demands {want}")
        ctx.case(["synthetic", world.S, t, sorted(case["shapes"].items()), sorted((p, sorted(v.items())) for p, v in table.items())], True,
                 sample={"synthetic_protocols": world.S, "holder": t, "shapes": sorted(set(shapes.values()))})
        ctx.note("synthetic:worlds")


# --- part 2 -------------------------------------------------------------------------------
def gen_history(rng, length):
    """Well-formed op list; >=30% of takeovers fail by construction."""
    ifaces = list(FACADE_ATTR.keys())
    held = {}
    tokens = []      # (id, [ifaces]) live
    ops, issued = [], 0
    for _ in range(length):
        r = rng.random()
        if tokens and r < 0.28:
            k = rng.randrange(len(tokens))
            tid, taken = tokens.pop(k)
            for i in taken:
                held.pop(i, None)
            ops.append(["release", tid])
            continue
        proto = rng.choice(TEXT_ORDER)
        free = [i for i in ifaces if i not in held]
        want_fail = rng.random() < 0.42
        lst = []
        if want_fail:
            base = rng.sample(free, min(len(free), rng.randint(0, 3)))
            if held and rng.random() < 0.7:
                lst = base + [rng.choice(list(held))]
                if rng.random() < 0.5:
                    rng.shuffle(lst)
            elif base:
                lst = base + [rng.choice(base)]
            else:
                lst = [rng.choice(ifaces)] * 2
        else:
            lst = rng.sample(free, min(len(free), rng.randint(0, 4)))
        if rng.random() < 0.25:
            lst.insert(rng.randint(0, len(lst)), "?")
        # what the property's histories demand of this op
        known = [i for i in lst if i != "?"]
        fails = any(i in held for i in known) or len(set(known)) != len(known)
        if not fails:
            for i in known:
                held[i] = proto
            tokens.append((issued, known))
            issued += 1
        ops.append(["takeover", proto, lst])
    return ops


def run_history(ctx, patches, sc, ops):
    """Execute on the real facade; returns (lines, observations).  Every third step some
    connected protocol publishes state and the calls reuse the published values."""
    world = World(patches, sc)
    S = world.S
    lines = [f"reset {set_bits(S)} {1 if world.video else 0}"]
    obs = [("ok", None, None, None)]
    closures = []
    tracked = {}          # oracle's own view of who holds what
    live = {}
    nfail = nrel = 0
    for step, op in enumerate(ops):
        before = world.holders()
        if step % 3 == 1 and S:
            world.publish(S[step % len(S)], step)
        if op[0] == "takeover":
            _, proto, lst = op
            status, closure = world.takeover(proto, lst)
            lines.append(f"takeover {proto} {','.join(lst) or '-'}")
            if status == "ok":
                tid = len(closures)
                closures.append(closure)
                known = [i for i in lst if i != "?"]
                live[tid] = known
                for i in known:
                    tracked[i] = proto
                head = f"ok {tid}"
            else:
                head = status
                nfail += 1
                if status == "invalid" and world.holders() != before:
                    ctx.fail("history:rollback", {"kind": "history", "scenario": sc, "ops": ops, "step": step},
                             world.holders(), before,
                             f"failing takeover {op} did not roll back: holders {before} -> {world.holders()}")
        else:
            tid = op[1]
            lines.append(f"release {tid}")
            if tid < len(closures):
                closures[tid]()
                for i in live.pop(tid, []):
                    tracked.pop(i, None)
                head = "released"
                nrel += 1
            else:
                head = "no-token"
        holders = world.holders()
        table = world.table(variants=step % 2 == 0)
        obs.append((head, holders, table, dict(tracked)))
        multi = {i: h for i, h in holders.items() if "+" in h}
        case = {"kind": "history", "scenario": sc, "ops": ops, "step": step,
                "env": world.env and {"publisher": world.env["publisher"], "volume": world.env["volume"]}}
        if multi:
            ctx.fail("history:two-holders", case, multi, "at most one holder", f"after {op}: {multi}")
        judge(ctx, world, {i: tracked.get(i) for i in NINE}, table, case, "history")
    return lines, obs, nfail, nrel, S


def compare_history(ctx, S, ops, obs, answers):
    for step, ((head, holders, table, _tr), ans) in enumerate(zip(obs, answers)):
        if holders is None:
            if ans != "ok":
                ctx.disagree({"S": S}, "ok", ans, where="reset")
            continue
        parts = ans.split(" ")
        m_head = " ".join(parts[:-2]) if len(parts) >= 3 else ans
        m_hold = parse_table(parts[-2]) if len(parts) >= 3 else None
        m_table = model_view(parts[-1]) if len(parts) >= 3 else None
        if m_table is not None:
            m_table = {k: m_table.get(k.split("[")[0]) for k in table}
        if (m_head, m_hold, m_table) != (head, holders, table):
            diff = None
            if m_table is not None and m_table != table:
                diff = {k: (table.get(k), m_table.get(k)) for k in table if table.get(k) != m_table.get(k)}
            ctx.disagree({"S": S, "ops": ops, "step": step - 1}, {"head": head, "holders": holders, "table_diff": diff},
                         {"head": m_head, "holders": m_hold}, where="history step")
        ctx.validated(1 + len(table))


def run(ctx, only_static=None, only_history=None, full_env=None, only_synthetic=None):
    loop = asyncio.new_event_loop()
    asyncio.set_event_loop(loop)
    patches = Patches(loop)
    try:
        rng = ctx.rng.fork("scenarios")
        if only_synthetic is not None:
            run_synthetic(ctx, patches, ctx.rng.fork("synthetic"), 0, only=only_synthetic)
            return
        if only_history is None:
            if only_static is not None:
                scenarios = only_static
            else:
                scenarios = all_scenarios(patches, rng, extra=ctx.scale(40, 400))
                ctx.exhaustive = True
            run_static(ctx, patches, scenarios,
                       full_env=(ctx.thorough or only_static is not None) if full_env is None else full_env)
            if only_static is None:
                run_synthetic(ctx, patches, ctx.rng.fork("synthetic"), ctx.scale(150, 1500))
        if only_static is None:
            if only_history is not None:
                hist = only_history
            else:
                rng = ctx.rng.fork("histories")
                n = ctx.scale(40, 160)
                maxlen = ctx.scale(12, 40)
                pool = all_scenarios(patches)
                first31 = pool[:31]
                pool = [sc for sc in pool if (lambda w: not w.connect_error and w.S)(World(patches, sc))]   # a device object exists
                pool = first31 + [sc for sc in pool if sc not in first31]
                hist = []
                for k in range(n):
                    sc = pool[30] if k % 5 == 0 else (rng.choice(pool[:31]) if k % 5 < 3 else rng.choice(pool))
                    hist.append((sc, gen_history(rng.fork(k), rng.randint(4, maxlen))))
            lines, spans = [], []
            for sc, ops in hist:
                l, obs, nfail, nrel, S = run_history(ctx, patches, sc, ops)
                spans.append((S, ops, obs, len(lines), len(l)))
                lines += l
                ntk = sum(1 for o in ops if o[0] == "takeover")
                ctx.note("history:takeovers", ntk)
                ctx.note("history:failing-takeovers", nfail)
                ctx.note("history:releases", nrel)
                ctx.note("history:len:%d" % (10 * (len(ops) // 10)))
                ctx.case([scen_key(sc), ops], nfail > 0 and nrel > 0,
                         sample={"scenario": scen_key(sc), "connected": S, "ops": ops[:6], "failing_takeovers": nfail, "releases": nrel})
            answers = ctx.lean(lines)
            for S, ops, obs, start, n in spans:
                compare_history(ctx, S, ops, obs, answers[start:start + n])
            tk, fl = ctx.stats.get("history:takeovers", 0), ctx.stats.get("history:failing-takeovers", 0)
            ctx.notes["failing_takeover_fraction"] = round(fl / tk, 3) if tk else None
    finally:
        patches.restore()
        asyncio.set_event_loop(None)
        loop.close()


def replay(ctx, failure):
    case = failure["case"]
    c2 = type(ctx)(ctx.prop, ctx.tier, ctx.seed, ctx.driver.driver_rel)
    if case.get("kind") == "synthetic":
        run(c2, only_synthetic=[case])
        return bool(c2.failures)
    if case.get("kind") == "history":
        ops = case["ops"][: case["step"] + 1]
        run(c2, only_history=[(case["scenario"], ops)])
    else:
        # twice in the same process: state kept across device objects (class level / module level) is in play
        run(c2, only_static=[case["scenario"], case["scenario"]], full_env=not case.get("light", False))
    return bool(c2.failures)


def shrink(ctx, failure):
    """A history failure needs only the prefix up to the failing step."""
    case = failure["case"]
    if case.get("kind") != "history":
        return failure
    ops = case["ops"][: case["step"] + 1]
    return dict(failure, case=dict(case, ops=ops, step=len(ops) - 1))
